PROP = {
    'level': 'translation_validation',
    'coq': ['Properties/C09.v', 'Properties/C09_tlb.v'],
    'coq_gen': [],
    'rule': ("one PRNG. SUBSET STREAM: TL schemas of 1..40 declarations inside the subset tl/parser supports (8-digit #ids incl. "
             "leading-zero / >= 2^31 / 0xffffffxx ids, types declared before use, single-constructor types named like their "
             "constructor, fields int long int256 bytes string Bool #, (vector T) of builtins and declared types, bare "
             "references to single-constructor types, boxed references to 2..5-constructor types, mode.N?T with N biased to "
             "0/31 and uniform over 0..31 and T any field type or `true`, constructors without fields, the constructors of a type NOT "
             "adjacent (other declarations and users of the type between them), values taking every constructor in turn, functions with "
             "conditional arguments returning single- and multi-constructor types, liteServer.error at a random position) plus "
             "one fixed schema with a conditional field on every bit 0..31; TL-B schemas of 1..8 declared types (uintN intN "
             "(## n) for 1..64 biased to 1/7/8/9/.../63/64, uint128/256/257 int128/256/257, the 8 generated bitsN, Bool, "
             "VarUInteger 1..32, Coins/Grams, MsgAddress, tail Cell, ^Cell, Maybe T, Maybe ^T, Either T ^T, Either T U, Either T T and "
             "Either T T' / T ^T' with two spellings of one Go type, nested and under Maybe / HashmapE, constructor lines of "
             "different types interleaved, value batches drawn until the schema says every Maybe/Either/constructor alternative "
             "(to depth 3) was selected, ^T, "
             "^[ fields ], HashmapE n T / n ^T incl. BitsN keys, nested declared types, untagged / #hex / $bin single "
             "constructors, 2..5-constructor unions with fixed-width, prefix-code, 8-bit and 32-bit tags, abi-style message "
             "bodies generated alone with typePrefix+skipMagic, every value fitting a cell; every form of field definition of "
             "tlb/parser's grammar: name:T, _:T, unnamed ^T and ^[ ... ] incl. nested with unnamed entries inside, an unnamed "
             "paren expression, an unnamed declared type, inline name:[ ... ], implicit {n:#} {X:Type} and constraints, the "
             "explicit empty prefixes #_ / $_, the builtin #, True, MsgAddressInt, CurrencyCollection — at random and once per "
             "run in a fixed schema `tlbforms`) plus one fixed schema using every "
             "type the builtin generators write into tlb/integers.go. For each schema: the real generator (tl/parser, "
             "tlb/parser linked as libraries) is run again after each of four variants of unrelated generator instances (every option function, custom type tables over the schema's own names, abi/parser, other schemas), from 8 goroutines concurrently, and in a fresh process (the compiled driver), all outputs compared; the output is compiled in a scratch "
             "Go module (one package per schema, one `go build ./...`, errors attributed per package); its structure is "
             "extracted (TL: go/ast extractor of C10 copied into harness/tlx; TL-B: harness/tlbdesc by reflection inside the "
             "compiled driver) and written with the schema into per-run files <work>/C09Tl*.v / C09Tlb*.v on which coqc "
             "evaluates tl_check / tlb_check by vm_compute (batches in parallel, a failing batch is split; each file ends with "
             "the theorem that every subset program of the batch checks). Then random values (mode words all-zero / all-one / "
             "sparse / random, byte strings biased to 252..260 and 1100, vectors 0..30, nested sums; tlbdesc.Rand boundary "
             "values for TL-B) go through the compiled MarshalTL + UnmarshalTL(bytes ++ junk), through the compiled request "
             "methods with a scripted transport (boxed result, boxed liteServer.error, <4 bytes, truncated, foreign tag, "
             "trailing bytes) and back through taggedRequestDecodeFunctions, and through tlb.Marshal + tlb.Unmarshal; the "
             "extracted model evaluates tl_encode/tl_decode/tl_request resp. spec_encode (+ the C03 model decoder and refines) "
             "with the schema carried AS DATA in the case, and must print the same bytes / cells / values. Oracles on the "
             "a fixed program `tlvec` takes values across the thresholds of the TL runtime the generated methods run on (vectors of 4095/4096/4097/thousands more/8192/8193 items of every element kind followed by a field and junk, byte strings 253..255 / 4095..4097 / 65535..65536, nesting 30, requests and whole/cut responses carrying them). implementation: every TL-B program is written through tlb/parser.File.Save over a path with a history (longer file / same twice / fresh) and must equal a fresh-path save and compile; GetTlbTypes lists the declared types; the three command-line emitters (liteclient/generator.go, tlb/generator.go, tlb/generator-config.go) run over an existing longer output file must leave what they leave in an empty directory; generator succeeds, output identical over 3 runs, go build succeeds, checker true, decode "
             "inverts encode, server-side decoder returns the request, tlb/integers.go is what the builtin generators "
             "produce. EXPLORATORY STREAM (never alarms, recorded as classes c09.explore|...): schemas with one departure "
             "from the subset (late declaration, colliding Go names, unconditional true, conditional field inside a "
             "multi-constructor type, flags.N? on a field not called mode, boxed reference to a single-constructor type, "
             "short / missing id, result name differing from the constructor; Either T ^U, Maybe inside Either / ^ / "
             "HashmapE, Maybe(Maybe), lower-case / underscore type names, ## 65, bits100, implicit fields, parametrised "
             "combinators, anonymous or empty-tag constructors in a union, recursion, Cell not last, Hashmap, SnakeData) with "
             "the outcome generator-error / compile-error / compiles + verdict of the checker. A class is (kind, stream, "
             "shape of the type, outcome)."),
    'explanation': ("LEVEL: translation validation with a proved checker. There is no theorem about tl/parser or tlb/parser for "
                    "all schemas (that needs a Go semantics); each *generated program* is verified for *all values*. "
                    "coq/Properties/C09.v: if tl_check S F B Ms Tab = true (S,F the schema, B/Ms/Tab the structure extracted from "
                    "the generated Go file) then for every declared type and every served type expression and ALL values, "
                    "MarshalTL = tl_encode (the TL wire format of Spec/TlWire.v, written from the TL specification), UnmarshalTL "
                    "inverts it on every continuation, boxed values start with the constructor id written in the schema, request "
                    "methods send id ++ arguments and return a boxed result / boxed liteServer.error as result / error, request "
                    "structs decode the arguments, the decoder table has one row per function under its id (corollaries of C10's "
                    "matches_sound development); C09_tl_checker_accepts_and_rejects: swapped fields (either direction), wrong "
                    "width, dropped mode test, wrong bit, wrong id, wrong request/error/response id, wrong table key, unreadable "
                    "statement are all rejected, and C09_tl_rejected_programs_misbehave exhibits the differing bytes. "
                    "coq/Properties/C09_tlb.v: if tlb_check s d = true (s the meaning of the declaration, d the descriptor of the "
                    "generated Go type) then for ALL values the cell tlb.Marshal's model builds is exactly spec_encode s v (bits "
                    "and references), and decode inverts encode consuming the whole cell (C04 refines_sound + C03 "
                    "generic_roundtrip); C09_tlb_checker_rejects: swapped fields, wrong width, lost sign, wrong/short/dropped tag, "
                    "exchanged constructors, dropped reference, Maybe instead of Maybe ^, Either T ^U emitted as Either T U, wrong "
                    "VarUInteger bound, inline dictionary, shadowing tags. The per-run obligations are evaluated by coqc on files "
                    "the generator writes under work/C09 (counted as cases c09.check|...|checked, failures reported as oracle "
                    "failures with the schema text as input). Determinism of the generators has no Coq content (string equality "
                    "decided by the harness)."),
    'assumptions': ["no statement about schemas the harness did not generate: the claim is per generated program, for all values",
                    "supported subset as read from the generators (see rule); outside it the generators emit non-compiling or "
                    "schema-diverging code in several ways, recorded as observations only",
                    "functions returning a multi-constructor type: only name, request type, request id and error id of the method "
                    "are in the checker; their response path is covered by execution (c09.tlreq), not by a theorem",
                    "HashmapE bodies are opaque cells here (their layout is C05); values in the domain of the specs (C10/C03 domains)",
                    "the go/ast extractor, tlbdesc and the mini-language / codec models are trusted by correspondence; `go build` "
                    "and the three-run determinism check are observations of the harness"],
}

META = {
    'text': ("Translation validation with a proved checker (Coq), not a theorem about the generators: for random TL and TL-B "
             "schemas inside the subset the schema compilers support, the real tl/parser and tlb/parser are run, their output is "
             "compiled, its structure is extracted, and Coq decides by vm_compute a checker for which it is proved that a passing "
             "program implements its schema for ALL values: generated MarshalTL/UnmarshalTL produce and accept exactly the TL wire "
             "format with the schema's constructor ids (request methods and the request decoder included), and the generated "
             "TL-B struct types driven through the reflection codec write bit-exactly the declared serialisation and decode it "
             "back. Behind the checker, random values through the compiled code agree with the wire-format / TL-B semantics "
             "evaluated by the extracted model with the schema as data; three generator runs per schema give identical output."),
    'design_ref': 'DESIGN.md §6 C10 / C09',
    'note': ("Trusted: Coq kernel, extraction, drivers, Go harness, go toolchain, the go/ast extractor (copy of C10's in "
             "harness/tlx), harness/tlbdesc and the models they feed (validated by differential execution per program). One defect "
             "repaired: tl/parser emitted a MarshalTL with unused variables (compile error) for a constructor without fields. "
             "Outside the supported subset the generators are observed to emit non-compiling code (conditional field in a "
             "multi-constructor type, flags.N? on a field not named mode, unconditional true, boxed reference to a "
             "single-constructor type, lower-case TL-B type names, ## n above 64) or code that silently diverges from the "
             "declaration (TL-B: Either T ^U loses the ^, Maybe inside Either/^ loses the tag): recorded as observations."),
    'technique': 'random schema generation + real generators + go build + proved checker by vm_compute per generated program + extracted-model correspondence with the schema as data',
}

# ROUND-8-APPEND
PROP['rule'] += ' ROUND 8: two fixed TL-B programs `tlbdicts` (HashmapE, inside the full pipeline) and `tlbhm` (the non-empty Hashmap) cross both dictionaries with UintN/BitsN key widths and every value form (builtin, declared, ^declared, ^builtin, ^Cell, Coins, VarUInteger, ^VarUInteger, Either, Either T ^T, ^Either, ^[ ... ], dictionary, ^dictionary, 6 random plain types with/without ^) and put dictionaries under Maybe, Maybe ^, ^, Either (both sides), Either X ^X, in union constructors and in ^[ ... ]; for EVERY subset TL-B program the compiled driver lists the dictionary-typed positions of each generated Go type by reflection (tlx.TlbDicts: base Hashmap/HashmapE, key type, descriptor of the VALUE type) and the harness lists those of the declaration: same count (fixed programs), same base and key type (c09-tlb-dict-shape), and coqc evaluates tlb_check (meaning of the declared value type) (descriptor of the Go value type) by vm_compute in <work>/C09TlbDict.v (theorem C09_run_every_dictionary_value_type_checks; failures c09-tlb-dict-value; classes c09.tlbdict|Hashmap(E)|value-inline/ref|checked) - so a leaf holds its value inline or in a reference exactly as declared, which the opaque-cell model of dictionary bodies did not see. TL programs `tlnames*` (1 quick / 6 thorough): subset schemas whose constructor, type, field, conditional-field, function and namespace names are drawn from the whole identifier class of the lexer (trailing `_`, `__`, digit after `_`, upper case inside, dotted namespaces of such parts; the flags field stays `mode`), through the whole pipeline; a generator/parse error on them is a violation (c09-tl-generate).'
