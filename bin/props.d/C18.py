PROP = {
    'level': 'proof',
    'coq': ['Properties/C18.v'],
    'coq_gen': [],
    'rule': ("six generator families; every proof of the implementation is compared byte for byte with the extracted model "
             "(label walk, prune, Merkle-proof cell, serialiser) AND judged by oracles stated on the Go side. "
             "(1) dictionaries (key widths 8..256, 1..60 entries, shapes random / long common prefixes / runs / dense) built by an "
             "independent encoder with minimal or random label forms per edge x present keys (first, last, random; all in the thorough "
             "tier) and absent keys (random, one bit away from a present key), one prover per key [c18.key]. "
             "(2) random ordinary cell trees x random prune sets through Cursor.Ref/Prune + CreateProof [c18.proof]. "
             "(3) HISTORIES over ONE *boc.MerkleProver of a dictionary [c18.multi]: 3..8 operations — ProveKeyInHashmap for several "
             "different present keys, failing attempts for absent keys, cursor walks with CreateProof, cursor walks that are abandoned — "
             "every result of the sequence must equal the model's result for that operation ALONE (history independence), "
             "and (4) the same over one prover of an arbitrary tree (several cursors). "
             "(5) sources that already contain exotic cells: (a) the body of an earlier proof (level-1 pruned branches) narrowed by a "
             "second prune set = nothing / an existing pruned branch / an ancestor of one / a sibling / random; (b) partially pruned "
             "dictionaries x keys whose path is kept, keys whose path is pruned, absent keys, alone and as a history; (c) trees with "
             "pruned branches of every level mask 1..7, library cells, Merkle proof/update cells, with consistent or arbitrary masks. "
             "(6) CONCURRENT operations on ONE *boc.MerkleProver, in the guarded child [c18.conc]: 2..8 goroutines released together, "
             "each repeating its own operation 120 (thorough: 300) times with its own cursor — ProveKeyInHashmap for its own key of a "
             "6..35-entry dictionary (walking a private copy of the cells), some for absent keys, some cursor walks; and cursor walks "
             "on arbitrary trees (ordinary or with exotic cells). Every round of every operation must return byte for byte what the "
             "operation returns alone on a fresh prover (computed sequentially) and what the model says for it (the model of the "
             "kind is schedule-free), and must satisfy the oracles below for ITS OWN pruned set / key; rounds that disagree are "
             "reported as ('diverged ..), a hang or fatal error as 'timeout / 'crash. At least 4 OS threads are used even when the "
             "run is confined to one CPU. "
             "Oracles per proof, computed from the source tree and the set of cells THIS operation pruned (level-0 hashes by "
             "boc.VerifLevelHash, not by pruneCells): single-root BOC whose root is a 280-bit Merkle-proof cell 03|hash_0|depth_0 of "
             "the source root; the body's level-0 hash/depth equal them; position by position the body is the source where exactly "
             "the pruned cells are replaced by 01 01|hash_0|depth_0 of the subtree they replace (mask 1, no references) and every "
             "other cell keeps type, data, reference count and has mask = own mask OR children's masks (so nothing else is pruned); "
             "the value of a proven key is readable along the key path of the proof; an absent key, or a key whose path runs into a "
             "pruned branch of the source, yields an error; a Merkle cell reached by pruning yields an error, never a proof. "
             "A class is (family, width/size bucket, label forms, counts of present/absent/walk operations or second-prune mode, "
             "level of the source, outcome)."),
    'explanation': ("coq/Properties/C18.v, for every hash function with 32-byte output and every source tree without Merkle cells in which "
                    "pruned branches are leaves (ordinary cells, library cells, pruned branches of any level mask: prunable_tree; the trees "
                    "of ordinary cells of the first version are included, C18_ordinary_trees_covered) and every prune set: pruning preserves "
                    "the level-0 hash and depth (C18_prune_preserves_level0; the level-0 answer of a pruned branch of the source is the hash "
                    "it stores), every pruned branch is 01 01|hash_0|depth_0 of the subtree it replaces (C18_pruned_branch_stores, "
                    "C18_level0_answer_shape), the proof root is a Merkle-proof cell carrying hash_0/depth_0 of the source root and its child "
                    "has exactly them at level 0 (C18_proof_commits), unpruned positions keep their data (C18_unpruned_path_keeps_data); a "
                    "key proof is produced only if the walk spells the key (C18_proof_only_for_spelled_key) and then the leaf of the key, "
                    "with label and value bits, is at the same position of the proof body with the same bits, because every position the walk "
                    "prunes is a sibling at a fork of its own path (C18_key_proof_reveals). History independence (C18_history_independent): "
                    "for every sequence of operations on one prover the i-th result is the result of operation i alone; this is immediate in "
                    "the model because the model of the prover has no state but the root (the pruned set belongs to the cursor) — its "
                    "content is the correspondence run over one Go prover per history. C18_shared_pruned_set_refuted (Proofs/C18History.v) "
                    "shows the requirement is not vacuous: a prover that owns the pruned set and shares it between cursors gives a right "
                    "first proof and a wrong second one. C18_interleaving_independent extends history independence to interleavings of "
                    "concurrent calls: CreateProof split into its two steps (attach the pruned tree to a Merkle-proof header cell; serialise "
                    "that cell), any number of calls, any schedule — a call emits the proof of its own prune set, because the prover is "
                    "read-only after construction and the header belongs to the call (immediate in the model, which has no prover state; "
                    "the content is the c18.conc run). C18_shared_header_refuted: with one header cell owned by the prover the schedule "
                    "Attach 0; Attach 1; Emit 0 returns call 1's proof to call 0 although every sequential schedule is right."),
    'assumptions': ["source trees in which pruning reaches a Merkle proof/update cell are refused by pruneCells with an error (documented "
                    "limitation of the library, modelled as Err, checked by the oracle: never a proof); such trees are outside the theorems",
                    "observation (not a violation of the statement): CreateProof always gives the Merkle-proof cell level mask 0; for a source "
                    "of level >= 2 (pruned branches of mask 2..7 inside) TON's rule would be mask(body) >> 1. The hash/depth committed, the "
                    "level-0 hash of the body and the stored hashes are right for those sources too (oracles and byte comparison run on them)",
                    "observation: a new pruned branch stores only the level-0 hash/depth (mask 1) even when the replaced subtree has level > 0 "
                    "— sufficient for the level-0 commitment the property speaks about",
                    "absence of a key is characterised by the walk not spelling it through ordinary cells; the link to the abstract dictionary "
                    "map is C05's",
                    "the caller resets the read cursor of the root cell between ProveKeyInHashmap calls on the same *boc.Cell "
                    "(root.ResetCounters(): the walk reads the label and the child references from the cell it is given and leaves its read "
                    "position behind); the harness does so",
                    "concurrent scenarios are scheduling-dependent: a defect that needs an interleaving is found with high probability "
                    "per run (several thousand overlapping proofs per quick run), not with certainty; the Coq statement about interleavings "
                    "is about the two-step model of CreateProof, not about the Go memory model (no data-race detector is used, CGO is off)",
                    "each goroutine walks its own copy of the dictionary cells: ProveKeyInHashmap moves the read position of the *boc.Cell "
                    "tree it is given, so sharing that tree between goroutines is outside the API; the shared object is the prover",
                    "level-0 hashes used by the Go-side oracles come from newImmutableCell (boc.VerifLevelHash), which is checked against the "
                    "declarative representation hash by C02; the model recomputes all hashes independently"],
}

META = {
    'text': ("Machine-checked proof (Coq), for any hash function with 32-byte output, over all cell trees without "
             "pruned/Merkle cells and all sets of pruned positions: pruneCells preserves the level-0 representation hash "
             "and depth (using the declarative hash of C02), each pruned-branch cell is 01 01|hash_0|depth_0 of the subtree "
             "it replaces, CreateProof's root is a level-0 Merkle-proof cell carrying the original root's hash/depth over a "
             "child with exactly that level-0 hash, cells on unpruned paths keep their data (the value stays readable), and "
             "ProveKeyInHashmap yields a proof only when the walked labels spell the key. The extracted model (label walk + "
             "prune + serialiser) reproduces the implementation's proof bytes exactly. Strengthened: the theorems now also "
             "cover source trees in which pruned branches of any level mask and library cells occur as leaves (prunable_tree; "
             "only Merkle cells stay outside), C18_key_proof_reveals shows that the leaf of a proven key, with label and value "
             "bits, is at the same position of the proof body, and C18_history_independent states that on one prover the i-th "
             "result of any operation sequence is the result of operation i alone (C18_shared_pruned_set_refuted: a prover "
             "sharing the pruned set between cursors fails it). New generator families: histories of 3..8 operations over ONE "
             "*boc.MerkleProver of a dictionary (c18.multi) or of an arbitrary tree (several cursors), and sources that already "
             "contain exotic cells (bodies of earlier proofs, partially pruned dictionaries, pruned branches of masks 1..7, "
             "library and Merkle cells); Go-side oracles compare the proof body position by position with the source. "
             "Concurrent use: K goroutines on ONE prover, each repeating its own operation, every result byte-identical to the "
             "operation alone and to the model (c18.conc, guarded child); C18_interleaving_independent / C18_shared_header_refuted "
             "state and delimit it for the two-step model of CreateProof. "
             "A defect was repaired in /repo: ProveKeyInHashmap walked into pruned branches of a partially pruned dictionary "
             "and returned a garbage value and a proof not revealing the key with a nil error; it now returns an error when "
             "the path reaches an exotic cell."),
    'design_ref': 'DESIGN.md §6 C18',
    'note': ("Trusted: Coq kernel, extraction, drivers, Go harness, the C02 spec. Pruning by pointer identity is resolved "
             "to positions by the harness. Source trees in which pruning reaches a Merkle proof/update cell are refused with an "
             "error (modelled as Err, oracle: never a proof) and are outside the theorems. The caller resets the read cursor of "
             "the root cell between ProveKeyInHashmap calls on the same *boc.Cell (the harness does). Level-0 hashes used by the "
             "Go-side oracles come from newImmutableCell (boc.VerifLevelHash), checked against the declarative hash by C02. "
             "Observations, not violations: CreateProof always gives the Merkle-proof cell level mask 0 and a new pruned branch "
             "stores only the level-0 hash/depth, also for sources of level >= 2. Repaired in /repo (tlb/hashmap.go): "
             "ProveKeyInHashmap on a key whose leaf is a pruned branch of the source dictionary returned bits of the "
             "pruned-branch cell as the value and a proof without the key, err == nil; now an error."),
    'technique': ('Coq induction over cell trees on top of the C02 hash spec + byte-exact extracted-model correspondence '
                  '+ histories over one prover; sources containing pruned branches'),
}
