PROP = {'level': 'proof',
 'coq': ['Properties/C08.v', 'Properties/C08_ext.v', 'Properties/C08_tl.v'],
 'coq_gen': ['Properties/C08_gen.v'],
 'rule': 'TL: for each of the 73 generated lite-server Go types and 10 basic kinds, reflection-filled values '
         'marshalled to valid encodings, then truncation at every offset, single-byte substitutions, trailing bytes, '
         '12 length/count attack words (ffffff7f, ffffffff, feffffff, 4096/4097 boundaries ...) at 4-aligned '
         'offsets, random bytes and directed F12 witnesses; mutated streams run in a child process (address-space '
         'limit, 20 s timeout) and are then measured in-process (runtime TotalAlloc <= 901*len+2446529). Compared '
         'with the model: outcome class and unread byte count. TL-B: descriptors derived by reflection (plain kinds, '
         'tags, Maybe/Either/EitherRef/Ref, sum types, and the hand-written decoders '
         'Hashmap/HashmapE/HashmapAug/HashmapAugE with UintN/IntN/BitsN keys, VmStack, VmStackValue, VmStkTuple, '
         'VmCellSlice, VmCont, Grams, VarUInteger, SnakeData, Bytes, Text (UTF-8 check), FixedLengthText, BinTree, '
         'MsgAddress, the small enums) for 50 registered types (Message and Transaction included: they hash the cell '
         'first; whether boc.Cell.Hash() succeeds is supplied to the model as an oracle column, with directed trees '
         'around depth 1024 where it fails) (6 local types covering every constructor; Account, ShardAccount, '
         'StateInit, CommonMsgInfo, CurrencyCollection, ConfigParams, StorageInfo, transaction phases, '
         'MerkleProof/MerkleUpdate, dictionaries, stack types ...); descriptor-guided valid cell trees (valid '
         'dictionaries, stacks, tuples, snakes), truncated cells, dropped refs, flipped bits, pruned-branch / '
         'library / Merkle cells in every reference position and at the root, random trees, and directed prefixes at '
         'their maximum with a short remainder (VmStack depth 1..0xFFFFFF with 0..4 chain cells, tuple lengths, '
         'dictionary labels announcing more bits than present, VarUInteger/text lengths, cell-slice bounds around '
         'the real size in all orders); compared with the model: outcome class and unread bits/refs. Decoders that '
         'follow the data run in a child process (address-space limit, timeout) and additionally under two Go '
         "oracles: TotalAlloc <= 64*weight + 65536 (+ 320*height^2 for VmStack's per-level copy), and the use oracle "
         '(a value decoded without error must not make its own accessors / Unmarshal / JSON panic). Framing: '
         'decodeLength, processQueryAnswer (also the same answer twice: must not hang), ParsePacket (valid, '
         'truncated, size-field attacks), and VmStack.UnmarshalTL / ParseContractMethods / '
         'decodeAccountDataFromProof on BOCs with 0..3 roots and damaged BOCs. Oracle-only (no model; exploration '
         'support, not part of the claim): Block, BlockInfo, McStateExtra, ShardStateUnsplit, ValueFlow '
         '(value-dependent layouts). A class is (kind, type or family, mutation family, outcome ok|err|panic|crash).',
 'explanation': 'coq/Properties/C08.v: over a panic/allocation/step-annotated model of the repaired tl/decoder.go '
                'and the mini-language of generated UnmarshalTL bodies, for every schema satisfying the decidable '
                'condition sok and every byte string: never Panic, never out of fuel, allocation and steps <= '
                '(5+rate*fuel)*len + static constant, a successful decode consumes at least the minimal wire size; '
                'the TL-B reflection walker (Model/TlbCore.dec and its exotic-cell aware twin) never panics and '
                'takes at most usize(descriptor) steps; decodeLength, processQueryAnswer, the auth nonce parse, '
                'ParsePacket, VmStack.UnmarshalTL, ParseContractMethods, GetTransactions and '
                'decodeAccountDataFromProof never panic. coq/Properties/C08_gen.v re-checks sok on the bindings '
                'translated from liteclient/generated.go (rate 112, fuel 8: <= 901*len + 2446529 for all 73 types). '
                'The old behaviour (F12, F18) is refuted by witnesses in Proofs/C08History.v. '
                'coq/Properties/C08_ext.v: the walker extended by the hand-written decoders (dictionaries, VmStack '
                'lists, stack values, tuples, cell slices, Grams, snake data; data-driven recursion is structural on '
                'the cell tree, so it needs no fuel) never panics on any cell tree, and for closed descriptors steps '
                '+ modelled allocation <= usz(descriptor) * size-in-bytes * height of the tree, independent of every '
                'announced depth / count / length; VmStack lists: 2*size + 912*height^2 with the quadratic term '
                'shown to be real; VmStack.UnmarshalTL end to end (BOC parser of C07 + root indexing + walker) never '
                'panics. coq/Properties/C08_ext.v: the walker extended by the hand-written decoders (dictionaries, '
                'VmStack lists, stack values, tuples, cell slices, Grams, snake data; data-driven recursion is '
                'structural on the cell tree, so it needs no fuel) never panics on any cell tree, and for closed '
                'descriptors steps + modelled allocation <= usz(descriptor) * size-in-bytes * height of the tree, '
                'independent of every announced depth / count / length; VmStack lists: 2*size + 912*height^2 with '
                'the quadratic term shown to be real; VmStack.UnmarshalTL end to end (BOC parser of C07 + root '
                'indexing + walker) never panics. Message and Transaction (hash first, then the fields) are inside '
                'the same theorems with the hash result as a parameter. coq/Properties/C08_tl.v: the schema '
                'condition without a rate (sokw: vector elements have a non-empty wire form, 4096 elements stay '
                'below maxAlloc, nesting fits the fuel) is equivalent to sok for some rate; under it tl.Unmarshal '
                'never panics and allocation + steps are linear; an empty-wire-form vector element makes 4 bytes '
                "cost 65536 decode calls (the condition is necessary); the C10 checker's element-size bound implies "
                'the maxAlloc part.',
 'assumptions': ['allocation is the sum of modelled requests; growth policies of reflect.Append and bytes.Buffer '
                 'enter as upper estimates (6x element size per append, 4x bytes read + 2048), checked empirically '
                 'by the TotalAlloc oracle',
                 'the reader is a *bytes.Reader; time is a count of decode calls, not wall-clock',
                 'tlb.Unmarshal of the root cell is a parameter of the root-indexing theorems; GetTransactions '
                 '(r.Ids[i]) is proved on the model only (no fake-server run)',
                 'VmStack list decoding re-copies the tail per level (quadratic in the chain length): observation, '
                 'stated as its own theorem and allowed for explicitly in the allocation oracle',
                 'TL-B types whose decoders are not descriptor-describable (Block, BlockInfo, McStateExtra, '
                 'ShardStateUnsplit, ValueFlow: value-dependent layouts) are covered only by the guarded Go oracles '
                 '(exploration support, no model)',
                 'hashmap key types are UintN/IntN/BitsN whose decoder reads exactly FixedSize bits; the static Go '
                 'size of values enters the allocation estimate as a descriptor parameter',
                 'use oracle: only an UNSOUND decoded value (cell-slice window outside its cell, tuple entry without '
                 'a constructor, tuple length without data, keys/values of different length) is a failure (keys '
                 'tlb-unsound-<Type>, tlb-use-panic-<Type>); accessor panics on sound values are counted '
                 'observations, currently one: tlb.Account.Status() panics on the zero Account that a skipped '
                 'pruned-branch reference leaves in a ShardAccount (class observation:status-on-pruned-account)',
                 'Message / Transaction: boc.Cell.Hash() success is an oracle column computed by the Go harness '
                 '(arbitrary predicate in the theorems); they are modelled at the start of a cell only, where '
                 'ResetCounters is the identity (all occurrences in the registered types)']}

META = {'text': 'Machine-checked proof (Coq) over a model of the repaired tl/decoder.go in which every make/MakeSlice '
         'carries its panic condition and every allocation and decode call is counted: for every schema satisfying a '
         'decidable condition (re-checked by vm_compute on all 73 bindings translated from liteclient/generated.go) '
         'and every byte string, tl.Unmarshal returns a value or an error, never panics, and allocation + steps <= '
         '901*len + 2446529; the TL-B reflection walker never panics on any cell tree incl. library cells and pruned '
         'branches in every position and takes at most the unrolled descriptor size in steps; the ADNL '
         'length/answer/packet helpers and the root-indexing helpers (VmStack.UnmarshalTL, ParseContractMethods, '
         'GetTransactions, decodeAccountDataFromProof) never panic. Five defects (8-byte input => fatal '
         'out-of-memory, 16 MiB per 4-byte prefix, three index panics) were repaired in /repo; their witnesses are '
         'kept as refuted lemmas about the old code (a sixth, a swallowed tuple-entry error, was repaired later). A '
         'second layer puts the hand-written TL-B decoders (dictionaries, VmStack lists and values, tuples, cell '
         'slices, Grams, snake data) inside the theorems: total on every cell tree, cost <= usz * size * height '
         "independent of any announced length, VmStack's quadratic per-level copy stated separately. The extracted "
         'model is run against the Go code on mutated encodings of every generated type in a memory-limited child '
         'with an allocation oracle.',
 'design_ref': 'DESIGN.md §6 C08',
 'note': 'Trusted: Coq kernel, extraction, drivers, Go harness. Runtime growth policies (reflect.Append, '
         "bytes.Buffer) are upper estimates in the model, observed via TotalAlloc and the child's address-space "
         'limit. Partial: step bound is a call count; block-level decoders with value-dependent layouts (Block, '
         'BlockInfo, McStateExtra, ShardStateUnsplit, ValueFlow) run only under the Go oracles; Message/Transaction '
         'take the hash result as an oracle column; GetTransactions is not exercised on the Go side; no proved '
         'refinement between the exotic-aware walker and TlbCore.dec (tied by correspondence instead).',
 'technique': 'Coq resource-logic (potential function) totality/allocation proof of a panic-annotated decoder model '
              '+ schema obligations by vm_compute + extracted-model correspondence on malformed streams in a guarded '
              'child'}
