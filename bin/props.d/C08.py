PROP = {
    'level': 'proof',
    'coq': ['Properties/C08.v'],
    'coq_gen': ['Properties/C08_gen.v'],
    'rule': ("TL: for each of the 73 generated lite-server Go types and 10 basic kinds, reflection-filled values marshalled to "
             "valid encodings, then truncation at every offset, single-byte substitutions, trailing bytes, 12 length/count "
             "attack words (ffffff7f, ffffffff, feffffff, 4096/4097 boundaries ...) at 4-aligned offsets, random bytes and "
             "directed F12 witnesses; mutated streams run in a child process (address-space limit, 20 s timeout) and are then "
             "measured in-process (runtime TotalAlloc <= 901*len+2446529). Compared with the model: outcome class and unread "
             "byte count. TL-B: descriptors derived by reflection from 12 describable types (6 local types covering every "
             "descriptor constructor, TickTock, StorageUsed, MsgAddress, SimpleLib, MerkleProof/MerkleUpdate); descriptor-guided "
             "valid cell trees, truncated cells, dropped refs, flipped bits, pruned-branch / library / Merkle cells in every "
             "reference position and at the root, random trees; compared: outcome class and unread bits/refs. Framing: "
             "decodeLength, processQueryAnswer, ParsePacket (valid, truncated, size-field attacks), and VmStack.UnmarshalTL / "
             "ParseContractMethods / decodeAccountDataFromProof on BOCs with 0..3 roots and damaged BOCs. For the 26 TL-B types "
             "with hand-written decoders (hashmaps, VmStack incl. UnmarshalTL, Message, Transaction, Account, Block, Grams, "
             "SnakeData, Text, Bytes, FixedLengthText, VmCont, VmStkTuple ...) the decoders run in the guarded child "
             "(address-space limit, 10 s timeout) under a no-panic/no-crash oracle and an allocation oracle "
             "`TotalAlloc delta <= 64*weight + 65536` (weight = sum over cells of 64 + data bytes, or the BOC length for "
             "UnmarshalTL; plus 320*height^2 for VmStack whose list decoder re-copies the tail per level), with directed "
             "inputs (VmStack depth prefixes up to 0xFFFFFF with 0..4 chain cells, tuple lengths, hashmap labels announcing "
             "more bits than present, maximal length prefixes with a short remainder) - still exploration support, not part "
             "of the claim; keys tlb-alloc-<Type>, tlb-panic-<Type>. "
             "A class is (kind, type or family, mutation family, outcome ok|err|panic|crash)."),
    'explanation': ("coq/Properties/C08.v: over a panic/allocation/step-annotated model of the repaired tl/decoder.go and the "
                    "mini-language of generated UnmarshalTL bodies, for every schema satisfying the decidable condition sok and "
                    "every byte string: never Panic, never out of fuel, allocation and steps <= (5+rate*fuel)*len + static constant, "
                    "a successful decode consumes at least the minimal wire size; the TL-B reflection walker (Model/TlbCore.dec and "
                    "its exotic-cell aware twin) never panics and takes at most usize(descriptor) steps; decodeLength, "
                    "processQueryAnswer, the auth nonce parse, ParsePacket, VmStack.UnmarshalTL, ParseContractMethods, GetTransactions "
                    "and decodeAccountDataFromProof never panic. coq/Properties/C08_gen.v re-checks sok on the bindings translated "
                    "from liteclient/generated.go (rate 112, fuel 8: <= 901*len + 2446529 for all 73 types). The old behaviour "
                    "(F12, F18) is refuted by witnesses in Proofs/C08History.v."),
    'assumptions': ["allocation is the sum of modelled requests; growth policies of reflect.Append and bytes.Buffer enter as upper "
                    "estimates (6x element size per append, 4x bytes read + 2048), checked empirically by the TotalAlloc oracle",
                    "the reader is a *bytes.Reader; time is a count of decode calls, not wall-clock",
                    "TL-B types with hand-written decoders are covered by the guarded no-panic/no-crash and allocation oracles only (exploration support, no model)",
                    "tlb.Unmarshal of the root cell is a parameter of the root-indexing theorems; GetTransactions (r.Ids[i]) is "
                    "proved on the model only (no fake-server run)",
                    "VmStack list decoding re-copies the tail per level (quadratic in the chain length): observation, allowed for "
                    "explicitly in the allocation oracle"],
}

META = {
    'text': ("Machine-checked proof (Coq) over a model of the repaired tl/decoder.go in which every make/MakeSlice carries its "
             "panic condition and every allocation and decode call is counted: for every schema satisfying a decidable condition "
             "(re-checked by vm_compute on all 73 bindings translated from liteclient/generated.go) and every byte string, "
             "tl.Unmarshal returns a value or an error, never panics, and allocation + steps <= 901*len + 2446529; the TL-B "
             "reflection walker never panics on any cell tree incl. library cells and pruned branches in every position and takes "
             "at most the unrolled descriptor size in steps; the ADNL length/answer/packet helpers and the root-indexing helpers "
             "(VmStack.UnmarshalTL, ParseContractMethods, GetTransactions, decodeAccountDataFromProof) never panic. Five defects "
             "(8-byte input => fatal out-of-memory, 16 MiB per 4-byte prefix, three index panics) were repaired in /repo; their "
             "witnesses are kept as refuted lemmas about the old code. The extracted model is run against the Go code on mutated "
             "encodings of every generated type in a memory-limited child with an allocation oracle."),
    'design_ref': 'DESIGN.md §6 C08',
    'note': ("Trusted: Coq kernel, extraction, drivers, Go harness. Runtime growth policies (reflect.Append, bytes.Buffer) are upper "
             "estimates in the model, observed via TotalAlloc and the child's address-space limit. Partial: step bound is a call count; "
             "hand-written TL-B decoders (hashmaps, VmStack lists, messages, blocks) run only under the Go no-panic oracle; "
             "GetTransactions is not exercised on the Go side; no proved refinement between the exotic-aware walker and TlbCore.dec "
             "(tied by correspondence instead)."),
    'technique': ('Coq resource-logic (potential function) totality/allocation proof of a panic-annotated decoder model + schema '
                  'obligations by vm_compute + extracted-model correspondence on malformed streams in a guarded child'),
}
