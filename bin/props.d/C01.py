PROP = {
    'level': 'proof',
    'coq': ['Properties/C01.v', 'Properties/C01_layout.v', 'Properties/C01_reorder.v', 'Properties/C01_serialize.v',
            'Properties/C01_history.v'],
    'coq_gen': ['Properties/C07_gen.v'],
    'rule': ("(1) kind c01.ser, every case in a guarded child process (address-space limit 6 GiB, 20 s): random cell DAGs "
             "(1..120 cells quick, sizes crossing 255/256, chains of depth 1023/1024, wide fans, heavy sharing, all bit "
             "lengths, valid exotic cells), DAGs of exactly 254..257 distinct cells, and the family 'sharing': chains of k "
             "cells each referencing the next one 2..4 times for k in 5..60 (up to 4^59 root-to-leaf paths), lattices "
             "i -> i+1..i+w (w = 2,3,4; 8..60 cells), layered diamonds (4..30 layers), random multiplicities along a chain, "
             "trees in which a few inner cells get additional parents (shared cells with private sub-trees), and the same "
             "shapes with pruned-branch / library / Merkle-proof / Merkle-update cells of masks 0..7 on the paths; every "
             "sharing case is serialised with index + cache bits and with one more option combination rotating through all "
             "eight (all eight in the thorough tier), smallest unfolded tree first. The bytes of Cell.ToBocCustom (header, "
             "index with cache bits, cell data, CRC) are compared exactly with the extracted model of importCell/reorderCells/"
             "revisit/serializeBoc, and both sides attach a certificate (own output parses to one root with the same hash; "
             "model: every cell stored once and the cell count equals the number of distinct reachable hashes; "
             "implementation: structurally identical root). A serialisation that hangs or kills the child is the outcome "
             "'timeout / 'crash: a class mismatch with the model (which always answers) and the oracle failure ser-timeout / "
             "ser-crash carrying the concrete DAG; such an input is never executed again in-process, and after two hangs "
             "inputs whose unfolded tree is at least as large as the smallest one that hung are skipped and counted "
             "(ser-timeout-skipped). Oracles on the implementation: round trip (certificate), index-bytes (every index "
             "entry re-derived from the cell data that follows it: end offset, doubled plus the cache flag with cache "
             "bits, flag set exactly for cells referenced more than once, truncated to off_bytes as the serialiser writes "
             "it), header cell count = number of distinct sub-cell hashes, same bytes for the same structure rebuilt with "
             "a different pointer sharing (every cell built twice and every reference picking a copy; small inputs also "
             "as a tree without sharing), BOCs written by an independent reference serialiser (3 magics, index, CRC, cache "
             "bits, over-wide fields, stored hashes, several roots) parse to the intended hash and structure; DAGs of "
             "65535..65537 cells round-trip (implementation only). "
             "(2) kind c01.hist, histories over 5..9 named cells (one *Cell per name for the whole history): append bits, "
             "add references, set exotic type / level mask, and serialise through Cell.ToBoc, Cell.ToBocCustom, "
             "boc.SerializeBoc and Cell.ToBocCustomWithHasher (any options). Templates: a cell is serialised, then "
             "written to / given a reference, then serialised inside a parent next to a fresh cell equal to its FORMER "
             "content (twice, through different entry points); a child is written to after its parent was serialised and "
             "becomes equal to its sibling; a deep cell of a serialised chain is modified and the chain, its middle and a "
             "parent holding the former content are serialised; one caller-supplied hasher reused as hasher.go documents "
             "(read-only cells, their later-built parents, unrelated cells) and replaced by a new one when a cell it has "
             "seen is modified; exotic leaves under a cell extended after serialisation; random step sequences; unrelated "
             "serialisations interleaved. Every answer (bytes + certificate against the cell's CURRENT structure and hash) "
             "is compared with the extracted model, which answers each request from the current structure alone. Oracles "
             "on the implementation: hist-roundtrip (certificate), hist-canonical (bytes equal those of a freshly built "
             "copy of the current structure serialised with a new hasher: equal structures give equal bytes regardless of "
             "history), hist-outcome. A class is (family, options or option group, size bucket / number of serialisations, "
             "outcome)."),
    'explanation': ("coq/Properties/C01.v: the parser inverts the BOC layout for every header variant and every "
                    "topological order (parse_layout).  coq/Properties/C01_reorder.v: for every post-order cell array and "
                    "arbitrary weights, reorderCells/revisit never run out of fuel, emit every reachable cell exactly once "
                    "(a permutation of the imported cells), remap every reference exactly once to a strictly smaller new "
                    "index (so the emitted order has references strictly forward: the premise of parse_layout) and return "
                    "the roots' new indices; importRoots/importCell establish the precondition (reorder_valid, "
                    "import_roots_valid).  coq/Properties/C01_serialize.v: for every array, hash list, root list and all 8 option "
                    "combinations the bytes returned by the serialiser model are exactly layout(v, cells, roots') where v is the "
                    "generic variant determined by the options with minimal size/off_bytes, no stored hashes and the index as "
                    "written, cells are the imported cells in reverse allocation order with references remapped to emitted "
                    "positions, and the layout satisfies layout_ok (serialize_is_layout); hence parse(serialize) returns these "
                    "cells and, when equal hashes mean equal trees on the reachable cells, every parsed root unfolds to the same "
                    "tree as the input root (boc_roundtrip_model, boc_roundtrip_total) and the number of stored cells equals the "
                    "number of distinct reachable hashes (stored_once); the model's only errors are the depth limit, the output "
                    "capacity (characterised exactly) or a hasher error, and it succeeds with 1..8 roots and depth <= 1024 - "
                    "for every DAG, whatever its number of paths (the model imports a cell once; the run ties the "
                    "implementation's termination to it through the guarded child).  coq/Properties/C01_history.v: cells are "
                    "mutable builders, so the property is also stated over histories (Model/BocHist.v: append bits / add "
                    "reference / set type, and serialisation requests through the four entry points): "
                    "C01_serialize_history_independent - two histories that leave the same cell array answer the same request "
                    "with the same result, namely the serialiser model on that array, whatever was serialised before and "
                    "whatever hasher the request names (immediate in the model, which keeps no state between requests; the "
                    "content is the c01.hist correspondence); C01_history_answers / C01_history_state - every answer inside a "
                    "history is the model on the array produced by the builder operations before it, and requests leave the "
                    "cells alone; C01_history_wf - accepted builder operations keep the array inside the hypotheses of the "
                    "serialiser theorems; C01_history_roundtrip - every answer of every history parses to one root that unfolds "
                    "to the tree of the cell's structure at the moment of the request; C01_pooled_hasher_refuted "
                    "(Proofs/BocSerHistory.v) - the design that keeps the bag's hasher (pointer-keyed maps) between calls is "
                    "refuted by a three-cell history: its second answer stores two cells and parses to x{00} -> (x{DEADBEEF}, "
                    "x{DEADBEEF}) where the structure is x{00} -> (x{DEADBEEF}, x{}); the bytes of that model equal the bytes the "
                    "seeded change C01-r2m2 produces.  The per-output certificate remains only as a redundant run-time "
                    "cross-check."),
    'assumptions': ["fewer than 2^24 cells (WriteInt(refByteSize,3) writes 0 for 4)",
                    "de-duplication is by SHA-256 hash: 'stored once' assumes no collision among the sub-cells",
                    "input cells have a 3-bit level mask and a type byte consistent with their data (exotic: >= 8 data bits, type = first data byte != 0); the serialiser does not write the type separately",
                    "fewer than 256 roots (the root count is written in `size` bytes unchecked; public entry points pass one root); success theorem: 1..8 roots",
                    "'structurally identical' and 'stored once' assume SHA-256 is collision-free and a function of the structure on the cells reachable from the roots (explicit hypotheses collision_free / hash_functional)",
                    "termination / running time of the Go serialiser is not a Gallina notion: the model is total with fuel proved sufficient, and the implementation is tied to it by the 20 s limit of the guarded child on DAGs with up to 4^59 paths",
                    "histories: a caller-supplied boc.Hasher is used only inside its documented contract (read-only cells: the harness replaces a hasher when a cell it has seen is modified); reuse outside that contract is outside the property. Cells are modified only through WriteBit/AddRef and the verif hook for type/mask; references point from smaller to greater names (no cycles). History independence over EQUAL ARRAYS is proved; equal bytes for equal unfolded trees held in different arrays/pointer sharings is checked by the run (canonical, hist-canonical oracles), not proved",
                    "sync.Pool and scheduling are runtime: a pooled-state defect shows only when the pool hands the same object back, which it does on one goroutine in practice; the quick tier runs 150 histories (about 600 serialisations) in one process"],
}

META = {
    'text': ("Coq: (i) theorem parse_layout — the parser model inverts the BOC byte layout for every header variant "
             "(three magics, index/CRC/cache bits, any fitting size/offset widths, stored hashes, any absent counter), "
             "every cell order with forward references and every root list, so bags written by other conforming "
             "implementations parse to the cells they encode (with C02: to the hashes intended); (ii) the serialiser "
             "(importCell / reorderCells / revisit / serializeBoc) is modelled statement by statement, extracted and "
             "compared byte-for-byte with Cell.ToBocCustom for all 8 option combinations, and every output carries a "
             "certificate evaluated by the extracted proved parser (parses to one root with the original hash, every "
             "cell stored once, cell count = number of distinct reachable sub-cells); (iii) theorem reorder_valid / "
             "import_roots_valid — for every post-order cell array and any weights the model of reorderCells/revisit "
             "terminates within its fuel, emits each imported cell exactly once, remaps every reference exactly once to a "
             "strictly smaller new index (references strictly forward in the emitted order, the premise of parse_layout) "
             "and returns the roots' new indices; (iv) theorem serialize_is_layout — for all 8 option combinations the "
             "serialiser model's bytes are exactly the layout of the reordered cells under the variant the options determine, "
             "hence boc_roundtrip (parse(serialize) unfolds to the same tree under collision-freeness), stored_once, and an "
             "exact characterisation of when the serialiser fails (depth, capacity, hasher error); (v) histories: cells are "
             "mutable builders, so serialisation is also modelled over histories of append-bits / add-reference / set-type "
             "operations and requests through ToBoc, ToBocCustom, SerializeBoc and ToBocCustomWithHasher — theorem "
             "serialize_history_independent (the answer is the serialiser on the current array, whatever was serialised "
             "before), history_roundtrip (every answer parses back to the current structure), and a refutation with witness "
             "of the design that keeps the hasher's pointer-keyed maps between calls (two structurally different cells "
             "merged). Run: every serialisation executes in a guarded child (a hang on a DAG with exponentially many paths "
             "is an outcome with the concrete DAG), index and cache-bit bytes are re-derived from the cell data, and every "
             "answer of every history is compared with the model and with a freshly built copy of the current structure."),
    'design_ref': 'DESIGN.md §6 C01',
    'note': ("Trusted: Coq kernel, extraction, drivers, Go harness, the layout spec. 'Stored once' is up to SHA-256 "
             "collisions (explicit hypotheses of the theorems). < 2^24 cells, < 256 roots. The per-output certificate is now "
             "redundant (kept as a cross-check); the serialiser model is tied to Cell.ToBocCustom byte for byte by the run. "
             "Running time is tied by the 20 s limit of the guarded child, not by a theorem. History independence is a "
             "theorem of the model (no state between requests) and a correspondence claim for the code: 150 histories quick / "
             "3000 thorough on one goroutine; caller-supplied hashers only inside their documented read-only contract."),
    'technique': 'Coq proofs (parser inverts layout; import/reorder validity; serialiser bytes = layout; round trip; history independence + refuted stale-cache design) + byte-exact extracted serialiser model, guarded child, histories',
}
