PROP = {
    'level': 'proof',
    'coq': ['Properties/C15.v'],
    'coq_gen': ['Properties/C15_gen.v'],
    'rule': ("(1) addresses: 12 address-bearing versions (V1R1..V2R2, V3R1..V4R2, V5Beta, V5R1, HighLoadV2R2) + unsupported ones x fixed / "
             "random keys x option sets (workchain -1,0,1,127,-128,128,255,256,-129,2^31,..., sub-wallet ids incl. the default 698983191 and "
             "2^32-1, network ids -239,-3,0,+-1,int32 bounds): wallet.New(...).GetAddress, GenerateWalletAddress and the hash of "
             "GenerateStateInit's cell vs the extracted model (code BOCs translated from models.go, parsed by the model parser, Gallina "
             "SHA-256), plus GetCodeHashByVer vs the model's code hash with GetVerByCodeHash / GetWalletVersion (active account running the "
             "code, deploying message carrying it) giving the version back, and GetW5R1ExtensionsList listing exactly the installed "
             "extensions of well-formed data; public keys of 0/1/31/33/64 bytes; pairs differing in one option; mnemonics through "
             "DefaultWalletFromSeed / SeedToPrivateKey against an INDEPENDENT implementation of the TON derivation in the harness "
             "(HMAC-SHA512 entropy, own PBKDF2 loop; version byte and Ed25519 seed handed to the model as columns): 24-word valid "
             "phrases, searched 12- and 13-word valid phrases, 11 words with version byte 0 (rejected), 11 words + trailing space (12 "
             "parts: accepted), random 24 words (bad version byte), empty string, double space; "
             "(2) NextMessageParams (hook) for every version x account none / uninit / frozen / active; active data covers everything the "
             "CONTRACT can store, built independently of the library (bit layout per version + a dictionary encoder written from the "
             "Hashmap TL-B schema with a random label form per edge): seqno 0,1,2,2^31-1,2^31,2^32-2,2^32-1 (33-bit values for v5 beta), "
             "default and non-default sub-wallet / wallet ids, signature-allowed flag both ways, 0..3 installed v4 plugins (264-bit "
             "keys, empty values), v5 beta extensions (256 -> 8 bits), v5r1 extensions (256 -> 1 bit), highload old queries (64-bit "
             "keys), keys sharing long prefixes; plus truncated data, trailing bits, missing dictionary reference: seqno, attached "
             "state-init hash AND the library's decoding of the data struct (seqno, id, key, flag, last-cleaned, dictionary keys in "
             "order) vs the model's decode_data; all account states of c15.next and c15.send reach the wallet the way applications "
             "obtain them: the serialised Account record decoded by tlb.Unmarshal into a variable that earlier polls (uninit, active with "
             "seqno 7, frozen) were decoded into, never a fresh literal; (2c) histories of 4..9 calls on ONE Wallet object (kind "
             "c15.history), every version: StateInit(), GetAddress(), NextMessageParams on none / uninit / frozen / active accounts given "
             "as fresh literals or polled into ONE reused record variable (active -> deleted -> active -> uninit -> frozen -> deleted -> "
             "active(2^32-1) -> deleted), interleaved with the caller "
             "overwriting in place what it was handed (data / code / special / library of the returned *StateInit, the Init of "
             "NextMsgParams, its copy of the address) and REUSING THE PRIVATE-KEY BUFFER it passed to New (refilled with another key or "
             "wiped; the library must not have written to it): every answer vs the model and vs a fresh wallet of the original key; (3) SendV2 on wallets created "
             "with / without WithMessageLifetime against a scripted blockchain interface: account state or "
             "state error x 0..3 messages (sometimes max+1) x send error x waiting 0 / 200 ms x seven poll histories (advance at the first, "
             "second, fourth poll, after errors, never, always error, lower-then-equal): result and the projection of the captured message "
             "(destination, attached state-init hash, seqno in the body, message count, expiry relative to the clock) vs model with the logical clock i*wait/10. Oracles "
             "on the implementation: the three APIs agree, address = hash of the state-init cell, workchain = requested, no two different "
             "(version, key, workchain, resolved ids) share an address and equal ones do, init attached iff not active (highload: iff "
             "none/uninit) with seqno 0, for every well-formed active data cell NextMessageParams returns the stored seqno without init and "
             "the decoded struct equals the stored fields, seqno in the message = seqno of the data, verdict of the send determined by the script alone, "
             "expiry within now+3min, every chain question is about the wallet's own address, nothing sent on state error / too many "
             "messages. A class is (kind, version, options / account flavour / wait / history, outcome)."),
    'explanation': ("coq/Properties/C15.v, for the Gallina model of newWallet, the data structs, generateStateInit/generateAddress, the three "
                    "address APIs, NextMessageParams of every version and SendV2/RawSendV2 with the (repaired) confirmation loop over a "
                    "scripted history: the address is (int32 workchain, hash of the cell 00110 ^code ^data) with the data laid out bit by bit; "
                    "the APIs are the same function; under hash injectivity on state-init cells and distinct code cells the address "
                    "determines version, key, int32 workchain and the id fields, and conversely (so it differs exactly when one differs), "
                    "with the default sub-wallet id 698983191+workchain and the v5r1 wallet-id XOR characterised; the data struct of every "
                    "version decodes every well-formed data cell (any seqno, ids, key, flag, any dictionary with distinct keys of the key "
                    "width and values of the value width) to exactly its fields (C15_decode_wellformed_data, through C05's dictionary "
                    "theorems), so active => stored seqno and no init whatever plugins/extensions are installed, otherwise own init and seqno 0 (highload: init iff none/uninit); for EVERY poll history the send returns Ok iff "
                    "some poll before the deadline reports a seqno above the sent one, else the timeout error; with the clock in ticks (a sleep of wait/10 between polls) at most ten polls "
                    "decide (C15_confirm_ten_polls; the harness checks <= 10 real polls); the message is addressed to the wallet itself; a "
                    "mnemonic is accepted iff it has >= 12 space-separated parts and version byte 0 (C15_seed_accepted_spec); SendV2 signs "
                    "expiry = now + the configured lifetime (C15_api_send_v2_expiry, clock a parameter); a Wallet object keeps nothing "
                    "between calls and NextMessageParams reads the CURRENT account record only, whatever earlier polls left in the reused "
                    "variable (C15_next_params_polled; the Status()-from-inner-tag design is refuted in Proofs/WalletHistory.v): after any history, incl. the caller modifying returned values, every answer is that of a fresh "
                    "wallet (C15_history_independent; the memoising design that hands its cache out by pointer and the design that keeps a view of the "
                    "caller's key buffer as the public key are refuted in Proofs/WalletHistory.v). coq/Properties/C15_gen.v re-checks on today's source that every accepted version's code BOC parses "
                    "to one root, that the twelve code hashes are pairwise distinct (hence codes_distinct), the constants and the Version "
                    "numbering."),
    'assumptions': ["address_injective assumes the cell hash injective on state-init cells (idealisation of SHA-256, explicit hypothesis)",
                    "the clock of the confirmation loop is part of the history (logical time); the harness uses real 200 ms deadlines with scripts whose verdict cannot depend on scheduling (advance at poll <= 2 or never)",
                    "workchain is a Go int: the address keeps int32(workchain), the data of v5 keeps its low byte; the theorems speak about these resolved values",
                    "PBKDF2/HMAC-SHA512 of the mnemonic derivation are not computed in Coq: the version byte and the Ed25519 seed come from an independent Go implementation of the specification (checked equal to wallet/seed.go on every case); the model decides acceptance (>= 12 parts, version byte 0) and builds the address",
                    "V1R1..V2R2 have addresses but NextMessageParams/createSignedMsgBodyCell panic(\"implement me\") (modelled as Panic, observation)",
                    "GenerateStateInit returns the zero StateInit and a nil error for an unsupported version (modelled as is, observation)",
                    "active-account data with a non-empty plugin/extension dictionary containing exotic cells is outside the model",
                    "the stored PRIVATE key aliases the caller's slice (w.key = key) at baseline: signatures made after the caller reuses its key buffer are outside the history check, which speaks about address, state-init and NextMessageParams; NewWalletV5R1/NewWalletV5Beta (exported constructors of unexported types) keep the caller's public-key slice by design and are not part of the history check"],
}

META = {
    'text': ("Machine-checked proof (Coq): the wallet address is (int32 workchain, hash of the state-init cell built from the version's "
             "code and its initial data: seqno 0, ids, public key, empty dictionaries), identical through New / GenerateWalletAddress / "
             "GenerateStateInit; under hash injectivity and pairwise distinct code cells (an obligation re-checked on the code BOCs "
             "translated from wallet/models.go) it differs exactly when version, key, workchain or an id field (sub-wallet id, v5 beta "
             "network/workchain/sub-wallet triple, v5r1 wallet-id = context XOR network id) differs, with the default-sub-wallet and XOR "
             "caveats stated as theorems; NextMessageParams takes the seqno from the data of an active account and attaches the state-init "
             "otherwise; for every history of GetSeqno answers, errors and clock readings the confirming send returns Ok iff some poll "
             "before the deadline reports a greater seqno, else the timeout error; the message goes to the wallet's own address. The "
             "extracted model reproduces the implementation's addresses (all versions and option sets), NextMessageParams results and "
             "SendV2 outcomes/payload projections against a scripted blockchain interface (~270 quick / ~1300 thorough cases)."),
    'design_ref': 'DESIGN.md §6 C14/C15, §7 F10',
    'note': ("One defect repaired in /repo (F10: the confirmation loop skipped every successful GetSeqno answer and always timed out). "
             "Trusted: Coq kernel, extraction, drivers, Go harness, the translator (go/ast copy of the code strings and constants)."),
    'technique': 'Coq model + injectivity/characterisation theorems + induction over poll histories; translated code BOCs with vm_compute obligations (parse, pairwise distinct hashes); extracted-model correspondence against a scripted chain',
}

# ROUND-8-APPEND
PROP['rule'] += " (0, run first so that every later case is answered afterwards) in-depth aliasing histories (c15_r8.go, oracle-only classes c15.history|deep|v*|<source>): for all 17 versions with a published code x 6 sources of a handed-out value (GetCodeByVer, GenerateStateInit, Wallet.StateInit(), the application's struct copy of it, the Init of NextMessageParams, StateInit() followed by a SendV2) x depth target (root / children / grand-children / deepest / one random non-root cell / all cells of code and data): record every answer (GenerateWalletAddress, hash of GenerateStateInit, GetWalletVersion on that code, GetAddress / hash(StateInit()) / hash(NextMessageParams(none).Init) / destination and attached init of the first SendV2 message for a fresh New(...) and for a Wallet object made earlier, GetCodeHashByVer, hash and BOC of GetCodeByVer, GetVerByCodeHash, read cursors of a freshly returned code cell) plus witness values obtained earlier through every API; the caller then reads through every reachable cell (cursors move) and writes into the target cells (append a bit / add a reference / reset and write): every answer and every witness must be unchanged (c15-deep-aliasing; cursor position of later code cells: c15-deep-cursors), every answer set must be coherent (address = hash of the state-init through every API, first message addressed to it and carrying the init that hashes to it: c15-deep-incoherent), and a closing c15.addr case per version is compared with the model (addr|after-deep-modification|v*)."

# ROUND-8-APPEND-2
PROP['rule'] += ' (2d, c15_r8b.go) the deterministic grid: EVERY sending version x account status none / uninit / frozen / active x stored seqno 0, 1, 2, 2^32-1, random (v5 beta also 2^32 and 2^33-1, low 32 bits 0 / 2^32-1) x 0..1 dictionary entries, no cell left to chance: c15.next and c15.send (wait 0) vs the model (C15_next_params_spec: active => seqno of the data and no init, otherwise seqno 0 and the own init; highload init iff none/uninit), the state polled into a reused record; oracles keyed on the STATUS alone (never on the seqno value) through every API that yields send parameters on a fresh literal state - NextMessageParams, Send, SendV2, NextMessageParams->RawSend, NextMessageParams->RawSendV2: body seqno, init flag, attached init hash = own state-init, destination = the wallet; and ONE wallet object / chain / polled record walked through the whole grid twice (fixed stride, then random), alternating Send / SendV2, every message being the one the status of that poll requires.'
