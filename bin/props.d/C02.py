PROP = {
    'level': 'proof',
    'coq': ['Properties/C02.v', 'Properties/C02_cache.v'],
    'coq_gen': ['Properties/C07_gen.v'],
    'rule': ("generator families (1)-(5); every case is run on the implementation and on the extracted model (Gallina SHA-256) and "
             "judged by oracles stated on the Go side. "
             "(1) cell DAGs built bottom-up so that the exotic-cell rules hold (pruned branch with masks 1..7, library, Merkle "
             "proof, Merkle update, ordinary cells whose mask is the OR of the children's) plus ordinary random DAGs; for the chosen "
             "root the implementation's hash and depth at levels 0..3 and Level() are compared with the model [c02.hashes]; oracles: "
             "Cell.Hash = level-3 hash, caching hasher (twice) = plain, unchanged after reads, equal for the cell parsed from a "
             "reference-serialised BOC and for the same structure rebuilt without pointer sharing; root cells of real blocks (Merkle "
             "updates with pruned branches) through parse [c07.parse]. "
             "(2) HISTORIES of 3..13 requests (Hasher.Hash / Hasher.HashString on roots and inner cells, repeated, in different orders) "
             "on ONE boc.Hasher [c02.history]: chains of depth 1022, 1023, 1024, 1025, 1026 (the depth limit: the root fails from "
             "1025 on, the cells below keep hashing), the same boundary reached through a pruned branch that stores a depth near 1024 "
             "(or 65535) under a chain of 1..5 cells, random exotic DAGs whose too-deep part is a sub-branch (requests for the "
             "ancestors fail, requests for the other branches must keep answering the same hash), and DAGs on which nothing fails; "
             "every answer is compared with the extracted model of the hasher (cache written at the end of newImmutableCell, "
             "cacheHex after a successful Hash) and, on the Go side, with a fresh computation (Cell.Hash on cells nobody hashed): "
             "a different answer is 'hasher-history', a panic is 'hasher-panic'. The same requests interleaved with "
             "Cell.ToBocCustomWithHasher through that hasher, on a new hasher or on the Hasher() of one reused tlb.Decoder, are run "
             "on the implementation only [c02.gohistory] and compared with fresh Hash / ToBocCustom results. "
             "(3) CELLS MADE BY THE LIBRARY'S PROOF BUILDER: random trees of ordinary cells, library cells and level-1 pruned "
             "branches (bodies of earlier proofs) x 1..3 cells pruned through Cursor.Ref/Prune, three quarters of them two or more steps "
             "below cells without a pruned direct child, then CreateProof [c02.built]; dictionaries x present keys through "
             "tlb.ProveKeyInHashmap [c02.builtkey]; for every position (pre-order) of the parsed proof the level mask, Level(), and "
             "(hash, depth) at levels 0..3 are compared with the extracted model of pruneCells/CreateProof evaluated by the model of "
             "newImmutableCell. Oracles for every cell of the in-memory result of pruneCells (hook boc.VerifPruneCells) AND of the "
             "parsed proof: mask (boc.VerifMask) = the TON rule computed from the content (pruned branch: the stored mask; Merkle "
             "cell: OR of the children's masks >> 1; other cells: OR of the children's masks) ['builder-mask'], Level() = bit length of "
             "that mask ['builder-level'], hash and depth at levels 0..3 (boc.VerifLevelHash) = those of the same content rebuilt by "
             "writers with the rule's masks ['builder-hash'], whose DAG is also run as a c02.hashes case against the model; the body "
             "parsed from the proof equals the in-memory body. "
             "(4) ORIGIN 'PARSED FROM A BAG OF CELLS': for every DAG of (1) and for DAGs with nested Merkle proofs/updates over pruned "
             "branches of masks 1..7 (non-contiguous masks 2, 4, 5, 6 on Merkle, ordinary and pruned cells), the reachable part is "
             "written by the independent reference serialiser in a random header variant (three magics, index, CRC, cache bits, "
             "over-wide size/offset fields, and in 60% of the cases stored hashes and depths for every cell, popcount(mask)+1 slots as "
             "TON's WithIntHashes / top hash) with EVERY cell as a root; every parsed cell must have the type, Level() and (hash, "
             "depth) at levels 0..3 of the cell built in memory by writers ['origin-parse' when a valid bag is rejected, "
             "'origin-parsed' when a cell differs]; a sixth of the bags (half of the nested-Merkle ones) are also run through the "
             "extracted model of the parser + hashing, row by row [c02.parsed]. "
             "(5) CONCURRENCY: 2..16 goroutines, each with its own cells and its own boc.Hasher, hash all their cells 150 times "
             "(Cell.Hash and Hasher.Hash alternating) at the same time, in a guarded child process; every hash must be the one computed "
             "sequentially before ['conc-hash'; implementation only, c02.conc]. "
             "A class is (family, root cell type / depth bucket / deepest prune / key width, mask or count, outcome)."),
    'explanation': ("coq/Properties/C02.v: for every hash function, every tree over all cell types with masks 0..7 and every level, the "
                    "model of newImmutableCell/Hash/Depth equals the declarative representation hash (Spec/ReprHash.v); evaluation of a "
                    "shared array equals evaluation of the unfolded tree. coq/Properties/C02_cache.v: (a) the memoisation is modelled as "
                    "the code writes it (Model/HasherCache.v: the map consulted on entry of newImmutableCell and written only after all "
                    "hashes and depths of the cell exist, the children built before a failure stay recorded; Hasher.Hash; "
                    "Hasher.HashString with its second map); for every cell array with forward references (every parsed array, "
                    "C02_parsed_arrays_refs_forward) and ANY cache whose entries are right for their keys, newImmutableCell returns "
                    "what a fresh evaluation returns — the same error when it fails — and leaves such a cache, also when it fails "
                    "(C02_hash_cache_independent, C02_failed_evaluation_leaves_correct_cache); hence every answer of every history of "
                    "Hash/HashString requests on one hasher, failing requests included, is the answer of that request alone on a fresh "
                    "map (C02_hasher_history_fresh, C02_hasher_history_position). C02_register_before_build_refuted: the design that "
                    "registers a cell in the cache before building it answers the depth error once and panics (index out of range) on "
                    "the next request — witness of two cells, so the requirement is not vacuous. (b) the TON level-mask rule as a "
                    "predicate (masks_consistent) and as a function of the content (ton_mask, ton_level): in a consistent tree every "
                    "mask field, hence Level(), is the content-determined value (C02_consistent_level_is_ton_level); pruneCells keeps "
                    "the rule for every consistent source with masks 0/1 and every pruned set — each rebuilt ancestor gets the OR of ALL "
                    "its rebuilt children's masks (C02_prune_masks_consistent); CreateProof and ProveKeyInHashmap return consistent trees "
                    "with masks < 8 and a level-0 Merkle-proof root (C02_create_proof_masks_consistent, C02_prove_key_masks_consistent), "
                    "so their Hash(l)/Depth(l) are the declarative TON values at every level (C02_built_proof_hash_is_spec). "
                    "C02_direct_parent_only_refuted: raising the level only of the direct parent of a pruned branch leaves the "
                    "grandparent with mask 0 where the rule gives 1."),
    'assumptions': ["SHA-256 is a parameter of the theorems; the Gallina SHA-256 used by the executable model is checked against "
                    "crypto/sha256 by every compared hash",
                    "level masks above 7 cannot be produced by the parser (d1 >> 5) and are outside the theorem",
                    "the cache theorems speak about a tree that is not mutated while the hasher lives (documented contract of boc.Hasher: "
                    "entries are keyed by cell pointer) and about cell arrays whose references point forward (any finite DAG in "
                    "topological order; what the parser returns)",
                    "Hasher.HashString's hex string is modelled by the hash bytes; Cell.ToBocCustomWithHasher and the hasher of a reused "
                    "tlb.Decoder are exercised on the implementation only (compared with fresh computations), they are not in the Coq "
                    "model of the hasher",
                    "the model is sequential: that concurrent hashing of unrelated cells gives the sequential hashes (no shared mutable "
                    "state in the package) is checked by the concurrency oracle on the implementation only; a data race that does not "
                    "show within 150 rounds x 2..16 goroutines is not seen",
                    "stored hashes/depths inside a bag (descriptor bit 16) are skipped, not verified, by the library's parser; the "
                    "reference serialiser fills them with arbitrary bytes, the model of the parser skips popcount(mask)+1 slots",
                    "proof-builder theorems and cases: source trees whose masks obey the rule and are 0 or 1 (ordinary cells, library cells, "
                    "level-1 pruned branches). For a source of level >= 2 CreateProof still gives the Merkle-proof cell mask 0 and the new "
                    "pruned branch mask 1 (observation recorded under C18); such sources are outside this part"],
}

META = {
    'text': ("Machine-checked proof (Coq), for an arbitrary hash function: the model of the hashing loop of "
             "newImmutableCell (hash index / offset bookkeeping, pruned-branch stored hashes, Merkle child level +1, "
             "descriptor bytes, completion tag, depth limit) returns at every level 0..3 (and above) exactly the hash and "
             "depth of a declarative recursion-on-level definition of the TON representation hash on cell trees, for all "
             "trees with masks 0..7 and all five cell types; evaluating a shared cell array once per cell (the cache) "
             "equals evaluating the unfolded tree. The pointer-keyed memoisation is modelled as the code writes it (entry "
             "recorded only after the cell is completely built; entries of children survive a failed parent; second map of "
             "HashString): with any cache left behind by earlier requests — successful or failed — a request returns what a "
             "fresh evaluation returns, so every history of requests on one hasher answers request by request like fresh "
             "maps; a two-cell witness refutes the register-before-build design (error once, then index-out-of-range). The "
             "TON level-mask rule is a Coq predicate and a content-only function; the model of pruneCells / CreateProof / "
             "ProveKeyInHashmap is proved to produce trees that obey it, hence Level() and all level hashes of built proofs "
             "are the TON values; a witness refutes the direct-parent-only variant. The extracted models (Gallina SHA-256) are "
             "compared with the implementation at all four levels on generated exotic DAGs, on real blocks, on histories over "
             "one boc.Hasher around the depth limit (chains of depth 1022..1026, deep sub-branches), on every cell of "
             "proofs built by Cursor/CreateProof and ProveKeyInHashmap, and on every cell of bags written by an independent "
             "serialiser in every header variant incl. stored hashes for all masks 0..7 (nested Merkle cells); Go-side oracles "
             "state cached = fresh, never a panic, mask = TON rule for in-memory and parsed builder output, parsed = built in "
             "memory at all levels, and concurrent = sequential hashes."),
    'design_ref': 'DESIGN.md §6 C02',
    'note': ("Trusted: Coq kernel, extraction, drivers, Go harness, the hand-written declarative spec (from the TON "
             "whitepaper / DataCell.cpp rules) and the statement of the level-mask rule. The models are tied to the Go code by "
             "correspondence. ToBocCustomWithHasher and the tlb.Decoder's hasher are checked on the implementation only. Hook "
             "added: boc/verif_hooks_c02.go (VerifPruneCells: the in-memory tree CreateProof serialises)."),
    'technique': ('Coq proof: implementation loop = declarative spec (8-mask case analysis lifted over all trees); cache invariant '
                  '=> history independence incl. failed evaluations; mask-rule preservation by the proof builder; refutation '
                  'witnesses for two seeded designs + extracted-model correspondence (hashes, hasher histories, built proofs)'),
}
