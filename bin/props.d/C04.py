PROP = {
    'level': 'proof',
    'coq': ['Properties/C04.v'],
    'coq_gen': ['Properties/C04_gen.v'],
    'rule': ("(1) every shipped primitive type (Uint/Int 1..64, 128/256/257-bit, VarUInteger1..32, BitsN, bool, Unary) at its boundary "
             "values (0, 1, max, max-1, 2^(w-1), min, -1, every VarUInteger byte length at both ends) and random values; (2) the 24 core "
             "block.tlb structures (MsgAddress, Grams, VarUInteger16, ExtraCurrencyCollection, CurrencyCollection, CommonMsgInfo, "
             "TickTock, SimpleLib, StateInit, Message, AccountStatus, AccStatusChange, ComputeSkipReason, HASH_UPDATE, StorageUsedShort, "
             "the five transaction phases, SplitMergeInfo, TransactionDescr, Transaction, signed wallet body; and IntermediateAddress, MsgMetadata, MsgEnvelope v1/v2, InMsg (9 constructors), OutMsg (10), EnqueuedMsg, the account layer AccountState/AccountStorage/StorageInfo/StorageExtraInfo/Account/ShardAccount/DepthBalanceInfo, ExtBlkRef, BlkMasterInfo, ShardIdent, BlockIdExt, GlobalVersion, ImportFees, ShardFeeCreated, KeyExtBlkRef, KeyMaxLt, ValidatorInfo, ValidatorBaseInfo, Counters, CreatorStats, ProcessedUpto, IhrPendingSince, SigPubKey, CryptoSignatureSimple, ValidatorDescr, ValidatorTempKey, Certificate, StoragePrices, MsgForwardPrices, ParamLimits, BlockLimits, BlockCreateFees, ComplaintPricing, WorkchainFormat0/1, WcSplitMergeTimings, PrecompiledSmc, CatchainConfig; the fixed part of block_info, ConfigParam 0-8, 11, 13-17, 22-25, 28, 29, 40, 43, BurningConfig, ConfigProposal(Setup), ConfigVotingSetup, ConsensusConfig (4 versions), MisbehaviourPunishmentConfig, SizeLimitsConfig, JettonBridgePrices, OracleBridgeParams, PrecompiledContractsConfig, SuspendedAddressList, AccountDispatchQueue) over 40 (800 thorough) "
             "random values each; (2b) the cursor family: the same structures that hold a bit string or a cell (MsgAddress, CommonMsgInfo, "
             "Message: 120 values; StateInit, SimpleLib, Transaction, TransactionDescr, signed body: 25) after the read cursors inside "
             "the Go value were advanced by 1/3/8/9/64/511 bits (a value that was decoded and inspected before being re-encoded): "
             "the cell must still be the schema serialisation and equal the cell of the fresh value; (2d) text: every extension-layer type (FixedLengthText, Text, Bytes, SnakeData, TextComment and the bodies holding them), 20 (250 thorough) values with random bytes and with multi-byte UTF-8 text (2-, 3-, 4-byte runes): cell vs the model, whose declarative serialisation puts the number of BYTES in the length prefix (C04_lenbytes_counts_bytes); (2c) exotic cells through boc.Cell positions (implementation only, counted under exotic|kinds|outcome): for every described type with a ^Cell / Ref[Cell] / Maybe[Ref[Cell]] / Any position (60 values for StateInit, Message, SimpleLib, Account, VmStackValue, 4 for the others; x10 thorough) the cells at the ENCODED positions are replaced by library cells (8+256 bits), pruned branches (masks 1..7), Merkle proofs and Merkle updates with consistent children (boc.VerifSetTypeMask), Any values get 1-2 exotic references: every planted cell must occur in the tree tlb.Marshal produces with its hash, cell type and level mask (C03_cell_passthrough on the model side), and, unless a pruned branch is involved (the decoder leaves those empty by design), decode -> encode reproduces the root hash under EVERY decoder configuration (tlb.Unmarshal, NewDecoder(), NewDecoder().WithLibraryResolver(fn) and a zero Decoder with a resolver - fn returns an ordinary cell -, WithDebug()); 40 state-inits built as on chain with library-cell code: decode -> encode reproduces the source hash (keys exotic-passthrough-<Type>, stateinit-exotic-reencode); (3) ton.CreateExternalMessage envelopes (workchains 0/-1/random, with and without state-init, random "
             "bodies and fees); (4) every message and transaction of the five testdata blocks (re-encoded hash = source hash on the "
             "implementation; transactions modulo the out_msgs dictionary cell). Per case the cell tlb.Marshal produces is compared "
             "with the model's cell, and the model reports whether the descriptor refines the block.tlb transcription and whether its "
             "cell equals spec_encode of the transcription on the same value (both must be true). A class is (family, schema, package, "
             "root kind, width / constructor / size bucket, outcome)."),
    'explanation': ("coq/Spec/TlbSchema.v gives the serialisation of a TL-B schema subset (## n, #<= n, intN, bitsN, VarUInteger n, Bool, "
                    "Unary, #/$ tags, Maybe, Either, ^, HashmapE n as Maybe ^Cell, MsgAddress) from the TL-B documentation; "
                    "coq/Spec/BlockTlb.v transcribes the core of block.tlb by hand. coq/Properties/C04.v: refines schema descriptor = "
                    "true implies that for all values and builder states the encoder appends exactly spec_encode schema value "
                    "(C04_encode_is_schema), hence re-encoding a decoded value reproduces the cell whenever the cell is the schema "
                    "serialisation; n-bit big-endian numerals, two's complement, minimal VarUInteger length and the #<= width are "
                    "characterised for all widths; the CreateExternalMessage envelope is given bit by bit. coq/Properties/C04_gen.v "
                    "evaluates refines on the descriptors regenerated from today's Go struct definitions for 105 types (24 core + 81 envelope / in-out message / account / block / configuration records), prints the tlb struct/union types that still have NO schema obligation (33 today: 18 ConfigParamN wrappers over dictionaries / validator sets / gas prices, and AddressWithWorkchain, BlkPrevInfo, BlockCreateStats, ConfigProposalStatus, CryptoSignatureSimpleData, GasLimitsPrices, JettonBridgeParams, ShardDesc, SignedCoins, ValidatorSet(s), ValidatorSetsCommon, VmCellSlice, VmStackValue, WorkchainDescr - exactly where a symmetric edit would be invisible) and bounds that list; C04_library_resolver_scope: a library resolver configured on the decoder can only change typed positions, raw-cell and Any positions keep the library cell."),
    'assumptions': ["the transcriptions in Spec/BlockTlb.v and the schema semantics in Spec/TlbSchema.v are hand-written from the TON documents (trusted specification)",
                    "HashmapE n X is specified only as hme_empty$0 | hme_root$1 ^Cell; the dictionary body (and its label forms: the library never writes hml_same, chain data uses the shortest form, so a re-encoded non-empty dictionary cell can differ from the source) is property C05",
                    "OutMsg msg_export_deq_short: block.tlb declares next_workchain:int32, the library holds the same 32 bits in a uint32 (workchain -1 reads as 4294967295); the transcription uses the unsigned reading; storage_extra_info dict_hash:uint256 is held as 32 bytes",
                    "the five (## 1) flags of block_info are held as bools (same bit); ShardDesc (library omits split_merge_at and the fee fields, next_validator_shard is an int64) and WorkchainDescr (library omits the trailing format:(WorkchainFormat basic)) do not implement their block.tlb definitions in full and are therefore not pinned",
                    "prepare_transaction:^Transaction inside TransactionDescr is carried as an uninterpreted cell, as the Go type does",
                    "wallet v3/v4/v5/highload message bodies (hand-written PayloadV1toV4 / PayloadHighload / W5Actions codecs) have no descriptor yet and are not covered here; only the signed wrapper (signature:bits512 + payload) is",
                    "re-encoding reproduces the source cell only where TL-B admits one serialisation: non-minimal VarUInteger lengths and dictionary label forms are outside (C04_reencode_reproduces_cell has the schema serialisation as a premise)",
                    "the model of tlb.Marshal is tied to the Go code by the C03/C04 correspondence runs, not by proof"],
}

META = {
    'text': ("Machine-checked proof (Coq): a decidable check `refines schema descriptor` such that every accepted descriptor makes the "
             "model of tlb.Marshal write, for all values, exactly the bits and references the TL-B schema prescribes; the check "
             "passes (vm_compute) on the descriptors regenerated from today's Go types for 24 core block.tlb types against a hand "
             "transcription of block.tlb; primitive encodings (big-endian numerals, two's complement, minimal VarUInteger length, "
             "#<= width) are characterised for all widths and the CreateExternalMessage envelope is derived bit by bit. On ~3.7k "
             "(quick) / ~30k (thorough) cases the Go cell, the model cell and the schema serialisation coincide, including the "
             "messages and transactions of the testdata blocks whose re-encoding reproduces the source hash."),
    'design_ref': 'DESIGN.md §6 C03/C04',
    'note': ("Symmetric encoder/decoder mistakes (swapped fields, wrong width, wrong tag) keep C03 and the unit tests green and are "
             "caught here by the refines obligation and by the schema-equality flag of every case (tried: ext_out created_lt/created_at "
             "swapped, split_depth 6 bits). Observation: re-encoded out_msgs dictionaries differ from chain data in label form only."),
    'technique': 'Coq: schema semantics + refinement checker proved sound against the declarative serialisation of the codec model; hand transcription of block.tlb; three-way correspondence (Go cell = model cell = schema serialisation)',
}
