PROP = {
    'level': 'proof',
    'coq': ['Properties/C05.v'],
    'coq_gen': ['Properties/C05_gen.v'],
    'rule': ("key sets for 23 key types (Uint/Int 1,2,7,8,9,15,16,32,64; Bits80/96/256/512; the 288-bit AddressWithWorkchain) in 7 "
             "shapes (single key, random, long common prefix, runs of >= 8 equal bits, dense ranges, min/max keys, pairs differing "
             "only in the last bit), 0..60 keys quick / 0..400 thorough: (1) Put in a random order (sometimes a key twice) + Marshal; "
             "(1b) NewHashmap(E) with the slices ascending / descending / negatives-first / shuffled / holding a duplicate key + "
             "Marshal: cell tree vs the extracted model; (2) dictionaries serialised by an independent encoder written from the TL-B "
             "schema with the Go / all-short / all-long / same-bit / random label form per edge: spec serialisation vs that encoder, "
             "Unmarshal+Items vs model; (3) malformed dictionaries (wrong label form or length, leaf/fork swapped, truncated / flipped "
             "/ random cell bits, dropped or swapped references): accept/reject and result vs model; (4) Get/Put sequences (present "
             "keys, absent keys, one-bit neighbours) on a decoded dictionary of every key type incl. signed keys of both signs, then "
             "Marshal: answers, Items and cells vs model; (5) AddressWithWorkchain keys given as values (workchains -128,-1,0,1,127, "
             "random): Put, Marshal, Unmarshal vs model; (6) HISTORIES on one dictionary object (Hashmap and HashmapE; built by Put, by "
             "NewHashmap(E) with the slices ascending / descending / negatives-first / shuffled, or two objects over the same "
             "slices): Items, Marshal, Items, Get, Marshal, Put, Marshal ... every answer and every encoding vs the model, in which "
             "Marshal is a pure function of the pair list; oracles: Items() (as slices) is unchanged by Marshal/Get/Items, an "
             "unchanged object marshals to identical cells every time (also through its alias), every encoding decodes to the "
             "current mapping, Get agrees with a reference map. (6b) the same histories with DECODE steps: another dictionary (empty / a subset / a superset / disjoint / same keys, any "
             "label forms) is decoded INTO the used Hashmap / HashmapE variable or into a struct field holding it, repeatedly: every "
             "later Items/Get/Put/Marshal equals that of a fresh variable decoding the same cell (model: the old state is not an "
             "input of decode); (7) decoder configurations tlb.Unmarshal / NewDecoder() / WithLibraryResolver (with and without "
             "hasher, with WithDebug) x value types Uint32, Ref[Uint32], Ref[boc.Cell] whose references are ordinary cells, library "
             "cells known or unknown to the resolver, pruned branches or too short: result vs the model, whose value decoder takes "
             "the resolver as context, and oracle 'a value decodes inside a dictionary exactly as it decodes outside under the same "
             "decoder' (also for Ref[Message] values, which use the decoder's hasher: message hash inside = outside = cell hash). "
             "(8) the size-only label parser loadLabelSize on single labels of every form and width (m = 0..1023, boundary values), "
             "leaf counting countLeafs / hashmapAugExtraCountLeafs (hooks for every key width; 256-bit keys also through "
             "BlockExtra.InMsgDescrLength / OutMsgDescrLength) on plain and augmented dictionaries with all label modes and on "
             "malformed ones, and HashmapAugE[key, Uint32, Uint32] decoding (Keys/Values) of dictionaries written by an independent "
             "augmented encoder incl. missing/short extras: vs model; oracles: count = number of entries = number of decoded "
             "entries, valid augmented dictionaries decode to their mapping; (9) histories on tlb.ConfigParams objects (built by "
             "NewHashmap or decoded): CloneKeepingSubsetOfKeys with prefix / suffix / random / all / absent / repeated / unsorted key "
             "arguments, then Items/Get/Put/Marshal/Unmarshal on source AND clones in any interleaving: vs model (clone = filter "
             "into a new object); oracles: every object answers by its own mapping at every point whatever happened to the others, "
             "the keys argument is unchanged, every encoding decodes to its object's mapping. "
             "(10) lookups through tlb.ProveKeyInHashmap (as a lookup; the proof bytes are C18's) in dictionaries of every key width "
             "and label mode: stored keys, and ABSENT keys derived from stored keys by changing a bit inside the root label, each "
             "inner label, the leaf label and each fork bit on the key's path, plus random keys: ('found value) | 'err vs the model "
             "and vs the mapping; (11) ShardState.AccountBalances over unsplit and split states (left/right halves disjoint or "
             "arbitrary, right larger than left, accounts without balance, account_none, the same account in both halves), asked "
             "twice: vs model and vs the accounts dictionaries. "
             "Oracles on the implementation (streams 1-5): decode(encode m) = the pairs in ascending bit "
             "order; equal cells for two insertion orders and for NewHashmap vs Put; duplicate keys rejected; valid foreign "
             "dictionaries decode to their mapping; Get/Put answers and the re-encoded dictionary agree with a reference map; every "
             "key type marshals to FixedSize() bits; Keys/Values/Items consistent. corpus/C05 replays the inputs that failed before "
             "the two repairs. A class is (kind, key width bucket or family, shape / label mode / slice order / mutation, outcome)."),
    'explanation': ("coq/Properties/C05.v, for the Gallina model of the repaired tlb/hashmap.go over ideal bit lists and abstract cells, "
                    "for every key width, every value codec with the tail round-trip law and every list of pairs with distinct keys of "
                    "that width in ANY order: Marshal succeeds when label+value fit a cell, Unmarshal returns exactly the same pairs in "
                    "ascending bit order, the cells are invariant under permutation of the slice and of the Put order; every "
                    "well-formed Patricia tree with any of the three label forms per edge decodes to its mapping; Get/Put on a decoded "
                    "dictionary followed by Marshal/Unmarshal equal lookup/update of the abstract map for every Compare that is a "
                    "strict total order (also after any history of Put/Marshal/Items/Get on one object: C05_marshal_does_not_mutate, "
                    "C05_history_marshal_sound; decoding into a used object overwrites everything: C05_decode_overwrites_everything; the "
                    "decoder context reaches every leaf unchanged, a dictionary decodes iff every leaf decodes under that context and "
                    "then to exactly those values: C05_decoder_context_reaches_leaves; leaf counting with the size-only label parser equals the "
                    "number of entries for every valid plain or augmented dictionary with any label forms: C05_count_leafs, "
                    "C05_decode_aug_any_label_form (which also gives the HashmapAugE decode round trip); CloneKeepingSubsetOfKeys is "
                    "the restriction of the mapping to the requested keys: C05_clone_subset; ProveKeyInHashmap returns the mapping's value for "
                    "every present key and fails for every absent key of the right width: C05_prove_key_lookup_agrees; AccountBalances "
                    "reports every account under its own key: C05_account_balances), and the Compare of UintN/IntN/BitsN/AddressWithWorkchain is shown to be such an order "
                    "(numeric / two's complement / bytes / uint32(workchain)+bytes = bit order of the 288-bit key). "
                    "coq/Properties/C05_gen.v re-checks on today's source that every key type writes and reads exactly FixedSize() "
                    "bits and compares the way its encoding requires."),
    'assumptions': ["bit strings and cells are the ideal objects of C06 (list of bits, <= 1023 bits, <= 4 refs); pruned-branch cells inside a dictionary (mapInner skips them) are not modelled",
                    "the value codec is a parameter satisfying decode(encode v) = v in tail position (C03's law); the harness uses tlb.Uint32 values",
                    "HashmapAug/HashmapAugE are decode-only in the library (MarshalTLB returns 'not implemented'); their decoder and the leaf counters are modelled (Model/HashmapAug.v), extras are decoded but not observable (unexported)",
                    "known finding addr-workchain-int8: AddressWithWorkchain.Workchain is int8, so foreign 288-bit keys with a workchain outside -128..127 are truncated by the key decoder (C05_address_workchain_int8_refuted); dictionary-level theorems are about key bits and unaffected",
                    "HashmapAug/HashmapAugE.MarshalTLB fails before touching the slices, so object histories do not apply to them",
                    "two objects built from the same slices alias each other by design of NewHashmap: the history stream only reads through an alias (Put through one alias is visible through the other)",
                    "in the model exotic cells (library, pruned branch) exist only as references inside values (H05 represents them by an impossible 5-reference cell); library or pruned cells as dictionary NODES are not modelled",
                    "ShardState.AccountBalances is exercised on in-memory states built with the hook VerifNewHashmapAugE (the library cannot encode augmented dictionaries); decoding of augmented dictionaries is covered separately (c05.aug)",
                    "ProveKeyInHashmap is compared as a lookup on valid dictionaries only (malformed trees and the proof bytes are C18's)",
                    "after a decode ERROR the object's contents are unspecified (partial entries); histories stop comparing there",
                    "keys/values slices of different lengths (possible only through NewHashmap) now return an error; not representable in the model (list of pairs)"],
}

META = {
    'text': ("Machine-checked proof (Coq) for the model of the repaired tlb/hashmap.go, for all key widths, all value codecs with "
             "the round-trip law and all lists of distinct fixed-width keys in any order: Marshal (bit-sort, then recursive split on "
             "the common prefix of first and last key, hml_short below 8 label bits else hml_long) followed by Unmarshal returns "
             "exactly the inserted pairs in ascending key-bit order; the cells do not depend on slice or insertion order; every valid "
             "dictionary with short/long/same labels per edge decodes to the mapping it represents; Get/Put on a decoded dictionary "
             "then Marshal/Unmarshal agree with lookup/update of the abstract map for every key type (unsigned, signed, bytes, 288-bit "
             "address keys). The extracted model reproduces the implementation's cell trees, decode results and Get/Put answers "
             "exactly on ~22.5k (quick) / ~171k (thorough) generated cases incl. malformed dictionaries and multi-step histories on one "
             "dictionary object (Marshal must not change what the object answers or how it encodes the next time)."),
    'design_ref': 'DESIGN.md §6 C05, §7 F19',
    'note': ("Three defects repaired in /repo (AddressWithWorkchain.MarshalTLB missing; Hashmap.MarshalTLB depended on slice order; "
             "Hashmap/HashmapAug.UnmarshalTLB accumulated entries when decoding into a used variable); the "
             "old behaviour is kept as ..._before_fix in coq/Proofs/HashmapHistory.v and corpus/C05. One known finding "
             "(addr-workchain-int8). Trusted: Coq kernel, extraction, drivers, Go harness, C06 refinement of bit strings."),
    'technique': 'Coq: verified insertion sort + Patricia-tree representation theorem + label codec inversion; cell-exact extracted-model correspondence; translator obligations on key-type widths',
}

# ROUND-8-APPEND-2
PROP['rule'] += " Round 8 (c05_r8.go, genC05R8): dictionaries that are DAGs - valid Hashmap / HashmapE / HashmapAug / HashmapAugE trees over 13 key widths whose sibling or cousin subtrees are equal (mirrored keys with equal values under 1..3 levels of empty-label forks, also zero-key-bit leaves), built as a tree, as a hand-made DAG with one *boc.Cell referenced at several positions (incl. as both children of one fork) and through ToBoc/DeserializeBoc. The tree form goes through c05.decode / c05.aug / c05.count against the Coq model; on every build the decoder of the kind must give the generator's mapping (Keys/Values/Items; Values for HashmapAug), a second decode of the same objects must agree, and countLeafs / hashmapAugExtraCountLeafs / BlockExtra.In/OutMsgDescrLength must count the entries (keys dag-decode-<kind>, dag-decode-again-<kind>, dag-leaf-count, dag-panic-<kind>). Catches decoders that depend on cell-object identity or on NextRef's cursor reset order."
