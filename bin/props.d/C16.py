PROP = {
    'level': 'proof',
    'coq': ['Properties/C16.v'],
    'coq_gen': [],
    'rule': ("synthetic messages built by an independent TL-B encoder: 3 CommonMsgInfo kinds x source/destination address forms "
             "(addr_none, addr_extern 0..511 bits, addr_std, addr_var 0..511 bits; anycast depth 1,2,5,8,29,30,31,random; workchains "
             "0,-1,1,127,-128,random int32) x Grams / VarUInteger16 lengths 0..8 / 0..15 x extra-currency dictionary empty/one leaf x "
             "init absent / inline / in a reference (split_depth, special, code, data, library dictionary) x body inline / in a "
             "reference / forced into a reference by the 1023-bit or 4-reference limit, body sizes 0,1,7,8,9,32,100,255,256,600,1022,"
             "1023,random with 0..4 references into a small ordinary or exotic cell DAG. Every external-in base message is followed by "
             "an equivalence chain (other source, other import fee, other init form/content, body moved between inline and reference, "
             "addr_std anycast toggled) whose Hash(true) must stay equal, and by separating variants (one body bit flipped, body one bit "
             "longer/shorter, body reference dropped / retargeted, destination bit or workchain changed, addr_var anycast changed) whose "
             "Hash(true) must differ. Special cases: init or body reference to a library / pruned-branch cell, dictionary root pruned / "
             "library / junk / truncated, anycast depth 0; malformed neighbours (truncated root, dropped reference, flipped tag bits, "
             "exotic root, inner cell decoded as a message, random bits). Real data: every message and transaction of "
             "tlb/testdata/block-1..5 and ton/testdata/raw-*.bin is found through the real tlb.Unmarshal of the block (account "
             "blocks, in_msg/out_msgs, and InMsgDescr/OutMsgDescr decoded with the same decoder so that messages inside envelopes are "
             "reached), its reported hash must be the hash of a cell of the block and every occurrence of the same record must report "
             "the same hashes; a PRNG sample (size-capped) is re-decoded standalone and compared with the in-block values; real "
             "transactions additionally with flipped tag / header field / truncated root / dropped reference / HashUpdate tag and with "
             "their in_msg replaced by synthetic messages, pruned, library or junk cells. HISTORIES on one tlb.Transaction / tlb.Message "
             "variable (c16.htx, c16.hmsg): 2..3 sources (real transactions, synthetic messages, some that fail to decode before or after "
             "the hash is taken), decode A, 0..2 calls of Hash / SourceBoc / Hash(true) in either order, decode B into the SAME variable "
             "(tlb.Unmarshal or one shared Decoder with hasher), calls again, continue on a struct copy, the caller overwriting slices it "
             "was given; fixed schedules decode-A/SourceBoc/decode-B/SourceBoc and SourceBoc/overwrite/SourceBoc first. Oracles: after every "
             "successful decode each observable equals that of a fresh variable decoding the same cell, SourceBoc parses back to the hash "
             "reported at that moment, copies report the same, slices handed out earlier are never changed by later calls and overwriting "
             "them changes no later answer; the model replays the history on its record of what UnmarshalTLB writes. "
             "Dictionaries: one-leaf and two-leaf (fork) extra-currency / library dictionaries with hml_short / hml_long / hml_same labels, "
             "forks with one branch, junk and truncated roots; real transactions additionally with bits flipped / cells truncated in "
             "the TransactionDescr cell, the cells below it, the in_msg/out_msgs cell and the out_msgs dictionary root. Library "
             "resolver (c16.lib): a library cell as the root decoded by a Decoder with WithLibraryResolver (with and without hasher) that "
             "answers with a synthetic message / junk / another library cell; oracle: the resolver is asked exactly for the root's "
             "hash and the reported hash is that of the resolved cell. The receiver's destination after Hash(true) is compared as well "
             "(anycast of addr_std cleared, also seen through copies in histories). "
             "Concurrency (c16.conc, in the guarded child so that a fatal runtime error or a hang is an outcome): 8 goroutines started "
             "together call Hash(false)/Hash(true) on ONE decoded message (ext-in with inline / referenced bodies with 0..4 references, "
             "anycast, init forms; also internal messages), or Hash()/SourceBoc() on ONE decoded real transaction, for several rounds; "
             "every answer must equal the sequential answer, the sequential answers afterwards must be unchanged, and they equal the "
             "model's. Size-field boundaries of the serialiser: real transactions whose in_msg body is extended by a chain so that the "
             "transaction has exactly 255 / 256 / 257 distinct cells (through the model, both decoder modes) and 65535 / 65536 / 65537 "
             "cells (thorough tier, implementation oracles only). "
             "Levels and the hasher cache (c16.lvl, ~76 cases per seed in the quick tier): messages and transactions of NON-ZERO level - a "
             "pruned branch with mask 1..7 (optionally under a Merkle proof / update cell) 0..6 cells below the body reference, the "
             "inline body's reference or the init code, the record below an enclosing cell with siblings, real transactions with such a "
             "message grafted as in_msg (masks recomputed up to the root) and that in_msg as the record - with the decoder's hasher "
             "warmed in 8 ways: nothing, the enclosing tree first, the siblings first, the record itself (Hash, HashString), every cell "
             "last-to-first / first-to-last, the record hashed, its cursors moved and reset, hashed again, the enclosing transaction / "
             "the record decoded first with the same decoder. Every identity-hash entry point must give the same value: Cell.Hash, "
             "Hash256, HashString, Hasher.Hash (twice), Hasher.HashString, Message.Hash(false) (also after Hash(true)), Hash(true) "
             "of non-ext-in, Transaction.Hash, the in_msg's Hash(false), the in_msg decoded again and hashed by the same hasher, and "
             "decoding without hasher; the value is compared with the model's level-3 representation hash of the source cell. "
             "Message histories start with fixed good/bad/observe schedules (a source that fails in the info, anywhere, or only in the body). "
             "Each case is decoded twice by the real code "
             "(tlb.Unmarshal and tlb.NewDecoder() with a pre-warmed hasher cache); compared with the extracted model (Gallina SHA-256): "
             "ok/err, kind, Hash(false), Hash(true), init form, body placement/bits/reference count, re-encoded source and destination, "
             "transaction hash, in_msg hashes, SourceBoc bytes and its parse-back. Oracles on the implementation: hash = source cell "
             "hash, hasher does not change anything, Hash(true) idempotent and not changing Hash(false), non-ext-in Hash(true)=Hash(false), "
             "equivalence classes equal, separating variants different, SourceBoc parses to one root with the reported hash and is stable. "
             "A class is (kind, family / variant, address forms, init and body layout, block and position, outcome)."),
    'explanation': ("coq/Properties/C16.v, for every hash function H, every acceptance oracle for the untranscribed decoders and every "
                    "cell tree with level masks < 8 (no size bound): if the message / transaction decoder model succeeds, the recorded "
                    "hash is the C02 representation hash of exactly the decoded cell (also for the in_msg nested in a transaction); "
                    "decoding with a hash taken from any shared, cached evaluation of any cell array at any index equals decoding with a "
                    "fresh hash (C02 sharing theorem); every conforming BOC layout (C01) of the captured source cell parses back to one "
                    "root with the reported transaction hash. The cell built by Hash(true) is proved equal to a canonical cell defined "
                    "from the TL-B scheme from (destination without addr_std anycast, body bits, body references) only, so Hash(true) is "
                    "its representation hash, is independent of source, import fee, init and body placement; decoded addresses re-encode "
                    "to exactly the bits read; for a collision-free H equal Hash(true) forces equal canonical destination bits, body bits, "
                    "reference count and reference hash material; Hash(true)=Hash(false) for internal / external-out messages. Histories: a "
                    "successful decode into a variable in ANY prior state yields one and the same state (hash, captured source cell, fields "
                    "of the pure decode function), hence every later observable is that of a fresh decode; the design that keeps the "
                    "serialised source in the variable without clearing it on decode is refuted by decode A, SourceBoc, decode B, SourceBoc. "
                    "Round 3: the dictionary walk (Hashmap.mapInner over C05's load_label, with the VarUInteger32 / SimpleLib / Ref[Message] "
                    "value decoders) and TransactionDescr with all phases are transcribed (Model/MsgOracle.v), so tongo_decode_message / "
                    "tongo_decode_tx are functions of the cell tree alone and all theorems are instantiated for them; SourceBoc is tied to "
                    "tongo's own serialiser model: whenever serialize(cells, hasher hashes, [k]) returns bytes they parse to one root with the "
                    "reported hash (C01 serialize_is_layout / boc_roundtrip_model, with the two unfoldings of a cell array shown equal and "
                    "the hasher shown never to return the model's fuel error); under a collision-free 32-byte hash two ordinary trees with "
                    "the same level-0 hash are equal, hence equal Hash(true) forces equal bodies as trees; Hash(_) calls never change "
                    "Hash(false)/Hash(true), the only receiver change is the cleared addr_std anycast; with a library resolver a library "
                    "root reports the hash of the resolved cell. Round 3b: any sequence - hence any interleaving at call granularity - of "
                    "Hash(false)/Hash(true) calls answers what a single call on the fresh message answers (C16_hash_calls_any_interleaving); "
                    "the seeded designs 'Hash(true) reads the body through the message's own cell' and 'cell-count field sized from the "
                    "largest index' are refuted in Proofs/MsgHashHistory.v."),
    'assumptions': ["SHA-256 is a parameter H of every theorem; the converse direction assumes H injective (stated in the theorem)",
                    "dictionary and TransactionDescr decoding are transcribed in Model/MsgOracle.v (acceptance only; the label walk is C05's load_label) and run by the extracted model; the theorems hold for every acceptance oracle and are instantiated for the transcription; the link of the dictionary walk to C05's abstract-map theorems is not restated here",
                    "C16_source_boc_is_serialiser_output assumes C01's hypotheses: array as returned by the parser (dag_wf, node_ok), fewer than 2^24 cells, and collision_free (equal hashes => equal trees among the reachable cells, the SHA-256 idealisation); tree-level injectivity of Hash(true) is for ordinary (non-exotic, level 0) reference trees only - with pruned branches it is false by design",
                    "no library resolver is configured in tongo_decode_* (a library cell in decoder position is an error); with a resolver only the root position is transcribed (C16_library_root_resolved), nested library cells are resolved by the code the same way but not modelled",
                    "bit strings / cells are the ideal objects of C06; SourceBoc's byte string is tied to the C01 layout by the per-output parse-back check and byte-exact comparison with the serialiser model, not by a theorem about the reordering heuristic",
                    "as the code stands Hash(true) keeps the anycast of an addr_var destination and returns 32 zero bytes when the canonical cell exceeds the depth limit (both modelled and stated as theorems, not alarmed on); Hash(true) clears the receiver's addr_std anycast: modelled (after_hash), it never changes Hash(false) or Hash(true), so it is not a C16 violation; re-marshalling such a message afterwards gives another cell (outside C16)",
                    "data races inside a call are a matter of the Go runtime and not expressible in the model: the interleaving theorem is at call granularity and the concurrency oracle checks the observable consequence on the implementation; concurrent SourceBoc is exercised only on transactions decoded without the Decoder hasher (its cache is an unsynchronised map)",
                    "byte slices are values in the model: that SourceBoc returns independent copies (no aliasing between calls, copies of the variable and the caller's buffer) is established by the harness oracle on the implementation only"],
}

META = {
    'text': ("Machine-checked proof (Coq), for any hash function and all cell trees: the hash a decoded message, transaction or nested "
             "in_msg reports is the representation hash (C02's declarative definition) of the very cell it was decoded from, with or "
             "without the caching hasher and at any position of any shared cell array; any conforming serialisation of the "
             "transaction's source cell parses back (C01) to one root with that hash; Message.Hash(true) of an external-in message is "
             "the representation hash of a canonical cell written from the TL-B scheme from destination and body content alone (hence "
             "unchanged by source address, import fee, init and inline/reference body placement), decoded addresses re-encode "
             "bit-exactly, and under collision-freeness a different destination encoding, body bit string or reference count gives a "
             "different normalised hash. The extracted model (Gallina SHA-256) reproduces the implementation's hashes, decode "
             "outcomes and SourceBoc bytes on synthetic equivalence classes, malformed inputs and on the messages/transactions of all "
             "testdata blocks, and on call histories that reuse one variable as decoding target (~500 cases quick, ~17k thorough)."),
    'design_ref': 'DESIGN.md §6 C16',
    'note': ("No defect found. Observations stated as theorems: addr_var anycast is not dropped by Hash(true); Hash(true) returns the "
             "zero hash when the canonical cell cannot be hashed. Trusted: Coq kernel, extraction, drivers, Go harness, the C02 hash "
             "spec, the C01 layout spec and serialiser theorems, C05's load_label."),
    'technique': 'Coq: decoder model over cell trees + C02/C01 theorems + canonical-cell equality + hash-preimage injectivity; extracted-model correspondence incl. real blocks',
}
