PROP = {
    'level': 'proof',
    'coq': ['Properties/C13.v'],
    'coq_gen': ['Properties/C13_gen.v', 'Properties/C13_gen_r8.v'],
    'rule': ("selection: real updateBest through the VerifUpdateBest hook on mock connections vs the model and vs the "
             "property statement as a Go oracle: empty pool, exhaustive n=1,2 over alive x seqno{0,1,2,3,2^32-2,2^32-1} x "
             "rtt{1,2,3} x 3 strategies x every previous choice, sampled n=3,4 from the grid, up to 8 connections with heads "
             "around arbitrary newest heads and arbitrary/equal/negative RTTs; thorough tier: the whole grid n=1..4 x both "
             "strategies x every previous choice (c13.ubx); heads that RISE while the refresh runs (updateBest reads every head "
             "twice holding only the pool lock: the mock's MasterHead() answers seqno1 on the first call and seqno2 >= seqno1 "
             "later; exhaustive n=1 and sampled n=2..4 over alive x seqno{0,1,2,2^32-2} x rise{0,1,2} x rtt, n=2 exhaustive in the "
             "thorough tier; oracle: the choice among the alive connections whose second-read head is at most one block behind "
             "the maximum of the first reads); pools built through the real addConnection (c13.add): every arrival "
             "order of every subset of 4 configured servers (64 orders) x both strategies x sampled alive/seqno/RTT, and up to 8 of "
             "12 sparse ids in random arrival order: pool order as listed by Status(), bestConn after initialisation and the "
             "choice of updateBest vs the model; oracles: Status() is in configuration order, the choice is the property's choice "
             "on the configuration-ordered pool. Wait list: walks of coarse operations (sethead, notify, tick, "
             "conn alive/rtt, sub, recv, unsub, state) replayed step by step, each step in its own goroutine with a "
             "blocked-after-250ms observation, on the real subscribe/notifySubscribers/unsubscribe/updateBest/SetMasterHead "
             "with real connection objects wrapped for IsOK/RTT, vs the LTS model: hand-written scenarios incl. the schedules "
             "of the repaired deadlocks, bursts against the 10-slot buffer, best-connection switches with an unconsumed head, "
             "random interleavings (1..3 connections, 1..3 waiters, 3 strategies, full channels, one blocked publisher), several "
             "updates of several connections queued while Run is not scheduled and then handled by the REAL Run loop (op 'drain: "
             "p.Run until the buffer is empty: best connection's update before/after the same or a newer head of another "
             "connection, a full buffer with a publisher waiting for room), and the "
             "first waiter of a pool's lifetime kept waiting while callers satisfied at once subscribe, receive and run their "
             "unsubscribe with the id they were given (fresh pool, head 0..3, 1..2 such callers) before its head arrives. The "
             "real WaitMasterchainSeqno under the real Run loop (c13.wait): result nil/timeout/cancel vs model, latency oracle "
             "(success early, timeout not before and not long after the deadline), also with two concurrent callers (first waiter "
             "waiting + caller satisfied at once + head arrives; oracle: each caller's verdict is what the best connection's heads "
             "demand) and with all heads queued before the Run goroutine is started (batch shape; oracle wait-lost-head: a caller "
             "whose target the best connection reached must not time out). The exported entry points that wait (c13.entry: BestMasterchainClient, BestClientByAccountID, BestClientByBlockID, "
             "WaitMasterchainSeqno) on a fresh pool of real connections under the real Run loop, with events before the call and "
             "WHILE it waits (heads of any connection, connections dying / coming back / changing RTT, refreshes): uninitialised "
             "choice, switch of the best connection on death or on falling behind, first head, initialised pool, nothing arrives, "
             "empty pool, random event lists; compared with the model: status, the head handed to the caller (the head it "
             "received) and the client's connection; oracle best-client-stale-head: a returned head is >= 1. Walks also call the other exported methods (Status, ConnectionsNumber, BestMasterchainInfoClient) between the protocol "
             "steps, on pools with 0, 1 and 3 connections; c13.repro n8 calls every exported method on pools with 0, 1, 3 "
             "connections interleaved with addConnection and the waiting entry points, each under a 2 s watchdog (pool-stuck). "
             "WaitMasterchainSeqno under caller contexts with their own deadline earlier and later than the timeout argument, the "
             "sufficient head arriving before both / between them / after both (c13.wait deadline shape): verdict nil/timeout/"
             "deadline vs min(timeout, deadline), latency oracle wait-ends-at-min-timeout-deadline. Regression oracles for the four repaired defects and a 1.5 s stress under the real Run loop (publisher + 8 "
             "callers with 20 ms timeouts + updateBest every 20 ms, watchdog 5 s, key pool-stuck), refreshes with a dead previous "
             "choice while a publisher feeds the alive lowest-RTT connection through the real SetMasterHead and the real Run "
             "drains (every refresh must choose it, key updatebest-racing-head), and a head injected at a schedule point of the "
             "connection interface right after subscribe has read the best head (key subscribe-lost-wakeup) (c13.repro). Source obligations "
             "(C13_gen.v over the go/ast translation of liteapi/pool): no method calls, while holding its receiver's lock, a method "
             "that takes that lock (transitively); lock kinds and call structure are those of the model; the only blocking send "
             "under a lock is subscribe's into its own fresh channel; every Lock/RLock statement is followed at once by its deferred "
             "unlock (no early return while the lock is held), except SetMasterHead's explicit unlocks. A class is (kind, family, strategy/size bucket, outcome)."),
    'explanation': ("coq/Properties/C13.v, for the model of the repaired liteapi/pool: update_best returns, for every pool, "
                    "strategy and previous choice, exactly the choice the property prescribes among the alive connections at "
                    "most one block behind the newest head (else the previous choice), also when heads rise between the two reads of "
                    "updateBest (update_best2: choice among the alive connections at most one block behind the maximum of the first "
                    "reads; a risen head keeps its connection a candidate; every refresh step of the LTS with arbitrary earlier first "
                    "reads; the uint32-difference formulation maxSeqno - seqno <= 1 is refuted although it equals the code's test on "
                    "every snapshot); over all interleavings of any number of "
                    "connections, waiters and head updates: a waiter returns nil iff it received a head >= its target that was "
                    "published for the then-best connection, a sufficient head sent to a waiting caller is never lost, a "
                    "notification reaches every registered waiter, BestMasterchainClient's wait hands out the head it received (>= 1, reported by the then-best connection; the design "
                    "that re-reads the captured connection's head is refuted after a switch), timeout/cancel is always enabled and a caller that left "
                    "its loop returns; ids: a registered waiter's id is never 0 (what subscribe returns to a satisfied caller), the "
                    "unsubscribe of a satisfied caller removes nobody, an unsubscribe removes exactly the caller's own registration, "
                    "a registered waiter stays registered until then and gets every notified head; the pool lock is modelled with "
                    "Go's writer preference and two-step write acquisition: no goroutine asks for p.mu while holding it, the holder "
                    "always has an enabled step, the lock is freed and the announced writer served by the pool's own moves, Run "
                    "always gets back to its select, a SetMasterHead waiting for buffer space completes; Run handles the queued "
                    "updates one by one in FIFO order (along every run: queued ++ published = taken ++ still queued; the taken update "
                    "is the one notified) and the design that merges queued updates into the newest head is refuted (a registered "
                    "waiter whose target the best connection reached is sent nothing); addConnection: after every arrival sequence the "
                    "pool is the sorted permutation of the arrivals (sort-before-append refuted); the variant of "
                    "notifySubscribers that re-acquires RLock is refuted (permanent deadlock). coq/Properties/C13_gen.v re-checks "
                    "the absence of lock re-acquisition and of blocking sends under a lock on today's source."),
    'assumptions': ["the LTS abstracts the Go scheduler: atomic steps are critical sections without blocking operations and without lock acquisitions (both re-checked syntactically on the source by C13_gen.v); sync.RWMutex is modelled as writer-preferring with one announced writer at a time",
                    "updateBest's two passes over the connections are modelled as two reads of all heads (first reads <= second reads: heads only rise); IsOK and AverageRoundTrip are read once, in the second pass",
                    "'the best connection reports a head' = Run handles an update whose connection id equals bestConn's; a switch of bestConn does not wake waiters (observation)",
                    "pools without connections (subscribe dereferences nil bestConn) are outside the quantifier (1..4 connections); proved impossible with >= 1 connection",
                    "connection ids are pairwise different (indices of the servers in the configuration), so sort.Slice's result is determined; addConnection is modelled for initialisation (before waiters exist), not interleaved with the wait-list protocol",
                    "BestMasterchainInfoClient does not wait and its connection is not observable (unexported field): not driven; BestMasterchainClient returns the client of the connection captured at call time even if the best connection switched while it waited (observation: the head then belongs to another connection)",
                    "time is not in the LTS (timeout and cancellation are always-enabled steps); that the wait ends at min(timeout, context deadline) is checked on the implementation with wall-clock scenarios (margins of 220 ms and more), the model side is the arithmetic min",
                    "wall-clock time and data races (BestArchiveClient reads p.conns unlocked) are not modelled"],
}

META = {
    'text': ("Machine-checked proof (Coq) for a model of the repaired connection pool. Selection: for every pool (any number of "
             "connections), both strategies and every previous choice updateBest returns the alive connection at most one block "
             "behind the newest head with minimal round-trip time, first among equals (best-ping) / first in configuration order "
             "(first-working), else the previous choice; no overflow at seqno 2^32-1; addConnection keeps the pool in configuration "
             "(id) order for every arrival order, so first-working picks the smallest configuration index among the eligible. Wait list, as a labelled transition system "
             "over all interleavings of head updates, Run-loop steps, subscriptions, receives, timeouts and unsubscriptions: "
             "success iff a head >= target of the best connection was received (immediately at subscribe if already there), "
             "no sufficient head is lost by the non-blocking keep-the-newer notification, every notification reaches every "
             "registered waiter, timeout/cancel always enabled, callers return; the pool-lock holder always has an enabled step "
             "and releases the lock by its own moves, Run is live, SetMasterHead's publish completes. The extracted model agrees "
             "with the real code on the exhaustive selection grid and on step-by-step replays of walks; the real "
             "WaitMasterchainSeqno is run under the real Run loop."),
    'design_ref': 'DESIGN.md §6 C13, §7 F14/F15',
    'note': ("Four defects repaired in liteapi/pool (uint32 wrap in the selection; blocking send under RLock; send under the "
             "connection lock; timeout timer re-armed per head); their models and witnesses are kept in coq/Proofs/PoolHistory.v "
             "and corpus/C13. Trusted: Coq kernel, extraction, drivers, Go harness, the LTS abstraction of the Go scheduler "
             "(atomicity of critical sections, which C13_gen.v re-checks to contain neither an acquisition of the same lock nor a "
             "blocking send; sync.RWMutex as a writer-preferring lock). Timing, data races and goroutine scheduling are exercised "
             "(incl. a stress run under the real Run loop), not proved."),
    'technique': 'Coq: functional model + LTS with invariants by induction over reachability; exhaustive-grid and step-replay correspondence with the extracted model',
}

# ROUND-8-APPEND-2
PROP['rule'] += ' Round 8: c13.refresh - real Run loop with a 100 ms refresh interval under a steady stream of head updates every 10 ms (from every live connection / only from connections other than the choice, both strategies): when the choice dies, dies again, a better connection returns, or the choice stays alive but falls 2+ blocks behind, the pool must have switched to a live current connection within 10 intervals (periodic refresh is owed regardless of update traffic; key refresh-starved-by-updates). c13.sethead - 2 and 4 goroutines report distinct heads to ONE real connection at the same instant (40000 rounds quick): the head must end at the maximum and a concurrent MasterHead() reader never sees it decrease (key sethead-not-atomic). Both run in background goroutines overlapping the other families (oracle-only). Source obligations Properties/C13_gen_r8.v over Generated/PoolSections.v (translate genC13r8: critical sections of every pool method with fields read/written, calls outside sections): C13_gen_sethead_check_and_store_one_section (comparison with the stored head and the assignment are in one Lock section), C13_gen_writers_single_lock_episode (every writer of a guarded field has exactly one lock episode, so no check-then-act split), C13_gen_subscribe_check_and_register_one_section, C13_gen_guarded_writes_under_write_lock, C13_gen_guarded_reads_outside_sections.'

# ROUND-8-META
META['text'] += " Round 8: source obligations C13_gen_sethead_check_and_store_one_section and C13_gen_writers_single_lock_episode (vm_compute over the critical sections the translator extracts from liteapi/pool on every run: fields read and written per section, calls outside sections): comparison and store of a connection's head are one critical section and no writer of a guarded field splits check and act over two sections; real-time scenarios for the periodic refresh under steady head updates and for concurrent SetMasterHead calls."
