PROP = {
    'level': 'proof',
    'coq': ['Properties/C20.v'],
    'coq_gen': ['Properties/C20_gen.v'],
    'rule': ("per type family one structured stream and one malformed stream from the same PRNG. Structured: tlb.UintN / IntN for "
             "EVERY width 1..64 at 0, 1, max, max/2, min, min+1, -1 and random values (number form up to 56 bits, quoted from 57); the 38 "
             "big.Int types (Uint/Int128/256/257, VarUInteger1..32) at 0, max, -1, min, 2^(w-1) and random; BitsN (80..512), ton.Bits256, "
             "tl.Int256 at zero / ff / random bytes; Grams at 0, 1, 2^63-1, 2^63, 2^64-1; SignedCoins at min/max int64 and negatives; "
             "Magic at 0, 1, 15, 16, 2^31, 2^32-1; bit strings of 0,1,2,3,4,5,7,8,9,12,255,256,257,511,1020..1023 bits and random "
             "lengths, built the way applications build them: written through WriteBytes / WriteUint / WriteBit into a buffer of capacity "
             "length + free for every (length mod 4) x free in 0..9, and into the cell capacity 1023 with lengths 1015..1023 (the harness "
             "argument is the number of free bits; the model side runs the buffer-level ToFiftHex of C06 on that state); MsgAddress "
             "extern / var holding such writer-built strings with 0..4 free bits; cells written by WriteBytes/WriteUint with 1010..1023 "
             "bits are marshalled directly and via their re-parsed copy; bit strings as ReadBits returns them (family argument (pre tail): the value is read out of pre ++ value ++ tail after "
             "ReadBits(|pre|)), for read positions 0,8,16,280 (aligned: the last byte keeps source bits behind the length) and 1,3,4,7,9,12, "
             "lengths covering every length mod 4 up to 511, tails zero / all ones / random, alone, inside addr_extern / addr_var and under "
             "Maybe; the model side runs C06's buffer-level ReadBits and ToFiftHex on the same state; ext_out_msg_info headers decoded by "
             "tlb.Unmarshal (external destination at bit 280, created_lt with its top bits set): JSON of Dest/Src equals the JSON of the "
             "written address and parses back (implementation oracle); every document is also decoded into a receiver that already holds "
             "the previous value of that type (oracle receiver-reuse-<family>: same result as into a fresh receiver); MsgAddress: none, extern of 0 (known finding), 1,3,4,8,255,256,257,511 bits, std with workchains -128,-127,-1,0,1,"
             "126,127, var with lengths 0,1,4,7,8,252,255,256,257,260,511 x workchains -2^31..2^31-1 incl. -129,-128,127,128 (the 256-bit "
             "/ 8-bit-workchain look-alike is generated, compared with the model, and excluded from the oracle as the property says), each "
             "with no anycast / depth 1..30 / extreme uint32 anycast; ton.AccountID with int32 workchains; cells built from random DAGs "
             "(1..40 cells, 0..4 refs, shared subtrees) and from trees of exactly 1, 2, 254, 255, 256, 257, 258 (thorough: also 300, 511..513) "
             "pairwise distinct cells -- the sizes where the BOC header changes width -- as boc.Cell and as tlb.Any, plus 65535/65536/65537 "
             "distinct cells on the implementation side only (thorough); for every cell value the implementation-side oracle "
             "json.Unmarshal(json.Marshal(cell)) succeeds with the same representation hash is evaluated on the cell as built, and the "
             "model side checks on the case's bytes the C01 hypothesis of the cell theorem (they parse back to exactly one root) instead "
             "of assuming it; trees with a path of 1000, 1022..1027 cells (chain and comb): Hash succeeds iff json.Marshal succeeds, and the ones with a "
             "JSON form go through the round trip and the model; trees built in memory from distinct but equal cells vs shared pointers "
             "(same text); encoder-only forms (AddressWithWorkchain, CurrencyCollection, Either, EitherRef) must be valid JSON; payload "
             "envelopes (InMsgBody, ExtOutMsgBody, JettonPayload, NFTPayload) with multi-byte / control-character text and 24 hand-written "
             "envelopes pairing known operation names with foreign, null or missing bodies: never a panic; "
             "hand-built hex BOC documents from the header grammar (independent serialiser refSerialize of dag.go): "
             "0/1/2/3/255/256/257 cells x root lists {none, [0], [0,0], [n] out of range, [0,n], [0,n-1], [n-1], three roots} x 11 header "
             "variants (generic/lean/lean+crc magic, index, crc32, cache bits, wider size / offset fields, stored hashes) and the named "
             "zero-root documents b5ee9c72010100000000 and b5ee9c720101010000020000, each through json.Unmarshal and the direct method of "
             "boc.Cell, tlb.Any and Maybe[tlb.Any] (compared with the model) and as the value of a boc.Cell / tlb.Any / Maybe[Any] / *boc.Cell "
             "field of a struct (oracle: never a panic, same ok/err class as the direct target); Maybe[T] absent/present over 11 inner types. Every Marshal / Unmarshal / UnmarshalJSON call runs under a watchdog (5 s): "
             "a call that does not return is the outcome 'timeout and the oracle failure json-hang-<family> with the value (after 3 hangs "
             "the run stops emitting). Per "
             "value: json.Marshal text vs the model's printer (byte exact), json.Valid, json.Unmarshal and a direct UnmarshalJSON call of "
             "that text vs the model's parser, oracle Unmarshal(Marshal(v)) == v (cells: representation hash). Malformed: 5 (12 thorough) "
             "mutations per printed document (truncate, drop prefix, substitute/insert from a 56-entry alphabet incl. quotes, signs, "
             "underscore, colon, whitespace, control bytes, invalid and multi-byte UTF-8 such as U+0130 / NEL / NBSP, JSON escapes and "
             "surrogates; delete; duplicate; wrap in spaces/quotes/brackets/object; bit flip; case change; \\uXXXX-escape one character) "
             "through json.Unmarshal or the method directly, plus ~60 hand-written documents per family (leading zeros, +/-0, width "
             "limits +-1, 80-digit numbers, exponent forms, null/true/[]/{} , unterminated strings, upper-case hex, odd lengths, blanks "
             "inside the quotes, Anycast(...) variants, user-friendly account forms); outcome class ok/err/panic and parsed value must "
             "equal the model's; a panic is an oracle failure. The re-implemented part of encoding/json is compared on its own: "
             "json.Valid and json.Unmarshal(&string) on random JSON documents (nesting, escapes, surrogate pairs, invalid UTF-8, depth "
             "limit 10000/10001) and their mutations. abi.InMsgBody / ExtOutMsgBody envelopes: implementation-side oracle only. "
             "A class is (case kind, family, width / length / address-form bucket or source hand|mut x valid|invalid JSON, outcome)."),
    'explanation': ("coq/Properties/C20.v, for the Gallina model (Model/JsonText.v, Model/Json.v) of the MarshalJSON / UnmarshalJSON "
                    "methods over byte strings: for EVERY width w and every value of that width (unsigned v < 2^w, signed "
                    "-2^(w-1) <= z < 2^(w-1)), every integer for the big.Int types, every byte array, all of uint64 / int64 for Grams / "
                    "SignedCoins, every uint32 Magic, every bit list (no length bound) and every buffer state of a writer-built bit string "
                    "(the printed text is ToFiftHex on the buffer as the Go code computes it with Copy/Grow/tag, proved to depend only on the "
                    "written bits: not on the capacity nor on the buffer content past the length; C20_read_bitstring_roundtrip: the string "
                    "ReadBits returns, stale source bits behind its length included, prints as the bits read and parses back; the design "
                    "that rounds the length up instead of writing the zero padding is refuted in Proofs/C20History.v: 10110 read before "
                    "111 prints B7_ = 1011011), every well-formed MsgAddress of each of the four "
                    "kinds with or without anycast except the two named ambiguities, every int32-workchain AccountID, every optional value "
                    "over such a family, and cells relative to the C01 serialiser round trip (C20_cell_has_json makes the second C01 obligation explicit: the "
                    "serialiser is total on the domain, checked by the harness at depth 1023/1024 and 255..257 / 65535..65537 cells): "
                    "parse (print v) = Ok v; the printed text is a "
                    "JSON number or a quoted string of characters that need no escape, is accepted by the (ported) encoding/json scanner, "
                    "is its own value item and is never the literal null, hence json.Unmarshal(json.Marshal(v)) = v; documents the scanner "
                    "rejects are errors for every type; and no parser returns Panic on ANY byte string (the Go slice expressions str[2:] and "
                    "parts[2][8:len-1] and the index cells[0] of Cell.UnmarshalJSON are explicit panic sites of the model, proved "
                    "unreachable under their guards; C20_cell_root_count_is_error: a well-formed bag of cells with any number of roots other "
                    "than one, zero included, is an error; the design that rejects only more than one root is refuted by the document "
                    "b5ee9c72010100000000 in Proofs/C20History.v). The ambiguities are "
                    "theorems too: addr_extern of length 0 prints as \"\" and parses as addr_none (_refuted, finding addr-extern-empty), and "
                    "a 256-bit variable address with an 8-bit workchain parses as a standard one (the property's excluded case, guard of the "
                    "theorem). coq/Properties/C20_gen.v re-checks on data translated from today's tlb/integers.go and tlb/models.go that each "
                    "of the 174 generated method pairs (and Grams / SignedCoins) uses exactly the format string, parse function, base, bit "
                    "size = type width, trim cutset and length check that the model assumes, that Go's storage type is wide enough, and that "
                    "all widths 1..64 exist."),
    'assumptions': ["encoding/json, strconv, math/big, fmt (Sprintf %d/%x/%s, Sscanf, Fscanf), encoding/hex and utf8 are re-implemented in Gallina from their Go 1.23 source (scanner state by state, ParseInt incl. its bit-size-1 clamp, fmt.isSpace table, unquote with surrogate pairs) and tied to the real packages only by the correspondence run; they are not verified",
                    "cells: the cell <-> BOC bytes step is a parameter of the theorem (hypothesis: deserialise (serialise c) = [c], i.e. C01, and the parser never panics, C07); the harness instantiates it with Model/BocParse.v and compares the root's bits, reference count and exotic flag, plus a Go-side hash comparison",
                    "ton.AccountID reuses the C17 model of the raw / user-friendly text forms (Model/Address.v, Proofs/AddressRawP.v)",
                    "domain of a value = what the TL-B type can express: UintN/IntN values that fit N bits (Go's wider storage type can hold more, which then does not parse back), MsgAddress with a valid SumType, non-nil pointers and AddrLen = length of the address bits (< 65536 suffices), bit strings with read cursor 0, SignedCoins as repaired (F8)",
                    "abi message-body envelopes (reflection over ~500 body types) are checked by the implementation-side oracle only; Maybe[T] over types without their own UnmarshalJSON is not modelled",
                    "lenient parsing that the property does not forbid is modelled faithfully but not flagged: Int1 accepts every negative number as -1 (strconv.ParseInt bit size 1), Magic accepts up to 64 bits and truncates, BitStringFromFiftHex truncates runes to bytes (U+0130 reads as '0'), ton.Bits256 accepts blanks after the opening quote and ignores text after the closing one when called directly, Anycast(1,2xyz) ignores the tail"],
}

META = {
    'text': ("Machine-checked proof (Coq) over a byte-exact model of the library's JSON methods: for all integer widths 1..64 and all "
             "values of each width (negatives, minima and maxima included), all big integers, byte arrays, coins, magic tags, bit strings "
             "of any length, every message-address kind with and without anycast (minus the excluded look-alike and the empty external "
             "address, both proved to be real ambiguities), account ids, optional values and cells (relative to C01): the JSON text is a "
             "number or an escape-free string accepted by the encoding/json scanner and parses back to the same value, both through the "
             "method and through json.Unmarshal; syntactically invalid documents are errors; no parser panics on any input. The shapes "
             "of all 176 method pairs of tlb/integers.go, Grams and SignedCoins are re-extracted from today's source and checked against the model. The extracted "
             "model reproduces json.Marshal / json.Unmarshal / UnmarshalJSON of the real code exactly on ~24k (quick) / ~400k (thorough) "
             "structured, mutated and hand-written documents."),
    'design_ref': 'DESIGN.md §6 C20, §7 F8 F17',
    'note': ("Repair: F8 (SignedCoins.UnmarshalJSON used ParseUint, negatives failed). Known finding kept: F17 addr-extern-empty. "
             "Trusted: Coq kernel, extraction, drivers, Go harness; Go's encoding/json, strconv, fmt, hex, big are re-implemented and "
             "tied by correspondence only; the BOC serialiser/parser enter the cell theorem as hypotheses (C01/C07); abi envelopes are "
             "oracle-only."),
    'technique': 'Coq: string-level printer/parser pairs with round-trip, JSON-shape and totality theorems generic in the width; go/ast-translated method shapes re-checked by vm_compute; text-exact extracted-model correspondence incl. a port of the encoding/json scanner',
}
