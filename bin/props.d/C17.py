PROP = {
    'level': 'proof',
    'coq': ['Properties/C17.v'],
    'coq_gen': ['Properties/C17_gen.v'],
    'rule': ("accounts = workchain (0, -1, int8 edges 127/-128, int32 edges 128, -129, 255, 256, 2^31-1, -2^31, random) x 32-byte "
             "address (zero, ones, leading zero bytes/nibbles, one bit, bytes whose base64 digits are 62/63, random), each sent through "
             "every form: ToRaw / AccountIDFromRaw / ParseAccountID / tongo.ParseAddress, MarshalJSON / UnmarshalJSON, MarshalTL / "
             "UnmarshalTL, ToHuman with the 4 flag combinations x both base64 alphabets / AccountIDFromBase64Url / ParseAccountID / "
             "ParseAddress / JSON, ToMsgAddress -> tlb.Marshal -> cell bits (+ random trailing bits) -> tlb.Unmarshal -> AccountIDFromTlb, "
             "ToMsgAddress -> MsgAddress.MarshalJSON -> MsgAddress.UnmarshalJSON -> AccountIDFromTlb (also through encoding/json, with the "
             "TL-B bits and the JSON text compared before/after). Besides the boundary-biased sample, ALL 256 int8 workchains -128..127 "
             "go through every one of these forms. MsgAddress JSON variants: workchains -128/-129/127/128/+5/-0/007/int32 edges/non-numeric "
             "x 64 hex (std/var boundary), 62/63/65 hex digits, completion tags, '_' endings, upper case, missing/extra quotes, 1/2/3/4 "
             "colon-separated parts, addr_extern Fift hex, 27 Anycast(...) spellings (uint32 edges, overflow, missing parts, signs, '_', "
             "trailing text). Concurrency: 3 rounds (6 thorough) in the guarded child: 16 goroutines call AccountIDFromBase64Url / "
             "ParseAccountID / UnmarshalJSON in a tight loop (4000 passes, wall-clock bounded) and all parsers incl. ParseAddress, "
             "AccountIDFromRaw, ParseADNLAddress on valid strings next to their single-character substitutions; every result must equal "
             "the sequential one (the model's), a crash/hang of the child is a reported outcome. "
             "Raw-form lengths: 13 workchain spellings (0, -1, 12, -128, 127, 100000, int32 edges, +1, 007, -0, out of range, non-numeric) x EVERY hex length 0..66 (short hex is zero filled, so the total text length takes every value 2..78 and collides with the fixed lengths of the other forms: 48 user-friendly, 55 ADNL, 64, 66) through EVERY text entry point: AccountIDFromRaw, ParseAccountID, MustParseAccountID, tongo.ParseAccountID, tongo.MustParseAccountID, tongo.ParseAddress, AccountID.UnmarshalJSON, MsgAddress.UnmarshalJSON, each compared with the model and with a reference (right-aligned hex digits); the entry points must agree. "
             "Raw-form variants: short and odd hex (zero fill), empty hex, upper case, '+', leading zeros, spaces, no / two colons, 65/66 "
             "hex digits, non-hex, workchain range edges. User-friendly variants: ALL 48 x (63 + 2) single-character substitutions of "
             "sampled strings in both alphabets plus 8 non-alphabet bytes per position (every one on the implementation, a deterministic "
             "1-in-k sample through the model), truncations, extensions, padding, CR/LF, mixed alphabets, any flag byte, wrong CRC, "
             "random. Shards: prefix length 0..63 x prefix value (0, all ones, random): ParseShardID/Encode, convertShardIdent, "
             "shardChild/shardParent both directions, GetParents (same / after split / after merge), MatchAccountID with addresses "
             "equal on the prefix, differing in the last prefix bit, in the first bit after it, in any prefix bit, random; MatchBlockID "
             "with ancestors, descendants, siblings, random, 0; random uint64. Anycast: depth 0,1,2,7..33,40,64,2^31,2^32-1 x "
             "rewrite_pfx (0, all ones, fitting, too wide) through AccountIDFromTlb, MarshalTLB and back; malformed / truncated address "
             "cells for all four constructor tags. ADNL: ADNLAddressToBase32 / ParseADNLAddress (suffix .adnl, upper case), all 55 x 31 "
             "single-character substitutions on the implementation, wrong lengths, non-alphabet characters, padded tails, random. "
             "utils.Crc16 on lengths 0..80 and every table index. Oracles on the implementation: every round trip returns the account, "
             "formats equal an independently written reference (bitwise CRC-16/XMODEM, base64url/base32 layout), every substitution is "
             "rejected, Encode(Parse(m)) = m, match = prefix relation computed bit by bit, child/parent = prefix arithmetic, anycast = "
             "first depth bits replaced, concurrent results = sequential results. A class is (case kind, family / boundary bucket, outcome)."),
    'explanation': ("coq/Properties/C17.v holds for all inputs of the Gallina model of ton/account.go, ton/shards.go, ton/block.go (shard "
                    "arithmetic), tlb/messages.go (MsgAddress, Anycast), liteclient/adnl.go (base32 address) and utils/crc16.go: raw, JSON "
                    "and TL round trips for all int32 workchains x all 32-byte addresses; the raw text with any number k = 0..64 of leading zero hex digits "
                    "left out (every total length the raw form admits, also 48) is zero filled by AccountIDFromRaw and ParseAccountID alike; user-friendly round trip for all int8 workchains x "
                    "4 flag combinations x both alphabets through AccountIDFromBase64Url and ParseAccountID; CRC-16 table loop = bitwise "
                    "XMODEM definition, CRC linear, hence every one of the 48 x 63 digit substitutions (and any non-alphabet byte) of every "
                    "printed address is rejected; TL-B addr_std round trip incl. anycast; JSON form of the TL-B address (MsgAddress "
                    "MarshalJSON/UnmarshalJSON) gives back the same addr_std value and the same account for all int8 workchains -128..127, with "
                    "or without anycast; anycast rewrite = first depth bits replaced for "
                    "depth 1..32; shard parse/encode for all non-zero uint64, MatchAccountID iff prefix, MatchBlockID iff one prefix is a "
                    "prefix of the other, child/parent mutual inverses for all prefix lengths, convertShardIdent/GetParents in terms of "
                    "(length, prefix); ADNL base32 round trip. coq/Properties/C17_gen.v re-checks utils.TABLE against the table computed "
                    "from the polynomial 0x1021, the integer/character literals and the comparison/logical operators (in source order) of 20 "
                    "modelled functions, and that the files holding the parsers declare no package-level state (zero-valued or call-initialised "
                    "variables), all translated from today's source. coq/Proofs/C17History.v refutes seeded designs on the model: a length-48 fast path in ParseAccountID (rejects the raw text 0:<46 hex>),  int8 test "
                    "with an exclusive lower bound (workchain -128 lost through the JSON form) and one CRC register shared by concurrent calls "
                    "(an interleaving accepts a corrupted string and rejects a valid one)."),
    'assumptions': ["Go's encoding/base64, base32, hex, strconv.ParseInt, fmt %v/%x, strings.Map/TrimSuffix/ToUpper and snksoft/crc XMODEM are "
                    "modelled by hand and tied by the correspondence run only",
                    "encoding/json is modelled for string literals without backslash escapes (escaped input is checked on the implementation only)",
                    "MsgAddress.UnmarshalJSON is modelled on the raw bytes of the JSON value, without white space inside Anycast(...) (fmt.Sscanf "
                    "skips it) and without non-ASCII characters in Fift-hex parts (the code truncates runes to bytes)",
                    "the model is a pure function: that concurrent calls of the Go parsers behave like sequential ones is tied by the concurrency "
                    "oracle (needs >= 2 CPUs to be meaningful; 16 goroutines, ~5M parser calls per run) and by the translated no-package-state "
                    "obligation, not by a theorem about the Go memory model",
                    "tongo.ParseAddress is modelled for strings without '=' and with a DNS resolver that always fails; its Bounce field is not "
                    "part of the property and is not compared",
                    "user-friendly and addr_std forms hold an int8 workchain: workchains outside -128..127 are truncated by the code "
                    "(stated as an Example, outside the property's quantifier)",
                    "cells are bit lists (C06 objects); the 1023-bit limit is modelled as a length check",
                    "observation outside the property (C17 states the round trip of well-formed ADNL text only): ParseADNLAddress on a "
                    "padded base32 tail that decodes to fewer than 35 bytes starting with 0x2d panics (buf[33:] without a length check); "
                    "that input class is run on the implementation only and merely counted, it is neither an oracle failure nor compared "
                    "with the model"],
}

META = {
    'text': ("Machine-checked proof (Coq) over a Gallina model of the account-address, shard-id and ADNL-address code: for every int32 "
             "workchain and every 32-byte address the raw text, JSON and TL forms parse back to the same account; for every int8 workchain, "
             "every bounce/testnet flag combination and both base64 alphabets the user-friendly form parses back (AccountIDFromBase64Url "
             "and ParseAccountID); the table-driven utils.Crc16 equals bitwise CRC-16/XMODEM and is linear, from which every replacement "
             "of one of the 48 characters by a character denoting a different base64 digit (or no digit) is rejected for every address; "
             "the TL-B addr_std encoding (with optional anycast, any trailing cell bits) decodes back and AccountIDFromTlb's anycast "
             "rewrite replaces exactly the first depth bits (depth 1..32); every non-zero shard id survives ParseShardID/Encode, "
             "MatchAccountID holds exactly when the shard prefix is a binary prefix of the address, MatchBlockID exactly when one shard "
             "prefix is a prefix of the other, shardChild/shardParent are mutual inverses for every prefix length and agree with "
             "prefix arithmetic, GetParents returns parent / both children / the same shard accordingly; the ADNL base32 text parses back "
             "to the address; the JSON form of the TL-B address parses back to the same addr_std value and account for every int8 "
             "workchain -128..127. The extracted model is run against the Go implementation on ~39k (quick) / ~358k (thorough) generated "
             "cases with 0 differences, including a sweep of all 256 int8 workchains through every form and concurrent parsing from 16 "
             "goroutines whose results must equal the sequential ones; the CRC table and the literals of the modelled functions are re-translated from the source and "
             "re-checked on every run."),
    'design_ref': 'DESIGN.md §6 C17',
    'note': ("Trusted: Coq kernel, extraction (ExtrOcamlBasic), OCaml driver, Go harness; Go's base64/base32/hex/strconv/fmt/json are "
             "hand-modelled and validated differentially, not derived. JSON escapes and '=' in tongo.ParseAddress are outside the model. "
             "Observations outside the property: liteclient.ParseADNLAddress panics on a correctly padded short "
             "base32 string whose first byte is 0x2d (malformed ADNL text, not alarmed on); tongo.ParseAddress reports Bounce = true for non-bounceable (UQ../0Q..) "
             "strings (flag test b&0x11 == 0x11) and ignores base64 decoding errors (valid address + trailing garbage is accepted)."),
    'technique': 'Coq proofs (CRC linearity + exhaustive 48x63 syndrome check lifted to all addresses; bit-level shard/anycast algebra) + extracted-model correspondence + translated table/literal obligations',
}

# ROUND-8-APPEND
PROP['rule'] += ' ROUND 8: the lite-server forms (c17_r8.go): for every generated account id (all int32 workchains) tl.Marshal(liteclient.AccountID(id)) equals id.MarshalTL(), decodes back to id and decodes as liteServer.accountId with the same fields (tl-liteserver-account); block ids of the same workchain through liteclient.BlockIDExt / TonNodeBlockIdExtC.ToBlockIdExt against ton.BlockIDExt.MarshalTL / UnmarshalTL (tl-liteserver-block).'
