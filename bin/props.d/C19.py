PROP = {
    'level': 'proof',
    'coq': ['Properties/C19.v'],
    'coq_gen': ['Properties/C19_gen.v'],
    'rule': ("ten case kinds from one PRNG. Server configuration is part of the quantifier: secrets of 0/1/31/32/63/64/65/100/1000 "
             "bytes (and short random ones) in every kind, lifetimes incl. negative/overflowing, caller-written domain policies.  c19.check: real Server.CheckProof with s.CheckPayload/StaticDomain and a scripted "
             "fake abi.Executor vs the extracted model (Gallina SHA-256; oracle columns computed with crypto/hmac, encoding/base64, "
             "tongo boc/tlb, crypto/ed25519): honest proofs by the real CreateSignedProof for all 11 constructible wallet versions "
             "V1R1..V5R1 x key from get-method / from state-init; every single-field substitution (address other/one digit/workchain, "
             "domain on either side, timestamp +-1/+256/+2^32, other issued payload, upper-cased payload, foreign-secret payload, "
             "signature bit flips/truncations/extension/other signer, executor answering another key, other wallet's or attacker's "
             "state-init, missing state-init); executor scripts (key, negated key, exit codes 0/1/2/11/2^32-1, error, empty/two-entry/"
             "null/cell/tinyint stacks, integers of 0/23/24/33 bytes) with and without state-init; malformed address texts (50 forms), "
             "signature texts, payload texts; absolute timestamps far from the clock incl. int64 extremes and the time.Unix wrap point; "
             "configured lifetimes incl. negative and overflowing; a state-init zoo presented for the address it hashes to (no code, no "
             "data, neither, V3R2Lockup/highload/unknown/empty code, data lengths around every key offset, V5 dictionaries present/"
             "absent/broken, split_depth/special, hand-built header bit strings x 0..3 refs, library bit, two/zero roots, library/pruned "
             "cells, base64 garbage, truncations, bit flips), each also with a signature forged for the all-zero Ed25519 key. c19.clock: "
             "honest proof built at the real clock with proof/payload time = now+d, d in {-L-2..-L+1,-1,0,1,5,10^6} for lifetimes "
             "default/1/2/300/3600 and payloads from the real GeneratePayload. c19.hist: HISTORIES of 2..6 CheckProof calls on ONE "
             "tonconnect.Server value, sequentially and concurrently (all calls at once from goroutines, twice), each result compared "
             "with the model's result for that call ALONE: attacker's own login with state-init S then S presented for a victim's "
             "address signed by the attacker (also forged-login-forged-victim login-forged), same address with another wallet's "
             "state-init between two honest logins, key first from the get-method then a foreign state-init when the get-method fails, "
             "replays of the same proof, one payload reused by two wallets, expired / foreign-secret payloads and a changed timestamp "
             "before and after a good call, random histories over logins and substitutions; oracle: a call that must be rejected is "
             "rejected whatever came before, honest calls are accepted with their own key. c19.genpayload: the real GeneratePayload "
             "of a server per secret length: output well formed, its tag equals HMAC-SHA256 under the FULL secret computed by the "
             "harness with crypto/hmac (independent of the Server object), accepted by a second Server with the same secret, and "
             "accepted by a Server with another secret (sibling differing in one byte incl. beyond byte 64, appended byte, 64-byte "
             "truncation, same 64-byte prefix + other tail, one byte shorter, random, zero-padded) exactly when RFC 2104 makes the "
             "two keys the same key (<= 64 bytes and zero-padded); the time field read back from the payload: acceptance (field + "
             "lifetime) ends no later than lifetime s (+ lifetime ns) after the call returned and no earlier than lifetime - 1 s "
             "after it started (lifetimes default/300/3600/9223372036); GetSecret returns the secret. c19.expire (wall clock, started in "
             "background goroutines at the beginning of the run, collected at the end, retried when the machine is too slow to be "
             "conclusive, 90 s watchdog): a payload of the real GeneratePayload with lifetime 1/2/3 s presented 0.3/1.0 s later "
             "(must be accepted by CheckPayload and inside a fresh honest proof by CheckProof) and lifetime + 0.3 s / 3.7 s later "
             "(must be rejected by both). Derived malformed texts: from a GENUINE honest proof every text field the server parses — "
             "payload, address (hex part and workchain part), signature (base64), state-init (base64 BOC), domain (proof side and "
             "server side) — is replaced by the genuine text with every kind of tail and head (one/two/three alphabet characters, "
             "characters outside the alphabet, mixed pairs, \\n, \\r\\n, space, tab, NUL, =, ==, 0xff, U+00A0, the text itself), 1..4 "
             "characters cut at either end (odd lengths), upper/lower/mixed case, and white space / NUL / an alien character inserted "
             "or substituted at the ends, the middle and random positions; payload, address and domain variants are re-signed by the "
             "wallet key over the presented fields so that only the parsing of that field can reject them; through c19.check, and "
             "alone through c19.payload and c19.conv. Oracle computed independently (encoding/hex, encoding/base64, an own address "
             "reader): accepted exactly when the text decodes to the same bytes (e.g. hex case, base64 newlines), never a panic, "
             "never another key. c19.payload / c19.check also present payloads made under sibling, "
             "truncated and zero-padded secrets; c19.check with checkDomain policies allow/deny/error/suffix and both lifetimes set. c19.msg (createMessage bytes), c19.conv "
             "(convertTonProofMessage + ParseAccountID), c19.payload, c19.pubkey (getWalletPubKey), c19.stateinit "
             "(compareStateInitWithAddress + ParseStateInit) exercise the parts alone. Oracles on the implementation: honest => accepted "
             "with the wallet key; every substitution => rejected; never a panic; accepted only with the key in the data; lifetime "
             "boundary exact. A class is (kind, generator family, sub-family, outcome)."),
    'explanation': ("coq/Properties/C19.v: for every input the model of (repaired) CheckProof never panics; acceptance implies payload "
                    "check passed, not expired, domain allowed, signature verifies under pk over the message built from the proof's own "
                    "fields, and pk came from the account's get-method or from a single-cell state-init hashing to the address whose "
                    "code hash is a known wallet and whose data holds pk; honest proofs are accepted with pub sk; the byte layout is "
                    "injective for equal address lengths (counter-example otherwise; same-account collision only for the zero address); "
                    "rejection corollaries under an ideal signature; lifetime boundary to the nanosecond; C19_history_independent: the "
                    "answer to a call within any history on one Server is the answer to the call alone (the model has no state; the "
                    "content is the c19.hist correspondence), and a cache of verified state-inits not keyed by the address is refuted "
                    "by a 2-call history (C19_addressless_cache_refuted); C19_check_generated_payload: CheckPayload of a server with "
                    "secret s2 on the payload GeneratePayload made under s1 succeeds exactly when the 16-byte MACs under the full keys "
                    "s1 and s2 agree and it has not expired (hence C19_payload_of_other_secret_rejected, C19_generated_payload_accepted "
                    "for secrets of any length), and keying the MAC with the secret cut/padded to the 64-byte block is refuted "
                    "(C19_block_key_design_refuted); C19_generated_payload_rejected_after_lifetime: more than lifetime s (+ lifetime ns) "
                    "after GeneratePayload the payload is rejected, i.e. the lifetime is counted once; a GeneratePayload that stores "
                    "now + lifetime seconds is refuted (C19_lifetime_counted_twice_refuted); C19_accepted_payload_text_exact: an accepted "
                    "payload text is exactly 64 hexadecimal digits, so a genuine payload with any tail or head is rejected "
                    "(C19_payload_with_tail_rejected), and a CheckPayload that ignores the hex error once 32 bytes were decoded is refuted "
                    "(C19_lenient_hex_refuted). coq/Properties/C19_gen.v "
                    "re-checks on the constants translated from today's source: prefixes, default lifetimes, get_public_key method id "
                    "(= crc16 of the name | 0x10000), knownHashes range, the switch of ParseStateInit (key offsets 32/64/113/65 derived "
                    "from the wallet data structs, default clause is an error), and recomputes all 12 code hashes from the code BOCs "
                    "with the Coq BOC-parser and cell-hash models."),
    'assumptions': ["SHA-256, HMAC, Ed25519 verify/sign, base64 are parameters of the theorems; ideal_signature and collision-freeness "
                    "are explicit hypotheses of the rejection corollaries only",
                    "DeserializeBocBase64 + cell hashes (C07/C02) and dictionary decodability (C05) are parameters; totality assumes "
                    "the BOC parser does not panic (C07) and HMAC output >= 16 bytes",
                    "HMAC is a parameter keyed with the secret exactly as configured; that keys of at most 64 bytes and their zero-padded "
                    "forms are the same HMAC key (RFC 2104) is a fact about HMAC, reflected in the harness oracle, not a defect",
                    "lifetimes above 9223372036 s overflow time.Duration (model and code agree; configuration misuse)",
                    "c19.expire depends on the wall clock: acceptance cases are retried (at most 4 times) when generation-to-check took "
                    "longer than lifetime - 1 s; rejection cases cannot be perturbed by delays",
                    "the timestamp is an int64 of the Proof struct, not a text the server parses (its JSON decoding is outside the model); an "
                    "address written with another workchain or zero-stripped hex denotes an account for which the same state-init / the "
                    "scripted get-method vouch, so such re-signed proofs are accepted by code and model alike",
                    "JSON decoding of Proof, context cancellation and the real executor are not modelled; the clock is a parameter",
                    "ParseAccountID's base64 fallback is modelled as an error: convertTonProofMessage has already required a ':' "
                    "which base64url never accepts"],
}

META = {
    'text': ("Machine-checked proof (Coq) over a model of tonconnect.Server.CheckProof / CheckPayload / CreateSignedProof for all inputs: "
             "an accepted proof implies the server payload was issued under the secret and is unexpired, the proof is unexpired, the domain "
             "is allowed, the Ed25519 signature verifies over sha256(0xffff|'ton-connect'|sha256('ton-proof-item-v2/'|wc|addr|len|domain|ts|"
             "payload)) built from the proof's own fields, and the key is the account's get_public_key answer or the key inside a state-init "
             "that hashes to the address and carries a known wallet code; honest proofs are accepted and yield the wallet key; under ideal "
             "signatures any other signer or changed field is rejected; CheckProof never panics on any malformed input. The extracted model "
             "agrees with the implementation on ~1.3k (quick) / ~10.3k (thorough) cases per seed incl. lifetime +-1 s at the real clock "
             "and histories of 2..6 calls on one Server value (sequential and concurrent), each call compared with the model's answer "
             "for that call alone. "
             "Two defects repaired in ParseStateInit: panic on state-init without code/data (F16) and an all-zero public key for "
             "V3R2Lockup state-inits, for which anybody can forge signatures (F22)."),
    'design_ref': 'DESIGN.md §6 C19, §7 F16',
    'note': ("Trusted: Coq kernel, extraction, drivers, Go harness; crypto, base64, BOC parse/hash and dictionary decoding enter as "
             "parameters (theorems) / oracle columns computed by Go (correspondence). c19.check uses timestamps decades from the clock; "
             "boundaries are exercised by c19.clock against the real clock."),
    'technique': 'Coq model with Panic outcomes + inversion theorems + translator obligations (code hashes recomputed in Coq) + extracted-model correspondence incl. call histories on one Server',
}

# ROUND-8-APPEND
PROP['rule'] += " ROUND 8: the payload check is a callback like the domain check: every c19.check case is answered again with a checker giving CheckPayload's verdict without its error (must give the same result) and, when accepted, with checkers refusing as (false, nil) and (false, err) (must reject); a difference is returned as 'payload-verdict-ignored and so mismatches the model. Coq: C19_callback_refusal_rejects (for any callbacks, a refusing payload or domain callback never yields an accepted proof; corollary of C19_accepted_implies, whose cp is universally quantified)."
