PROP = {
    'level': 'proof',
    'coq': ['Properties/C03.v'],
    'coq_gen': ['Properties/C03_gen.v'],
    'rule': ("values built from the descriptors that the reflect walk (harness/tlbdesc) makes of today's Go types; the descriptor "
             "travels with every case and the model interprets exactly that term. (1) every generated integer / bits / VarUInteger / "
             "Unary type (Uint1..64, Int1..64, 128/256/257-bit, VarUInteger1..32, BitsN) at 0, 1, max, max-1, 2^(w-1), 2^(w-1)-1, "
             "min, min+1, -1, 255/256, -128/-129, and for VarUInteger every byte length at its smallest and largest value; (2) every "
             "described type of packages tlb, wallet, abi (562 in the base layer + 21 in the extension layer today) with random in-domain values, every constructor of the root "
             "union at least once, present/absent Maybe, left/right Either, inline/ref EitherRef, nested refs, all four MsgAddress "
             "forms with anycast depth 1..30 and address lengths 0,1,8,256,511, dictionaries of 0..3 entries; (3) 30 (600 thorough) "
             "more values for Message, CommonMsgInfo, StateInit, CurrencyCollection, Account, TransactionDescr, Transaction, "
             "MsgEnvelope, InMsg, OutMsg, VmStackValue; (2b) the offset family: every fixed-width integer type (tlb.Uint1..64, Int1..64, the 128/256/257-bit ones, and the Go kinds "
             "uint8..64 / int8..64 of the reflection codec) placed after a prefix of 0..15 bits in the same cell (struct {P UintK; V T} "
             "built with reflect.StructOf), i.e. at every bit offset mod 8, with the all-ones value, the value with only the top and "
             "the lowest bit set, a random odd and a random value (thorough: all boundary values + 6 random): cell and decoded value "
             "vs the model, direct round-trip oracle (key offset-roundtrip); (2c) the tag grammars: tlb.ParseTag and parseTag (hook) on every struct tag of the shipped types (156 constructor / Magic tags, 3 field tags), on mutations of them (dropped character, swapped separator, appended characters, more than 32 bits of digits, upper case, maybe/^ prefixes, bits/bytes suffixes) and on random strings, answers compared with the model of the grammar (served by c03.dec); (3a) the extension layer: SnakeData / Bytes / Text / TextComment / "
             "FixedLengthText and the 16 bodies holding them, 25 (300 thorough) values each with snake lengths 0, < 400, 900..1040, "
             "1023, 1024, 2046..2048, > 3069 bits (so that, after the fields written before, the data ends before / exactly at / "
             "after the cell boundary and spills into 1, 2, 3 chained cells) and byte strings of 0, 1, 126, 127, 255 bytes, random bytes as well as text with 2-, 3- and 4-byte UTF-8 runes; (4) VM stacks of depth 0,1,2..5,12..41 whose entries are nulls, tiny ints and "
             "257-bit ints at their boundaries, cells, builders and cell slices (windows st_bits..end_bits / st_ref..end_ref over cells "
             "with 0, 1..8, up to 1023 data bits and 0..4 references: full, empty at either end, empty inside, partial); (4b) the "
             "cursor family: for every type holding a bit string or a cell (MsgAddress extern/var, Any, ^Cell, cell slices; 120 "
             "values for MsgAddress, 60 for Message/CommonMsgInfo) the read cursors inside the Go value are advanced by "
             "1/3/8/9/64/511 bits (cells: and one reference) before tlb.Marshal: the cell must equal the one of the fresh value and "
             "the model's; (4d) exotic cells through boc.Cell positions (implementation only, counted under exotic|kinds|outcome): for every described type with a ^Cell / Ref[Cell] / Maybe[Ref[Cell]] / Any position (60 values for StateInit, Message, SimpleLib, Account, VmStackValue, 4 for the others; x10 thorough) the cells at the ENCODED positions are replaced by library cells (8+256 bits), pruned branches (masks 1..7), Merkle proofs and Merkle updates with consistent children (boc.VerifSetTypeMask), Any values get 1-2 exotic references: every planted cell must occur in the tree tlb.Marshal produces with its hash, cell type and level mask (C03_cell_passthrough on the model side), and, unless a pruned branch is involved (the decoder leaves those empty by design), decode -> encode reproduces the root hash under EVERY decoder configuration (tlb.Unmarshal, NewDecoder(), NewDecoder().WithLibraryResolver(fn) and a zero Decoder with a resolver - fn returns an ordinary cell -, WithDebug()); 40 state-inits built as on chain with library-cell code: decode -> encode reproduces the source hash (keys exotic-passthrough-<Type>, stateinit-exotic-reencode); (4c) exploration support for the types OUTSIDE the model (opaque, decode-only, partial: ~130 types, 12 "
             "values each, 150 thorough): Go values built by reflection (described sub-trees through their descriptor, hand-written "
             "leaves SnakeData/Bytes/Text/FixedLengthText/SignedCoins/Anycast/dictionaries through small generators incl. empty, "
             "zero-length and > 1023-bit fills, one constructor per union, conditional block.tlb fields kept consistent with their "
             "flag) and the oracle Unmarshal(Marshal(v)) == v with equal re-encoding whenever Marshal succeeds - implementation "
             "only, counted under explore|package|class|outcome, failures keyed opaque-roundtrip-<Type>; (4e) Decoder.Hasher(): a testdata block decoded with NewDecoder() gives the same transaction and message identity hashes as tlb.Unmarshal and its hasher agrees with Cell.Hash on re-encoded messages (key decoder-hasher); (5) every message and transaction "
             "of the five testdata blocks: decoded, re-encoded, hash compared with the source cell (transactions: modulo the out_msgs "
             "dictionary cell, whose label form is not unique), and the small ones run through the model. Per case tlb.Marshal -> cell "
             "(compared bit for bit and reference by reference with the model's cell), tlb.Unmarshal of that cell -> value (compared), "
             "everything consumed, tlb.Marshal of the decoded value -> same hash. Oracles on the implementation state the round trip "
             "directly. A class is (family, package, root kind, width bucket / constructor / address form / size bucket, outcome)."),
    'explanation': ("coq/Properties/C03.v, for the Gallina model of tlb/encoder.go, tlb/decoder.go and the hand-written primitive codecs "
                    "over a deep embedding of types, for every descriptor with wf_ty = true and every in-domain value, with no size "
                    "bound: if encoding succeeds, decoding the produced cell returns the same value with the same constructor of every "
                    "tagged union and nothing left over (prefix law for every builder state and continuation; tail law for rest-of-cell "
                    "codecs), re-encoding gives the same cell hence the same hash, the encoder stays within 1023 bits / 4 references, "
                    "and it writes exactly the declarative TL-B serialisation; laws for uintN, intN (two's complement), VarUInteger "
                    "(minimal byte length), MsgAddress (4 forms, anycast); the same prefix/tail law and round trip for the extension layer "
                    "(snake data chains of any length across references, whose serialisation depends on the fill level of the cell, "
                    "length-prefixed bytes, and all combinators over them and over embedded base descriptors); VM stacks decode to the reversed list (arguments top-first, "
                    "results bottom-first). coq/Properties/C03_gen.v re-checks wf_ty (pairwise prefix-free constructor tags, tag values "
                    "fit, rest-of-cell codecs last, widths) by vm_compute on the descriptors regenerated from today's struct definitions, "
                    "that every exported type of the three packages is either claimed or listed with the reason; that the set of decode-only types is exactly the expected 35 and that exactly 9 of them are decode-side only BY THEOREM (their encoder-view descriptor satisfies never_encodes; C03_never_encodes: no value ever encodes); that every struct tag of the shipped types is parsed by tlb.ParseTag / parseTag exactly as the model of the tag grammar parses it and its value fits its length; and prints the lists."),
    'assumptions': ["types listed in Generated/TlbTypes.v as tlb_opaque (59: inline Hashmap (16) / HashmapAug(E) (7) / BinTree (3) fields, wallet PayloadV1toV4/PayloadHighload/W5Actions/W5ExtendedActions and the wallet message bodies built on them, abi JettonPayload/NFTPayload/InMsgBody and the bodies containing them, pointer-recursive GasLimitsPrices, VmCont/VmStkTuple/VmStack (own model), ChunkedData, stand-alone Anycast) and tlb_decode_only (35: hand-written decoder over the reflection encoder; 9 of them never encode by theorem, the CryptoSignature family and McStateExtraOther do encode and round-trip on every explored value, BlockInfo/BlockHeader fail only by cell overflow which the structural criterion does not cover, the rest has no encoder-view descriptor) are NOT covered by the round-trip theorems; tlb_partial (16) lists claimed types in which some union constructor has no model (it is the empty union in the descriptor)",
                    "SnakeData/Bytes/Text are one codec in the model (bit string in a chain of cells); Bytes' multiple-of-8 check and Text's UTF-8 check on decoding are domain restrictions enforced by the generator; tlb.SignedCoins is modelled as sign bit + VarUInteger 16 of the absolute value",
                    "HashmapE fields are modelled as Maybe ^Cell with an uninterpreted dictionary cell (the dictionary codec is property C05); the harness builds the Go dictionary from that cell with the library's own decoder",
                    "tlb.BlkPrevInfo (two `$_` constructors, chosen by the enclosing BlockInfo) is a context-dependent union and is not claimed stand-alone",
                    "library-cell and pruned-branch short-cuts of the decoder, Decoder.WithDebug, and aliasing between decoded values and source cells are not modelled; reflect itself is modelled (field order, tags, kinds), not verified",
                    "domain of a value = what the TL-B type can express: AccountStatus/AccStatusChange/ComputeSkipReason strings outside the named constants are written as zero bits without error, a VarUInteger n holding more than n-1 bytes gets a truncated length field without error, AddrVar.AddrLen must equal the address length; these inputs are outside the quantifier",
                    "tlb.VmCellSlice is modelled as the struct ^Cell, uint10, uint10, uint3, uint3; its domain (st <= end <= size of the cell) is enforced by the generator, the encoder's and decoder's range checks are not in the model",
                    "tlb.Any is encoded from all its bits but only the references not yet read (NextRef): the cursor family leaves the reference cursor of Any alone",
                    "a non-nil EMPTY wallet.W5ExtendedActions list (also behind the maybe pointer of MessageV5/MessageV5Beta) encodes to nothing and does not decode: outside the quantifier (the TL-B list has at least one action; 'no actions' is the nil pointer / nothing$0), counted under a known: class",
                    "the fuel of the model's walkers bounds the nesting depth of the descriptor only; wf_ty certifies it suffices (no bound on values)"],
}

META = {
    'text': ("Machine-checked proof (Coq) for the model of the TL-B reflection codec and its hand-written primitives: for every type "
             "descriptor with first-match-safe constructor tags and rest-of-cell codecs only in tail position, and every value of "
             "that type, a successful encode is inverted by decode (same value, same constructor, nothing left over), re-encoding "
             "reproduces the cell, and VM stacks follow the reversed-list convention; the side conditions are re-checked on "
             "descriptors regenerated by reflection from today's 583 describable Go types of tlb/wallet/abi (the rest listed by name). "
             "The extracted model reproduces tlb.Marshal's cells and tlb.Unmarshal's values exactly on ~6.3k (quick) / ~43k "
             "(thorough) generated cases incl. all integer widths at their boundaries and the messages/transactions of the testdata blocks."),
    'design_ref': 'DESIGN.md §6 C03/C04, §7 F6 F7 F9 F19 F20',
    'note': ("Repairs: abi.InMsgBody/ExtOutMsgBody kept a truncated raw body after a failed typed decode and InMsgBody encoded a raw body by replacing the enclosing cell (abi/messages.go); F9 (Transaction.MarshalTLB added; tlb.Marshal(Transaction) used to panic), raw \"Cell\" jetton/NFT payloads encoded inline used to replace the enclosing cell (abi/jetton.go, abi/nfts.go), F6/F7 earlier, F19 by the C05 builder. "
             "Not covered: 59 opaque + 35 decode-only types (listed per run by C03_gen.v). Trusted: Coq kernel, extraction, drivers, "
             "the reflect walk of harness/tlbdesc (its output is what the model interprets and is cross-checked by every case), C06 "
             "refinement of bit strings."),
    'technique': 'Coq: deep embedding of TL-B types, codec prefix/tail law by induction over descriptors, declarative serialisation as intermediate; reflect-generated descriptors re-checked by vm_compute; cell-exact extracted-model correspondence',
}

# ROUND-8-APPEND
PROP['rule'] += " (2d) the full-cell family: the encoder at the cell limit. struct {k prefix bits; j ^Cell; F; optional Uint2} built with reflect.StructOf for 39 field shapes covering every tag kind / wrapper / primitive of the reflection codec (bool, uintN/intN/Go kinds, 256/257-bit, bits, VarUInteger 3/16/32, Grams, Unary, Magic #/$, maybe, maybe^, ^ tags, Maybe[T], Maybe[Ref[T]], Either, EitherRef, Ref[T], ^Cell, Any, HashmapE, nested struct, synthetic union) and for 60 (thorough: all) shipped described types, k swept over 1023-size(F)-1..1023 so that every piece of F (presence bit, side bit, constructor tag, length field, value, reference) lands exactly on bit 1023, j = 0..4 so that F's reference is the 4th/5th: cell and decoded value vs the model (which answers Err on overflow), oracle: Marshal succeeds exactly when k+size <= 1023 and j+refs <= 4 and then round-trips (key full-cell-<shape>); (2e) prefilled cells, implementation only (c03.prefill): one value (6 thorough) of EVERY registered TL-B type (described, opaque, decode-only) marshalled into a cell already holding k random bits and j references, k swept over every position 1023-size-1..1023, j = 1..4 at the limits: tlb.Marshal fails, or the prefix is intact, the cell is within 1023 bits / 4 refs, decodes after the prefix to an equal value and re-encodes to the same cell, and for plain described types succeeds exactly when the value fits (key prefill-<Type>); types whose hand-written codec is tied to the start of a cell (tlb.Message, tlb.Transaction hash the cell and reset its cursor) are probed behind a 5-bit prefix and counted under root-of-cell-codec, abi.InMsgBody behind a reference-only prefix under known:reference-only-prefix-unsupported."
