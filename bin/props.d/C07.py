PROP = {
    'level': 'proof',
    'coq': ['Properties/C07.v', 'Properties/C07_print.v'],
    'coq_gen': ['Properties/C07_gen.v'],
    'rule': ("byte strings fed to boc.DeserializeBoc in a child process (address-space limit 6 GiB, 20 s timeout): valid "
             "seeds (own output with the 8 option combinations, an independent reference serialiser with every "
             "header variant: three magics, index, CRC, cache bits, over-wide size/offset fields, stored hashes, "
             "multi-root; wallet code BOCs; real blocks), every truncation, single-byte substitutions (header "
             "positions x 19 boundary values, body sampled), hand-built adversarial headers (huge counts and "
             "widths, out-of-range root/ref indices, self/backward refs, hash-carrying and exotic cells without "
             "data, depth 1023/1024/1025 chains), a size x off_bytes x count grid, random multi-byte mutations, "
             "random bytes, BOCs of 100..1000 empty cells; family 'consistent-huge': size 1..7 x off_bytes 1..8 x cells in {2^8,2^16,2^20,2^24,"
             "2^31,2^32,2^40,2^48,2^55, 2^(8*size-1), 2^(8*size)-1} with roots=1, absent=0 and tot_cells_size "
             "consistent with the count (2*cells, 2*cells+1, 3*cells, cells, field maximum), and the same with a "
             "huge roots count equal to / below the cells count, over generic/index/cache/CRC flags and both lean "
             "magics, followed by 0..40 body bytes; family 'sharing': valid BOCs of 5..60 cells whose DAG has up to "
             "4^59 paths (each cell referencing the next one 1..4 times, lattices i -> i+1..i+w for w=2,3,4, layered "
             "diamonds, random multiplicities); family 'sharing-exotic': the same shapes (6..60 cells) in which the cells "
             "are exotic-typed - d1 = refs + 8 + 32*mask for masks 1..7, first data byte 0x01 pruned branch, 0x02 "
             "library, 0x03 Merkle proof, 0x04 Merkle update, 0x00, 0xff, payload length valid for the type / type "
             "byte only / one byte short / one byte long / not byte aligned / random, on all inner cells, every "
             "second one, a random half, or all cells (the parser does not validate exotic cells, so it returns "
             "them with their references); family 'deep': chains of 1023, 1027 and 1100 cells (1024..1026 are in the "
             "adversarial list), a chain of 1023/1024/1030 cells as second reference of a shallow root, a 1040-cell "
             "chain referenced twice three levels below the root (the hasher's depth limit is 1024). Compared with the model: outcome class and, per root, hash, depth, "
             "level, bit size, ref count, exotic flag, type (a makeslice panic, a fatal out-of-memory or a hang of "
             "the child is a class mismatch). Oracles on the implementation, all evaluated in the child (an input "
             "that crashed, hung or panicked there is reported and never executed again): (a) no crash/timeout/"
             "panic; (b) allocation: the runtime.MemStats.TotalAlloc delta around boc.DeserializeBoc is at most "
             "1024*len(input)+32768 bytes (theorem C07_parse_alloc_linear: 640*len for the modelled make() calls; "
             "measured on the unchanged tree: 197 bytes per input byte in the worst case, a BOC of n empty cells "
             "(family 'empty-cells'), 101 over the other streams, 4.7 kB for inputs < 64 bytes), key "
             "alloc-out-of-proportion; (c) returned cells have <= 1023 bits, <= 4 non-nil refs; (d) ToString, Hash "
             "and ToBoc of every returned root finish within 10 s without crashing (keys print-timeout, "
             "print-unbounded), ToString prints at most 2*65536+8*cells+2 lines (cells = distinct cells under the "
             "root; the visit budget BOCSizeLimit=65536 allows 65537+3*depth, theorem C07_print_bounded: <= 262145 "
             "for every DAG; measured maximum 65697) and at most cells+264 bytes per line, ToBoc output is at most "
             "2*len+64 bytes and re-parses; (e) for the sharing and deep families before anything else touches the input, for the other streams "
             "after a successful parse: Hash + "
             "ToBoc + re-parse of every parsed root (exec c07.hash in the child, 10 s) terminate - keys hash-timeout, "
             "hash-unbounded - and their TotalAlloc delta is at most 16384*cells+131072 bytes, cells = distinct cells "
             "under the root (key hash-out-of-proportion: the hash cache of newImmutableCell keeps the work linear in "
             "the cells although the DAG has up to 4^59 paths; measured on the unchanged tree: at most 2.7 kB per "
             "cell, 14.2 kB for roots of <= 8 cells, 1.5 ms per call; a Hash() error for a malformed exotic payload is "
             "accepted); in the same exec, for every successfully parsed root of every stream, ONE boc.Hasher is used for "
             "Hash, HashString, Hash again, ToBocCustomWithHasher, Hash, and Hash of every direct child: each call "
             "must return exactly the value / error a fresh cache returns (Cell.Hash, Cell.ToBoc) and must not panic, "
             "in particular after a call that answered ErrDepthIsTooBig (keys hasher-reuse-panic, "
             "hasher-reuse-differs). The number of "
             "lines ToString prints for the sharing family is compared with the Coq model of the budgeted "
             "traversal (kind c07.lines; the comparison is enabled). A class is (stream, position/size bucket, outcome); oracle-only evaluations are counted "
             "as c07.alloc|..., c07.print|... and c07.hash|... classes."),
    'explanation': ("coq/Properties/C07.v: the model of the (repaired) parser never returns Panic, allocates at most "
                    "640*len bytes in its modelled make() calls, and every successful parse yields cells with <= 1023 "
                    "bits, <= 4 refs, references strictly forward and in range, roots in range, so that the unfolding "
                    "to a tree (hence hashing/printing/serialising by recursion over it) is total. "
                    "coq/Properties/C07_print.v: the model of Cell.ToString's traversal (Model/CellPrint.v: one line per "
                    "call, Go int budget BOCSizeLimit=65536 shared across the traversal, tested with == 0 and "
                    "decremented once per visited cell) leaves a budget in [0, b] - it never steps over zero - and "
                    "prints at most 1+4*(b-b') lines for every array with <= 4 refs per cell, hence at most 262145 lines "
                    "for every root of every accepted byte string whatever the sharing (4^k paths); on parsed arrays "
                    "the fuel of the model is immaterial, i.e. the Go recursion terminates and is that function."),
    'assumptions': ["the Go allocator, stack and scheduler are runtime; allocation is modelled as the sum of make() capacities; "
                    "the real allocator is tied to it only by the measured oracle TotalAlloc <= 1024*len+32768",
                    "Hash() of a cell whose exotic payload is malformed is outside this property (C02 assumes well-formed exotic cells)",
                    "ToString is modelled by its line count and budget (the hex text of a line is C06's ToFiftHex); string "
                    "concatenation cost (O(depth * output)) is covered by the 10 s limit only"],
}

META = {
    'text': ("Machine-checked proof (Coq) over a model of the repaired BOC parser in which every Go slice, index and "
             "make() carries its panic condition: the parser returns Ok or Err for every byte string (never Panic), its "
             "modelled allocations are bounded by 640*len bytes, every returned cell has <= 1023 bits and <= 4 refs with "
             "all references strictly forward and in range and all roots in range, hence the unfolding to a tree is "
             "total (recursion over references terminates). The extracted model (incl. a Gallina SHA-256 for the root "
             "hashes) is run against boc.DeserializeBoc in a memory-limited child on valid, truncated, substituted, "
             "adversarial and random inputs. Strengthened: coq/Properties/C07_print.v proves that the model of "
             "Cell.ToString's budgeted traversal (shared budget BOCSizeLimit=65536) never steps over zero and prints at most "
             "262145 lines for every root of every accepted byte string whatever the sharing (4^k paths), and the number of "
             "lines the implementation prints is compared with that model (kind c07.lines). New generator families "
             "'consistent-huge' (huge cell/root counts with a consistent tot_cells_size), 'sharing' (5..60 cells, up to 4^59 "
             "paths) and 'empty-cells'; an allocation oracle (TotalAlloc delta <= 1024*len+32768) and print / hash / "
             "re-serialise oracles (10 s, line and size bounds) are evaluated in the guarded child."),
    'design_ref': 'DESIGN.md §6 C07',
    'note': ("Trusted: Coq kernel, extraction, drivers, Go harness. Real allocator/stack behaviour is runtime (observed "
             "via the child's address-space limit and timeout); the allocation theorem is about the sum of modelled make() "
             "capacities, and the real allocator is tied to it only by the measured oracle TotalAlloc <= 1024*len+32768. "
             "ToString is modelled by its line count and budget (the hex text of a line is C06's ToFiftHex); its string "
             "concatenation cost is covered by the 10 s limit only. Hashing a cell whose exotic payload is malformed is "
             "outside this property."),
    'technique': ('Coq totality/soundness proof of a panic-annotated parser model + extracted-model correspondence on malformed inputs '
                  '+ proved bound on the budgeted ToString traversal; allocation and print oracles in a guarded child'),
}
