PROP = {
    'level': 'proof',
    'coq': ['Properties/C10.v'],
    'coq_gen': ['Properties/C10_gen.v'],
    'rule': ("values of every TL binding type of package liteclient (found by reflection from the request methods of "
             "Client plus the unreferenced types), built by reflection from one PRNG: canonical values (a fully populated "
             "random value encoded and decoded once, so optional fields are present exactly when Go thinks the mode bit is "
             "set; all 256 low mode bytes per type with optional fields in the thorough tier, every 5th in quick; vectors "
             "0..50, nested sums, byte strings biased to 252..260) through MarshalTL, and MarshalTL output ++ junk through "
             "UnmarshalTL; arbitrary values with nil pointers/slices regardless of the mode; truncated and byte-substituted "
             "encodings; a byte-string sweep of every length 0..1100 (0..300 + sampled in quick) and around 2^16 and 2^18 "
             "through both directions against an independent reference layout; EncodeLength up to 2^24-1; 2^24-1 and 2^24 "
             "bytes on the implementation alone; byte strings across readN's threshold 4096 and io.CopyN's 32 KiB chunk "
             "(4092..4100, 8191..8193, 32767..32769); vectors at and across the decoder's internal constants "
             "(4095/4096/4097, 8191/8192/8193, 65535/65536/65537 in the thorough tier, 65537 for []uint32 in quick) for "
             "[]uint32, []uint64, [][]byte, []Int256, nested [][]uint32 (long outside and long inside), a vector of a small "
             "struct with optional fields, through tl.Marshal/tl.Unmarshal on the basic kinds (kinds c10.bmarshal / "
             "c10.bunmarshal) and inside real binding types (getConfigParams param_list, getLibraries library_list, "
             "blockTransactions ids, transactionList ids), through LiteapiRequestDecoder and through a request method's "
             "answer, with the oracle decoded length = announced length, junk suffix left unread, re-encode = input; the "
             "hand-written codecs (kind c10.hand): ton.AccountID, ton.BlockID (reflection walk), ton.BlockIDExt "
             "(MarshalTL and UnmarshalTL([]byte), also 79/81 bytes), tlb.VmStack (TL framing of the BOC) with "
             "non-palindromic workchains (1, 2, 0x01020304, 0x80000000, -2, ...), shard and seqno boundary values, each "
             "compared with the model, with tl_encode/tl_decode of its lite_api.tl declaration inside the model, and "
             "cross-checked on the implementation against the generated codec of the same declaration "
             "(LiteServerAccountIdC, TonNodeBlockIdC, TonNodeBlockIdExtC incl. ToBlockIdExt); "
             "liteclient's own framing: the private encodeLength/decodeLength/alignBytes (hook) at every length 0..1100 "
             "(0..600 quick), 4095..4097, 65535..65537, 2^24-2, 2^24-1 and malformed prefixes, compared with the model, "
             "with the TL prefix and with tl.EncodeLength; Client.Request with raw queries of every length 0..1100 "
             "(0..300 quick; the generated bindings only ever hand it multiples of 4) and answers of every length over an "
             "in-process pipe, the ADNL payload compared with the model, with AdnlMessage.MarshalTL and read back by "
             "tl.Unmarshal, the caller's buffer checked unchanged; WaitMasterchainSeqno / WaitMasterchainBlock (query "
             "prefix, hand-written ids, answer dispatch); foreign words (byte-swapped Bool ids, true#3fedd339, 0, 1, "
             "id+-1, swapped, ffffffff, random) substituted at every aligned word of a valid encoding of every type, at "
             "the word of every Bool field located by flipping the field (oracle: only the two Bool ids parse), into a bool "
             "on its own, through LiteapiRequestDecoder and through request methods' answers; "
             "truncated inputs: every proper prefix must be refused (oracle) and the model must agree - byte strings of 0..8193 "
             "bytes on both sides of readN's 4096 threshold as the last field (bytes field, string field, bare []byte) cut in "
             "the header, around 256/1024/4096/8192 and at every multiple of 4 inside the data (strided in quick), vectors of "
             "2/4095/4096/4097/4100/8193 items (bare and as getConfigParams.param_list) cut the same way, and a small valid "
             "encoding of every type (every cut point in the thorough tier); a complete valid body under a foreign constructor "
             "id (another id of the schema, neighbour, byte-swapped, zero, random) offered to every generated request method, "
             "to LiteapiRequestDecoder and to the hand-written WaitMasterchainSeqno / WaitMasterchainBlock (oracle: refused); "
             "every LiteServer*/LiteProxy* method of Client over an in-process pipe "
             "with a scripted server (payload captured; answers: boxed result, boxed liteServer.error, foreign tag, "
             "truncated); LiteapiRequestDecoder on every function's request; unsafe.Sizeof and ToCamelCase. The extracted "
             "model (mini-language semantics on the terms translated from generated.go) must print the same bytes/values, "
             "and inside the model the wire-format spec on the translated lite_api.tl must agree whenever it is defined "
             "('specdiff/'nonspec otherwise). Oracles on the implementation: round trip with junk suffix, length multiple "
             "of 4, reference bytes layout, 2^24 refused, `go run generator.go` in a scratch module reproduces "
             "liteclient/generated.go and tlb/integers.go. A class is (kind, family, type category, size bucket, outcome)."),
    'explanation': ("coq/Properties/C10.v: for every schema with distinct constructor ids the TL wire format round-trips and is "
                    "prefix-free; byte strings are 4-aligned with the 0xfe escape exactly from 254 bytes; the model of "
                    "tl.Marshal/Unmarshal equals the spec; matches_sound: if matches_all S F B then for every served type and "
                    "all values MarshalTL = tl_encode, UnmarshalTL inverts it on any continuation, request payloads are the "
                    "declared id followed by the arguments, answers are dispatched on the declared result and error ids. "
                    "coq/Properties/C10_gen.v re-runs the checker by vm_compute on lite_api.tl and generated.go/extensions.go as "
                    "translated on this run and instantiates the theorems for every declaration and function; the hand-written "
                    "codecs ton.AccountID, ton.BlockID, ton.BlockIDExt, tlb.VmStack (framing) have layout theorems (bytes = "
                    "tl_encode of liteServer.accountId / tonNode.blockId / tonNode.blockIdExt as declared today) and round-trip "
                    "theorems; liteclient's private length prefix, alignment and the hand-assembled adnl.message.query / "
                    "liteServer.query / answer frames have layout theorems (encodeLength = TL prefix with the escape exactly "
                    "from 254, decodeLength inverts it, Request's payload = tl_encode of adnl.message.query as declared "
                    "today); the Bool decoder accepts exactly the two constructor ids (C10_bool_decoder_exact; the lenient "
                    "design is refuted); C10_gen pins the list of functions in tl, liteclient, liteapi, ton that contain the "
                    "literal 254 or a Bool id to the sites the harness drives; a byte string whose data ends before its announced "
                    "length is refused on both sides of the 4096 threshold (C10_bytes_truncated_refused; the read-what-arrived "
                    "design is refuted) and an answer under a foreign constructor id is refused "
                    "(C10_response_foreign_id_refused)."),
    'assumptions': ["values in the domain of the wire-format spec: ints below 2^32/2^64, byte strings below 2^24 bytes, optional "
                    "fields present exactly when the mode bit is set, nesting depth below 64 (lite_api.tl nests 5 deep)",
                    "the Go reader is more liberal than the strict TL reader (non-zero padding, long form for short strings): "
                    "only 'spec accepts => Go returns the same' is proved",
                    "translator and mini-language semantics are trusted by correspondence; allocation/totality of the decoder is C08",
                    "the models of the hand-written codecs are hand transcriptions tied by correspondence; of tlb.VmStack only "
                    "the TL framing is in scope (the cell codec is C03)"],
}

META = {
    'text': ("Machine-checked proof (Coq): a TL wire-format spec written from the TL specification (little-endian ints, raw "
             "int256, length-prefixed zero-padded byte strings with the 254 escape, Bool ids, 32-bit-counted vectors, mode.N? "
             "fields, constructor ids before boxed values and requests) round-trips and is prefix-free for every schema; a "
             "model of tl/encoder.go, tl/decoder.go and of the generated method bodies equals that spec for every schema and "
             "binding set accepted by a proved checker (matches_sound), including request payloads and the dispatch of "
             "answers on result/error ids. The checker is re-run by vm_compute on lite_api.tl and on the structure of every "
             "MarshalTL/UnmarshalTL/request method extracted from generated.go and extensions.go on each run, so the theorems "
             "hold for all values of the ~75 checked-in types and 29 functions; the extracted model reproduces the "
             "implementation's bytes and values on generated cases, and re-running both generators reproduces "
             "liteclient/generated.go and tlb/integers.go byte for byte. The hand-written TL codecs outside the generated file "
             "(ton.AccountID, ton.BlockID, ton.BlockIDExt, the TL framing of tlb.VmStack, tl.Int256, LiteServerSignatureSet) are "
             "modelled too, proved to write the layout of their lite_api.tl declarations, and compared with the implementation "
             "and with the generated codecs of the same declarations."),
    'design_ref': 'DESIGN.md §6 C10 / C09',
    'note': ("Trusted: Coq kernel, extraction, drivers, Go harness, the go/ast extractor and the mini-language semantics "
             "(validated by differential execution on every binding type and request method). One defect repaired: tl.Marshal "
             "encoded byte strings of 2^24 bytes or more with a wrapped length."),
    'technique': 'Coq spec + proved checker (translation validation of generated bindings by vm_compute) + extracted-model correspondence',
}

# ROUND-8-APPEND-2
PROP['rule'] += ' Round 8: the reflection codec on targets the bindings do not use today (oracles on the implementation, c10_r8.go): kind c10.array - fixed-size byte arrays [N]byte for N in 0..300 (0,1,2,3,4,5,7,8,12,16,20,28,31,32,33,36,64,253..256,300, named array types too), bare, as a struct field followed by a word, as a vector item and as a sum variant, fed with the TL byte string of every length 0..N+5 (boundary lengths for the large N) in short and 0xfe long form: refused unless the length is exactly N, at N the value, the unread junk suffix and the re-encoding are checked (c10-array-length / c10-array-layout); kind c10.sumpos - reflectively coded sum types (declared with embedded tl.SumType at head/middle/tail, and reflect.StructOf with 1..5 variants, SumType embedded or named at every position, payloads struct/empty struct/u32/i64/bytes/string/bool/[32]byte), every variant selected, alone, by pointer, between two words of a struct and in vectors of 1/K/K+2 items: tl.Marshal = constructor id ++ reference bytes of the payload, tl.Unmarshal gives the value (discriminator + selected variant) back and leaves the junk suffix (c10-sum-position).'
