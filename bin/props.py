"""Per-property configuration of bin/check."""

PROPS = {
    'C06': {
        'level': 'proof',
        'coq': ['Properties/C06.v'],
        'coq_gen': ['Properties/C06_gen.v'],
        'rule': ("operation sequences on boc.BitString from one PRNG: planned write-then-read sequences "
                 "(all writers/readers, widths 0..64 biased to 0,1,7,8,9,56,57,63,64, big widths 1..257, "
                 "random 0..16 bit pad to vary alignment, direct round-trip oracle), random op soup with "
                 "overflow/underflow/reset (prefix-preservation oracle), fast-path sweep offset x width "
                 "(exhaustive 1024x65 in the thorough tier) checked against the ideal bit list, Fift hex of "
                 "every length (thorough) + malformed strings, minBitsRequired on 2^k, 2^k-1, 2^k+1. "
                 "A class is (case kind, generator family, alignment / width bucket, outcome ok|err|panic); "
                 "distinct_nontrivial counts the distinct classes that occurred."),
        'explanation': ("Theorems in coq/Properties/C06.v hold for the Gallina model of boc/bitString.go for all "
                        "inputs; coq/Properties/C06_gen.v re-checks the de Bruijn table, the integer literals of "
                        "minBitsRequired and the suffixToBits map translated from today's source; the extracted "
                        "model is run against the Go implementation on every generated case."),
        'assumptions': ["slice aliasing of ReadBytes results is not modelled",
                        "negative widths (Go panics) are outside the property's quantifier"],
    },
}
