"""Per-property configuration of bin/check."""

PROPS = {
    'C06': {
        'level': 'proof',
        'coq': ['Properties/C06.v'],
        'coq_gen': ['Properties/C06_gen.v'],
        'rule': ("operation sequences on boc.BitString from one PRNG: planned write-then-read sequences "
                 "(all writers/readers, widths 0..64 biased to 0,1,7,8,9,56,57,63,64, big widths 1..257, "
                 "random 0..16 bit pad to vary alignment, direct round-trip oracle), random op soup with "
                 "overflow/underflow/reset (prefix-preservation oracle), fast-path sweep offset x width "
                 "(exhaustive 1024x65 in the thorough tier) checked against the ideal bit list, Fift hex of "
                 "every length (thorough) + malformed strings, minBitsRequired on 2^k, 2^k-1, 2^k+1. "
                 "A class is (case kind, generator family, alignment / width bucket, outcome ok|err|panic); "
                 "distinct_nontrivial counts the distinct classes that occurred."),
        'explanation': ("Theorems in coq/Properties/C06.v hold for the Gallina model of boc/bitString.go for all "
                        "inputs; coq/Properties/C06_gen.v re-checks the de Bruijn table, the integer literals of "
                        "minBitsRequired and the suffixToBits map translated from today's source; the extracted "
                        "model is run against the Go implementation on every generated case."),
        'assumptions': ["slice aliasing of ReadBytes results is not modelled",
                        "negative widths (Go panics) are outside the property's quantifier"],
    },
    'C07': {
        'level': 'proof',
        'coq': ['Properties/C07.v'],
        'coq_gen': ['Properties/C07_gen.v'],
        'rule': ("byte strings fed to boc.DeserializeBoc in a child process (address-space limit, 20 s timeout): valid "
                 "seeds (own output with the 8 option combinations, an independent reference serialiser with every "
                 "header variant: three magics, index, CRC, cache bits, over-wide size/offset fields, stored hashes, "
                 "multi-root; wallet code BOCs; real blocks), every truncation, single-byte substitutions (header "
                 "positions x 19 boundary values, body sampled), hand-built adversarial headers (huge counts and "
                 "widths, out-of-range root/ref indices, self/backward refs, hash-carrying and exotic cells without "
                 "data, depth 1023/1024/1025 chains), a size x off_bytes x count grid, random multi-byte mutations, "
                 "random bytes. Compared with the model: outcome class and, per root, hash, depth, level, bit size, "
                 "ref count, exotic flag, type. Oracle on the implementation: no crash/timeout, returned cells have "
                 "<= 1023 bits, <= 4 non-nil refs, printing and re-serialising terminate and re-parse. A class is "
                 "(stream, position/size bucket, outcome)."),
        'explanation': ("coq/Properties/C07.v: the model of the (repaired) parser never returns Panic, allocates at most "
                        "a*len+b bytes in its modelled make() calls, and every successful parse yields cells with <= 1023 "
                        "bits, <= 4 refs, references strictly forward and in range, roots in range, so that the unfolding "
                        "to a tree (hence hashing/printing/serialising by recursion over it) is total."),
        'assumptions': ["the Go allocator, stack and scheduler are runtime; allocation is modelled as the sum of make() capacities",
                        "Hash() of a cell whose exotic payload is malformed is outside this property (C02 assumes well-formed exotic cells)"],
    },
    'C02': {
        'level': 'proof',
        'coq': ['Properties/C02.v'],
        'coq_gen': ['Properties/C07_gen.v'],
        'rule': ("cell DAGs built bottom-up so that the exotic-cell rules hold (pruned branch with masks 1..7, library, "
                 "Merkle proof, Merkle update, ordinary cells whose mask is the OR of the children's) plus ordinary random "
                 "DAGs; for the chosen root the implementation's hash and depth at levels 0..3 and Level() are compared "
                 "with the extracted model (Gallina SHA-256); oracles on the implementation: Cell.Hash = level-3 hash, "
                 "caching hasher (twice) = plain, unchanged after reads, equal for the cell parsed from a reference-"
                 "serialised BOC and for the same structure rebuilt without pointer sharing; root cells of real blocks "
                 "(Merkle updates with pruned branches) through parse. A class is (family, root cell type, root mask, outcome)."),
        'explanation': ("coq/Properties/C02.v: for every hash function, every tree over all cell types with masks 0..7 and "
                        "every level, the model of newImmutableCell/Hash/Depth equals the declarative representation hash "
                        "(Spec/ReprHash.v); evaluation of a shared array (cache) equals evaluation of the unfolded tree."),
        'assumptions': ["SHA-256 is a parameter of the theorems; the Gallina SHA-256 used by the executable model is checked "
                        "against crypto/sha256 by every compared hash",
                        "level masks above 7 cannot be produced by the parser (d1 >> 5) and are outside the theorem"],
    },
    'C01': {
        'level': 'proof',
        'coq': ['Properties/C01.v', 'Properties/C01_layout.v', 'Properties/C01_reorder.v', 'Properties/C01_serialize.v'],
        'coq_gen': ['Properties/C07_gen.v'],
        'rule': ("random cell DAGs (1..120 cells quick, sizes crossing 255/256, chains of depth 1023/1024, wide fans, heavy "
                 "sharing, all bit lengths, valid exotic cells) serialised with the 8 option combinations: the bytes of "
                 "Cell.ToBocCustom are compared exactly with the extracted model of importCell/reorderCells/revisit/"
                 "serializeBoc, and both sides attach a certificate (own output parses to one root with the same hash; "
                 "model: every cell stored once and the cell count equals the number of distinct reachable hashes; "
                 "implementation: structurally identical root). Oracles on the implementation: header cell count = "
                 "number of distinct sub-cell hashes, same bytes for the same structure rebuilt without pointer sharing, "
                 "BOCs written by an independent reference serialiser (3 magics, index, CRC, cache bits, over-wide "
                 "fields, stored hashes, several roots) parse to the intended hash and structure. A class is (family, "
                 "options, size bucket, outcome)."),
        'explanation': ("coq/Properties/C01.v: the parser inverts the BOC layout for every header variant and every "
                        "topological order (parse_layout).  coq/Properties/C01_reorder.v: for every post-order cell array and "
                        "arbitrary weights, reorderCells/revisit never run out of fuel, emit every reachable cell exactly once "
                        "(a permutation of the imported cells), remap every reference exactly once to a strictly smaller new "
                        "index (so the emitted order has references strictly forward: the premise of parse_layout) and return "
                        "the roots' new indices; importRoots/importCell establish the precondition (reorder_valid, "
                        "import_roots_valid).  coq/Properties/C01_serialize.v: for every array, hash list, root list and all 8 option "
                        "combinations the bytes returned by the serialiser model are exactly layout(v, cells, roots') where v is the "
                        "generic variant determined by the options with minimal size/off_bytes, no stored hashes and the index as "
                        "written, cells are the imported cells in reverse allocation order with references remapped to emitted "
                        "positions, and the layout satisfies layout_ok (serialize_is_layout); hence parse(serialize) returns these "
                        "cells and, when equal hashes mean equal trees on the reachable cells, every parsed root unfolds to the same "
                        "tree as the input root (boc_roundtrip_model, boc_roundtrip_total) and the number of stored cells equals the "
                        "number of distinct reachable hashes (stored_once); the model's only errors are the depth limit, the output "
                        "capacity (characterised exactly) or a hasher error, and it succeeds with 1..8 roots and depth <= 1024.  The "
                        "per-output certificate remains only as a redundant run-time cross-check."),
        'assumptions': ["fewer than 2^24 cells (WriteInt(refByteSize,3) writes 0 for 4)",
                        "de-duplication is by SHA-256 hash: 'stored once' assumes no collision among the sub-cells",
                        "input cells have a 3-bit level mask and a type byte consistent with their data (exotic: >= 8 data bits, type = first data byte != 0); the serialiser does not write the type separately",
                        "fewer than 256 roots (the root count is written in `size` bytes unchecked; public entry points pass one root); success theorem: 1..8 roots",
                        "'structurally identical' and 'stored once' assume SHA-256 is collision-free and a function of the structure on the cells reachable from the roots (explicit hypotheses collision_free / hash_functional)"],
    },
    'C18': {
        'level': 'proof',
        'coq': ['Properties/C18.v'],
        'coq_gen': [],
        'rule': ("dictionaries (key widths 8..256, 1..60 entries, shapes: random / long common prefixes / runs / dense) built "
                 "by an independent encoder with minimal or random label forms per edge, x present keys (first, last, random; "
                 "all in the thorough tier) and absent keys (random, one bit away from a present key): proof bytes of "
                 "tlb.ProveKeyInHashmap vs the extracted model (label walk, prune, Merkle-proof cell, serialiser); random "
                 "cell trees x random prune sets through Cursor.Ref/Prune: CreateProof bytes vs model. Oracles on the "
                 "implementation: proof is a single-root BOC whose root is a level-0 Merkle-proof cell with 03|hash|depth of "
                 "the original root, the child's level-0 hash/depth equal them, every pruned branch stores 01 01|hash|depth of "
                 "the replaced subtree, the value for the key is readable along the key path, absent keys yield an error. "
                 "A class is (stream, width bucket, label forms, size bucket, outcome)."),
        'explanation': ("coq/Properties/C18.v: for every hash function with 32-byte output, every tree without pruned/Merkle "
                        "cells and every prune set: pruning preserves the level-0 hash and depth, pruned branches store the "
                        "replaced subtree's hash/depth, the proof root commits to the original root, unpruned positions keep "
                        "their data; a proof is produced only if the walk spells the key."),
        'assumptions': ["source trees containing pruned-branch or Merkle cells are outside the theorem (the library does not support them either)",
                        "absence of a key is characterised by the walk not spelling it; the link to the abstract dictionary map is C05's"],
    },
}


# ---- per-property entries written by the builders: bin/props.d/Cxx.py, each defining
# PROP = {...} (same keys as above) and META = {'text','design_ref','note','technique'}
import glob as _glob, os as _os
EXTRA_META = {}
for _f in sorted(_glob.glob(_os.path.join(_os.path.dirname(_os.path.abspath(__file__)), 'props.d', 'C*.py'))):
    _pid = _os.path.basename(_f)[:-3]
    # only properties the integrator has wired into the build are registered
    if _pid not in open(_os.path.join(_os.path.dirname(_f), 'ENABLED')).read().split():
        continue
    _ns = {}
    exec(compile(open(_f).read(), _f, 'exec'), _ns)
    PROPS[_pid] = _ns['PROP']
    EXTRA_META[_pid] = _ns['META']
