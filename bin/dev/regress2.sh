#!/bin/bash
# regress2.sh LANE NLANES : every seeded change except round 6 (just run)
cd /verif
i=0
for d in $(ls -d seeded/C*/ | grep -v r6m | sort); do
  x=$(basename $d)
  i=$((i+1))
  [ $((i % $2)) -eq $1 ] || continue
  p=${x%%-*}
  out=$(bin/mutrun seeded/$x $p 2>&1 | grep -v conda | tail -6)
  v=$(echo "$out" | grep -c VIOLATION)
  echo "$x $v $(echo "$out" | tail -1 | sed 's/.*exit=/exit=/') $(echo "$out" | grep -c PATCH-DOES-NOT-APPLY)"
done
