#!/bin/bash
# usage: runmuts.sh ID...   (e.g. C03-m1)
cd /verif
for x in "$@"; do
  p=${x%%-*}
  bin/confirm_mut seeded/$x 2>&1 | grep -v conda | grep "CONFIRMED" | cut -c1-300 > seeded/$x/confirm.log
  bin/mutrun seeded/$x $p 2>&1 | grep -v conda | tail -6 > seeded/$x/mutrun.log
  echo "== $x: $(cut -c1-14 seeded/$x/confirm.log) / $(grep -c VIOLATION seeded/$x/mutrun.log) violations / $(tail -1 seeded/$x/mutrun.log)"
done
