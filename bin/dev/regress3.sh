#!/bin/bash
# regress3.sh PROP... : every seeded change of the given properties against the current checks
cd /verif
for P in "$@"; do
for d in $(ls -d seeded/$P-*/ | sort); do
  x=$(basename $d)
  out=$(bin/mutrun seeded/$x $P 2>&1 | grep -v conda | tail -6)
  v=$(echo "$out" | grep -c VIOLATION)
  echo "$x $v $(echo "$out" | tail -1 | sed 's/.*exit=/exit=/') $(echo "$out" | grep -c PATCH-DOES-NOT-APPLY)"
done
done
