#!/bin/bash
# scratchrun.sh Cxx [tier] [seed-args...] : the property's check in a scratch copy of /verif against /repo itself
# (no patch) — lets several builders validate on the unchanged tree without disturbing /verif/work.
p="$1"; tier="${2:-quick}"; shift; shift
V=/tmp/scratchverif-$p-$$
trap 'rm -rf "$V"' EXIT
mkdir -p "$V"; rsync -a --exclude .git --exclude work --exclude replays /verif/ "$V"/
cd "$V" && timeout 3000 bin/check "$p" --tier "$tier" "$@" 2>&1 | grep -v conda | sed "s|$V|/verif|g" | tail -12
echo "scratchrun: property=$p exit=${PIPESTATUS[0]}"
