#!/bin/bash
cd /verif
for x in "$@"; do
  p=${x%%-*}
  bin/mutrun seeded/$x $p 2>&1 | grep -v conda | tail -6 > seeded/$x/mutrun.log
  echo "== $x: $(grep -c VIOLATION seeded/$x/mutrun.log) violations / $(tail -1 seeded/$x/mutrun.log)"
done
