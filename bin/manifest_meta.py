HOOK_COMMITS = ['81c746f']

META = {
    'C06': {
        'text': ("Machine-checked proof (Coq) that the model of boc/bitString.go refines an ideal bit list: every "
                 "writer appends exactly its encoding or fails with Overflow keeping the prefix, every reader "
                 "(incl. the three ReadUint paths and the 16-bit load of ReadByte, at every alignment) returns the "
                 "decoding of the next bits or NotEnoughBits with the state unchanged, write-then-read over item "
                 "lists of any length, two's complement, minBitsRequired = N.size via the de Bruijn table, Fift hex "
                 "round trip. The model is tied to the code by running the extracted model against the Go "
                 "implementation on generated operation sequences and by obligations over tables translated from "
                 "the source."),
        'design_ref': 'DESIGN.md §6 C06',
        'note': ("Trusted: Coq kernel, extraction (ExtrOcamlBasic), OCaml driver, Go harness; the model is "
                 "hand-written and validated by differential execution, not derived from the Go source. Aliasing of "
                 "returned slices and negative widths are not modelled."),
        'technique': 'Coq refinement proof + extracted-model correspondence + translated-table obligations',
    },
}

NOT_APPLICABLE = []
