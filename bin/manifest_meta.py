HOOK_COMMITS = ['81c746f', 'eeb4891', '0c7b54f', '27186c1', 'cf21213', '5ec0756', 'b0c5ae0', 'f86ee60', 'c66048e', '715d408', '40d5ed3', '4419488']

META = {
    'C06': {
        'text': ("Machine-checked proof (Coq) that the model of boc/bitString.go refines an ideal bit list: every "
                 "writer appends exactly its encoding or fails with Overflow keeping the prefix, every reader "
                 "(incl. the three ReadUint paths and the 16-bit load of ReadByte, at every alignment) returns the "
                 "decoding of the next bits or NotEnoughBits with the state unchanged, write-then-read over item "
                 "lists of any length, two's complement, minBitsRequired = N.size via the de Bruijn table, Fift hex "
                 "round trip. The model is tied to the code by running the extracted model against the Go "
                 "implementation on generated operation sequences and by obligations over tables translated from "
                 "the source."),
        'design_ref': 'DESIGN.md §6 C06',
        'note': ("Trusted: Coq kernel, extraction (ExtrOcamlBasic), OCaml driver, Go harness; the model is "
                 "hand-written and validated by differential execution, not derived from the Go source. Aliasing of "
                 "returned slices and negative widths are not modelled."),
        'technique': 'Coq refinement proof + extracted-model correspondence + translated-table obligations',
    },
}

META['C07'] = {
    'text': ("Machine-checked proof (Coq) over a model of the repaired BOC parser in which every Go slice, index and "
             "make() carries its panic condition: the parser returns Ok or Err for every byte string (never Panic), its "
             "modelled allocations are bounded by 640*len bytes, every returned cell has <= 1023 bits and <= 4 refs with "
             "all references strictly forward and in range and all roots in range, hence the unfolding to a tree is "
             "total (recursion over references terminates). The extracted model (incl. a Gallina SHA-256 for the root "
             "hashes) is run against boc.DeserializeBoc in a memory-limited child on valid, truncated, substituted, "
             "adversarial and random inputs."),
    'design_ref': 'DESIGN.md §6 C07',
    'note': ("Trusted: Coq kernel, extraction, drivers, Go harness. Real allocator/stack behaviour is runtime (observed "
             "via the child's address-space limit and timeout); the allocation theorem is about the sum of modelled make() "
             "capacities. Hashing a cell whose exotic payload is malformed is outside this property."),
    'technique': 'Coq totality/soundness proof of a panic-annotated parser model + extracted-model correspondence on malformed inputs',
}

META['C02'] = {
    'text': ("Machine-checked proof (Coq), for an arbitrary hash function: the model of the hashing loop of "
             "newImmutableCell (hash index / offset bookkeeping, pruned-branch stored hashes, Merkle child level +1, "
             "descriptor bytes, completion tag, depth limit) returns at every level 0..3 (and above) exactly the hash and "
             "depth of a declarative recursion-on-level definition of the TON representation hash on cell trees, for all "
             "trees with masks 0..7 and all five cell types; evaluating a shared cell array once per cell (the cache) "
             "equals evaluating the unfolded tree. The extracted model with a Gallina SHA-256 is compared with the "
             "implementation at all four levels on generated exotic DAGs and on real blocks."),
    'design_ref': 'DESIGN.md §6 C02',
    'note': ("Trusted: Coq kernel, extraction, drivers, Go harness, the hand-written declarative spec (from the TON "
             "whitepaper / DataCell.cpp rules). The model is tied to the Go code by correspondence."),
    'technique': 'Coq proof: implementation loop = declarative spec (8-mask case analysis lifted over all trees) + extracted-model correspondence',
}

META['C01'] = {
    'text': ("Coq: (i) theorem parse_layout — the parser model inverts the BOC byte layout for every header variant "
             "(three magics, index/CRC/cache bits, any fitting size/offset widths, stored hashes, any absent counter), "
             "every cell order with forward references and every root list, so bags written by other conforming "
             "implementations parse to the cells they encode (with C02: to the hashes intended); (ii) the serialiser "
             "(importCell / reorderCells / revisit / serializeBoc) is modelled statement by statement, extracted and "
             "compared byte-for-byte with Cell.ToBocCustom for all 8 option combinations, and every output carries a "
             "certificate evaluated by the extracted proved parser (parses to one root with the original hash, every "
             "cell stored once, cell count = number of distinct reachable sub-cells); (iii) theorem reorder_valid / "
             "import_roots_valid — for every post-order cell array and any weights the model of reorderCells/revisit "
             "terminates within its fuel, emits each imported cell exactly once, remaps every reference exactly once to a "
             "strictly smaller new index (references strictly forward in the emitted order, the premise of parse_layout) "
             "and returns the roots' new indices; (iv) theorem serialize_is_layout — for all 8 option combinations the "
             "serialiser model's bytes are exactly the layout of the reordered cells under the variant the options determine, "
             "hence boc_roundtrip (parse(serialize) unfolds to the same tree under collision-freeness), stored_once, and an "
             "exact characterisation of when the serialiser fails (depth, capacity, hasher error)."),
    'design_ref': 'DESIGN.md §6 C01',
    'note': ("Trusted: Coq kernel, extraction, drivers, Go harness, the layout spec. 'Stored once' is up to SHA-256 "
             "collisions (explicit hypotheses of the theorems). < 2^24 cells, < 256 roots. The per-output certificate is now "
             "redundant (kept as a cross-check); the serialiser model is tied to Cell.ToBocCustom byte for byte by the run."),
    'technique': 'Coq proofs (parser inverts layout; import/reorder validity; serialiser bytes = layout; round trip) + byte-exact extracted serialiser model',
}

META['C18'] = {
    'text': ("Machine-checked proof (Coq), for any hash function with 32-byte output, over all cell trees without "
             "pruned/Merkle cells and all sets of pruned positions: pruneCells preserves the level-0 representation hash "
             "and depth (using the declarative hash of C02), each pruned-branch cell is 01 01|hash_0|depth_0 of the subtree "
             "it replaces, CreateProof's root is a level-0 Merkle-proof cell carrying the original root's hash/depth over a "
             "child with exactly that level-0 hash, cells on unpruned paths keep their data (the value stays readable), and "
             "ProveKeyInHashmap yields a proof only when the walked labels spell the key. The extracted model (label walk + "
             "prune + serialiser) reproduces the implementation's proof bytes exactly."),
    'design_ref': 'DESIGN.md §6 C18',
    'note': ("Trusted: Coq kernel, extraction, drivers, Go harness, the C02 spec. Pruning by pointer identity is resolved "
             "to positions by the harness."),
    'technique': 'Coq induction over cell trees on top of the C02 hash spec + byte-exact extracted-model correspondence',
}

# Properties not claimed at this commit.  The technique (Coq model + theorems + correspondence)
# applies to every one of them (DESIGN.md §6); an entry here means only that its check is not
# finished/registered yet.  bin/mkmanifest fills the list from properties.jsonl: every id without a
# registered check gets the reason below (or a specific one from NOT_CLAIMED_REASON).
NOT_CLAIMED_DEFAULT = ("not claimed at this commit: the Coq model/theorems/correspondence harness for this property "
                       "are not finished or not yet registered (the technique itself applies, see DESIGN.md §6)")
NOT_CLAIMED_REASON = {}
NOT_APPLICABLE = []
