(** Extraction: ExtrOcamlBasic only (bool, option, unit, list, prod, sumbool,
    sumor, andb/orb).  nat, positive, N, Z, ascii, string stay extracted
    inductive datatypes. *)
From Coq Require Import Extraction ExtrOcamlBasic.
From Tongo Require Import Harness.Dispatch.
Extraction Language OCaml.
Extraction "model.ml" Harness.Dispatch.run.
