(** Entry points for Merkle proofs (C18). *)
From Coq Require Import List NArith ZArith String Bool.
From Tongo Require Import Lib.Bits Lib.Res Lib.Sx Spec.Sha256 Model.BocParse Model.CellHash Spec.ReprHash
  Model.BocSer Model.Merkle Harness.H07 Harness.H01.
Import ListNotations.
Local Open Scope string_scope.
Local Open Scope list_scope.

(* unfold index i of a forward-referencing array to a tree (fuel = array length) *)
Fixpoint tree_at (fuel : nat) (cells : list node) (i : nat) : option cell :=
  match fuel with
  | O => None
  | S f =>
      match nth_error cells i with
      | None => None
      | Some nd =>
          let fix go (rs : list nat) : option (list cell) :=
            match rs with
            | [] => Some []
            | r :: t => match tree_at f cells r, go t with
                        | Some x, Some xs => Some (x :: xs)
                        | _, _ => None
                        end
            end in
          match go (n_refs nd) with
          | Some ts => Some (Cell (n_special nd) (n_type nd) (n_mask nd) (n_bits nd) ts)
          | None => None
          end
      end
  end.

(* array index reached from [i] along a path *)
Fixpoint index_of (cells : list node) (i : nat) (path : list nat) : option nat :=
  match path with
  | [] => Some i
  | k :: t =>
      match nth_error cells i with
      | Some nd => match nth_error (n_refs nd) k with
                   | Some r => index_of cells r t
                   | None => None
                   end
      | None => None
      end
  end.

(* flatten a tree to an array in BOC order (pre-order) *)
Fixpoint flatten (c : cell) (base : nat) : list node :=
  match c with
  | Cell special ty m data refs =>
      let fix go (rs : list cell) (cur : nat) : list nat * list node :=
        match rs with
        | [] => ([], [])
        | ch :: t =>
            let blk := flatten ch cur in
            let '(idxs, rest) := go t (cur + List.length blk)%nat in
            (cur :: idxs, blk ++ rest)
        end in
      let '(idxs, blocks) := go refs (S base) in
      mknode special ty m data idxs :: blocks
  end.

Definition ser_tree (c : cell) : sx :=
  let cells := flatten c 0 in
  match serialize cells (hashes_of cells) [0%nat] false false false with
  | Ok out => SBytes out
  | Err _ => SA "err"
  | Panic _ => SA "panic"
  end.

Definition path_of_sx (a : sx) : list nat :=
  match a with
  | SL l => map (fun x => match x with SN n => N.to_nat n | _ => 0%nat end) l
  | _ => []
  end.

(* c18.proof: (dag root (path ...)) -> proof BOC; pruning is by POSITION: the
   cursor's pruned set holds the paths at which Prune was called (a cell that
   occurs at several positions of the tree is pruned only there) *)
Definition run_proof (a : sx) : sx :=
  match a with
  | SL [SL dag; SN root; SL paths] =>
      match nodes_of_sx dag with
      | Some cells =>
          let root := N.to_nat root in
          match tree_at (S (List.length cells)) cells root with
          | Some t =>
              match create_proof sha256 (in_paths (map path_of_sx paths)) t with
              | Ok p => ser_tree p
              | Err _ => SA "err"
              | Panic _ => SA "panic"
              end
          | None => sx_err "tree"
          end
      | None => sx_err "dag"
      end
  | _ => sx_err "proof"
  end.

(* c18.key: (dag root keybits vbits) -> proof BOC | 'err | 'panic *)
Definition run_key (a : sx) : sx :=
  match a with
  | SL [SL dag; SN root; SBits key; SN vbits] =>
      match nodes_of_sx dag with
      | Some cells =>
          match tree_at (S (List.length cells)) cells (N.to_nat root) with
          | Some t =>
              match prove_key sha256 t key (N.to_nat vbits) with
              | Ok p => ser_tree p
              | Err _ => SA "err"
              | Panic _ => SA "panic"
              end
          | None => sx_err "tree"
          end
      | None => sx_err "dag"
      end
  | _ => sx_err "key"
  end.

(* c18.multi: (dag root (op ...)) -> (result ...): a history of operations on
   ONE prover; op = ('key bits vbits) | ('walk (path ...)) | ('drop (path ...)) |
   ('prog (instr ...)): a program over cursor variables, equal by definition to
   the walk that prunes the positions of its Prune instructions;
   result = proof BOC | 'err | 'panic | 'none (abandoned cursor) *)
(* instruction of a cursor program: (src k) = Ref, (v) = Prune *)
Definition instr_of_sx (a : sx) : instr :=
  match a with
  | SL [SN src; SN k] => IRef (N.to_nat src) (N.to_nat k)
  | SL [SN v] => IPrune (N.to_nat v)
  | _ => IPrune 0
  end.

Definition op_of_sx (a : sx) : option op :=
  match a with
  | SL [SA k; SBits key; SN vbits] =>
      if String.eqb k "key" then Some (OpKey key (N.to_nat vbits)) else None
  | SL [SA k; SL paths] =>
      if String.eqb k "prog" then Some (OpWalk (prog_prunes (map instr_of_sx paths)))
      else if String.eqb k "walk" then Some (OpWalk (map path_of_sx paths))
      else if String.eqb k "drop" then Some (OpDrop (map path_of_sx paths))
      else None
  | _ => None
  end.

Definition sx_of_result (r : option (res cell)) : sx :=
  match r with
  | None => SA "none"
  | Some (Ok p) => ser_tree p
  | Some (Err _) => SA "err"
  | Some (Panic _) => SA "panic"
  end.

Definition run_multi (a : sx) : sx :=
  match a with
  | SL [SL dag; SN root; SL ops] =>
      match nodes_of_sx dag with
      | Some cells =>
          let root := N.to_nat root in
          match tree_at (S (List.length cells)) cells root with
          | Some t =>
              (* the pruned set of a cursor holds positions *)
              SL (map (fun r => sx_of_result r)
                      (prover_run sha256 path_eqb t
                         (flat_map (fun o => match op_of_sx o with Some x => [x] | None => [] end) ops)))
          | None => sx_err "tree"
          end
      | None => sx_err "dag"
      end
  | _ => sx_err "multi"
  end.

(* c18.conc: (dag root rounds (op ...)) -> (result ...): the operations run
   CONCURRENTLY on one prover, each repeated [rounds] times.  The prover is
   read-only after construction, so the model of every operation is the
   operation alone: the same function as for a sequential history; [rounds]
   and the schedule do not occur in the model. *)
Definition run_conc (a : sx) : sx :=
  match a with
  | SL [dag; root; SN _; ops] => run_multi (SL [dag; root; ops])
  | _ => sx_err "conc"
  end.

(* c18.viaboc: as c18.multi; on the Go side the source tree first goes through
   SerializeBoc/DeserializeBoc (equal subtrees become ONE cell).  Positions
   do not change, so the model is the same function. *)
Definition run_viaboc (a : sx) : sx := run_multi a.

(* dispatcher of this file's kinds (private extraction; Dispatch.v has the same lines) *)
Definition run (kind : string) (a : sx) : sx :=
  if String.eqb kind "c18.proof" then run_proof a
  else if String.eqb kind "c18.key" then run_key a
  else if String.eqb kind "c18.multi" then run_multi a
  else if String.eqb kind "c18.conc" then run_conc a
  else if String.eqb kind "c18.viaboc" then run_viaboc a
  else sx_err "kind".
