(** Entry points for BOC parsing and hashing (C07, C02, C01). *)
From Coq Require Import List NArith ZArith String Bool.
From Tongo Require Import Lib.Bits Lib.Res Lib.Sx Spec.Sha256 Model.BocParse Model.CellHash.
Import ListNotations.
Local Open Scope string_scope.
Local Open Scope list_scope.

Definition sx_res {A} (f : A -> sx) (r : res A) : sx :=
  match r with Ok a => f a | Err _ => SA "err" | Panic _ => SA "panic" end.

Definition root_info (cells : list node) (imms : list (res imm)) (r : nat) : sx :=
  match nth_error cells r, nth_error imms r with
  | Some nd, Some ri =>
      SL [sx_res SBytes (do c <- ri; cell_hash c);
          sx_res SN (do c <- ri; cell_depth c);
          sx_nat (mask_level (n_mask nd));
          sx_nat (List.length (n_bits nd));
          sx_nat (List.length (n_refs nd));
          SB (n_special nd);
          SN (n_type nd)]
  | _, _ => sx_err "root index"
  end.

(* c07.parse: bytes -> 'err | 'panic | (root-info ...) *)
Definition run_parse (a : sx) : sx :=
  match a with
  | SBytes bs =>
      match parse_boc bs with
      | Ok p =>
          let imms := eval_dag sha256 0 (p_cells p) in
          SL (map (root_info (p_cells p) imms) (p_roots p))
      | Err _ => SA "err"
      | Panic _ => SA "panic"
      end
  | _ => sx_err "parse"
  end.

(* c07.alloc: bytes -> modelled allocation in bytes (for the evidence only) *)
Definition run_alloc (a : sx) : sx :=
  match a with
  | SBytes bs => match parse_boc bs with Ok p => SN (p_alloc p) | _ => SA "err" end
  | _ => sx_err "alloc"
  end.
