(** Entry points for BOC parsing and hashing (C07, C02, C01). *)
From Coq Require Import List NArith ZArith String Bool.
From Tongo Require Import Lib.Bits Lib.Res Lib.Sx Spec.Sha256 Model.BocParse Model.CellHash.
Import ListNotations.
Local Open Scope string_scope.
Local Open Scope list_scope.

Definition sx_res {A} (f : A -> sx) (r : res A) : sx :=
  match r with Ok a => f a | Err _ => SA "err" | Panic _ => SA "panic" end.

Definition root_info (cells : list node) (imms : list (res imm)) (r : nat) : sx :=
  match nth_error cells r, nth_error imms r with
  | Some nd, Some ri =>
      SL [sx_res SBytes (do c <- ri; cell_hash c);
          sx_res SN (do c <- ri; cell_depth c);
          sx_nat (mask_level (n_mask nd));
          sx_nat (List.length (n_bits nd));
          sx_nat (List.length (n_refs nd));
          SB (n_special nd);
          SN (n_type nd)]
  | _, _ => sx_err "root index"
  end.

(* c07.parse: bytes -> 'err | 'panic | (root-info ...) *)
Definition run_parse (a : sx) : sx :=
  match a with
  | SBytes bs =>
      match parse_boc bs with
      | Ok p =>
          let imms := eval_dag sha256 0 (p_cells p) in
          SL (map (root_info (p_cells p) imms) (p_roots p))
      | Err _ => SA "err"
      | Panic _ => SA "panic"
      end
  | _ => sx_err "parse"
  end.

(* c07.alloc: bytes -> modelled allocation in bytes (for the evidence only) *)
Definition run_alloc (a : sx) : sx :=
  match a with
  | SBytes bs => match parse_boc bs with Ok p => SN (p_alloc p) | _ => SA "err" end
  | _ => sx_err "alloc"
  end.

(** DAG input: list of (special mask bits (refs...)) in BOC order *)
Definition node_of_sx (a : sx) : option node :=
  match a with
  | SL [SB special; SN mask; SBits b; SL refs] =>
      let ty := if special then N_of_bits (firstn 8 b) else 0%N in
      (* a special cell of type 0 is an ordinary cell for the library *)
      let special' := special && negb (N.eqb ty 0) in
      let rs := map (fun r => match r with SN n => N.to_nat n | _ => 0%nat end) refs in
      Some (mknode special' (if special' then ty else 0%N) mask b rs)
  | _ => None
  end.

Fixpoint nodes_of_sx (l : list sx) : option (list node) :=
  match l with
  | [] => Some []
  | a :: t =>
      match node_of_sx a, nodes_of_sx t with
      | Some n, Some ns => Some (n :: ns)
      | _, _ => None
      end
  end.

Definition level_info (ri : res imm) (l : nat) : sx :=
  SL [sx_res SBytes (do c <- ri; imm_hash c l); sx_res SN (do c <- ri; imm_depth c l)].

(* c02.hashes: (dag root) -> ((hash depth) x levels 0..3, level) *)
Definition run_hashes (a : sx) : sx :=
  match a with
  | SL [SL dag; SN root] =>
      match nodes_of_sx dag with
      | Some cells =>
          let imms := eval_dag sha256 0 cells in
          match nth_error imms (N.to_nat root), nth_error cells (N.to_nat root) with
          | Some ri, Some nd =>
              SL [level_info ri 0; level_info ri 1; level_info ri 2; level_info ri 3;
                  sx_nat (mask_level (n_mask nd))]
          | _, _ => sx_err "root"
          end
      | None => sx_err "dag"
      end
  | _ => sx_err "hashes"
  end.
