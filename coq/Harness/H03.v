(** Executable entry points of the TL-B codec model (C03 / C04) for the
    correspondence driver.  A case carries the descriptor (as produced from the
    Go type by reflection) and a value; the model encodes, decodes its own
    cell, and encodes the decoded value again. *)
From Coq Require Import List NArith ZArith String Bool.
From Tongo Require Import Lib.Bits Lib.Res Lib.Sx Model.TlbCore Model.VmStack Model.TlbExt Model.TlbTags.
Import ListNotations.
Local Open Scope string_scope.
Local Open Scope list_scope.

Definition small (n : N) : option nat := if (n <? 4096)%N then Some (N.to_nat n) else None.

Definition omap {A B} (f : A -> B) (o : option A) : option B :=
  match o with Some a => Some (f a) | None => None end.
Definition obind {A B} (o : option A) (f : A -> option B) : option B :=
  match o with Some a => f a | None => None end.

(** *** descriptors *)
Fixpoint ty_of (s : sx) : option ty :=
  match s with
  | SL (SA nm :: args) =>
      let is x := String.eqb nm x in
      let tys := (fix go (l : list sx) : option (list ty) :=
                    match l with
                    | [] => Some []
                    | x :: r => match ty_of x, go r with Some t, Some ts => Some (t :: ts) | _, _ => None end
                    end) in
      let alts := (fix go (l : list sx) : option (list (nat * N * ty)) :=
                    match l with
                    | [] => Some []
                    | SL [SN len; SN val; x] :: r =>
                        match small len, ty_of x, go r with
                        | Some n, Some t, Some ts => Some ((n, val, t) :: ts)
                        | _, _, _ => None
                        end
                    | _ => None
                    end) in
      if is "struct" then omap TStruct (tys args)
      else if is "sum" then omap TSum (alts args)
      else match args with
      | [] =>
          if is "bool" then Some TBool
          else if is "unary" then Some TUnary
          else if is "any" then Some TAny
          else if is "cellref" then Some TCellRef
          else if is "addr" then Some TAddr
          else None
      | [SN n] =>
          obind (small n) (fun w =>
          if is "uint" then Some (TUint w)
          else if is "int" then Some (TInt w)
          else if is "biguint" then Some (TBigUint w)
          else if is "bigint" then Some (TBigInt w)
          else if is "bits" then Some (TBits w)
          else if is "varuint" then Some (TVarUInt w)
          else None)
      | [SN n; SN v] => if is "magic" then omap (fun w => TMagic w v) (small n) else None
      | [x] =>
          if is "maybe" then omap TMaybe (ty_of x)
          else if is "eitherref" then omap TEitherRef (ty_of x)
          else if is "ref" then omap TRef (ty_of x)
          else if is "mayberef" then omap TMaybeRef (ty_of x)
          else None
      | [x; y] =>
          if is "either" then match ty_of x, ty_of y with Some l, Some r => Some (TEither l r) | _, _ => None end
          else None
      | _ => None
      end
  | _ => None
  end.

(** *** cells *)
Fixpoint cell_of (s : sx) : option ctree :=
  match s with
  | SL [SBits b; SL kids] =>
      omap (CT b)
        ((fix go (l : list sx) : option (list ctree) :=
            match l with
            | [] => Some []
            | x :: r => match cell_of x, go r with Some c, Some cs => Some (c :: cs) | _, _ => None end
            end) kids)
  | _ => None
  end.

Fixpoint cell_sx (c : ctree) : sx :=
  match c with CT b r => SL [SBits b; SL (map cell_sx r)] end.

(** *** values *)
Definition any_of (s : sx) : option (option (N * N)) :=
  match s with
  | SL [SA nm] => if String.eqb nm "none" then Some None else None
  | SL [SA nm; SN d; SN p] => if String.eqb nm "some" then Some (Some (d, p)) else None
  | _ => None
  end.

Definition addr_of (args : list sx) : option addrv :=
  match args with
  | [SA k] => if String.eqb k "none" then Some ANone else None
  | [SA k; SBits l] => if String.eqb k "ext" then Some (AExt l) else None
  | [SA k; a; SZ wc; SBits l] =>
      if String.eqb k "std" then omap (fun an => AStd an wc l) (any_of a)
      else if String.eqb k "var" then omap (fun an => AVar an wc l) (any_of a)
      else None
  | _ => None
  end.

Fixpoint val_of (s : sx) : option value :=
  match s with
  | SA nm => if String.eqb nm "unit" then Some VUnit else None
  | SL (SA nm :: args) =>
      let is x := String.eqb nm x in
      let vals := (fix go (l : list sx) : option (list value) :=
                     match l with
                     | [] => Some []
                     | x :: r => match val_of x, go r with Some v, Some vs => Some (v :: vs) | _, _ => None end
                     end) in
      if is "struct" then omap VStruct (vals args)
      else if is "addr" then omap VAddr (addr_of args)
      else match args with
      | [] => if is "maybe" then Some (VMaybe None) else None
      | [SN n] => if is "n" then Some (VN n) else None
      | [SZ z] => if is "z" then Some (VZ z) else None
      | [SB b] => if is "b" then Some (VBool b) else None
      | [SBits l] => if is "bits" then Some (VBits l) else None
      | [SBits l; SL kids] =>
          if is "any" then omap (fun c => VAny (ct_bits c) (ct_refs c)) (cell_of (SL [SBits l; SL kids])) else None
      | [SB r; x] => if is "either" then omap (VEither r) (val_of x) else None
      | [SN k; x] => if is "sum" then match small k with Some k' => omap (VSum k') (val_of x) | None => None end else None
      | [x] =>
          if is "maybe" then omap (fun v => VMaybe (Some v)) (val_of x)
          else if is "cell" then omap VCell (cell_of x)
          else None
      | _ => None
      end
  | _ => None
  end.

Definition any_sx (a : option (N * N)) : sx :=
  match a with None => SL [SA "none"] | Some (d, p) => SL [SA "some"; SN d; SN p] end.

Fixpoint val_sx (v : value) : sx :=
  match v with
  | VAddr ANone => SL [SA "addr"; SA "none"]
  | VAddr (AExt l) => SL [SA "addr"; SA "ext"; SBits l]
  | VAddr (AStd a wc l) => SL [SA "addr"; SA "std"; any_sx a; SZ wc; SBits l]
  | VAddr (AVar a wc l) => SL [SA "addr"; SA "var"; any_sx a; SZ wc; SBits l]
  | VN n => SL [SA "n"; SN n]
  | VZ z => SL [SA "z"; SZ z]
  | VBool b => SL [SA "b"; SB b]
  | VBits l => SL [SA "bits"; SBits l]
  | VUnit => SA "unit"
  | VMaybe None => SL [SA "maybe"]
  | VMaybe (Some x) => SL [SA "maybe"; val_sx x]
  | VEither r x => SL [SA "either"; SB r; val_sx x]
  | VStruct vs => SL (SA "struct" :: map val_sx vs)
  | VSum k x => SL [SA "sum"; sx_nat k; val_sx x]
  | VAny b r => SL [SA "any"; SBits b; SL (map cell_sx r)]
  | VCell c => SL [SA "cell"; cell_sx c]
  end.

Definition fuel : nat := 96.

(** c03.rt  (name descriptor value)  ->
      'err                                    the encoder refuses the value
      (cell value' rest-empty reencoded-same) otherwise:  the cell tlb.Marshal
         produces, the value tlb.Unmarshal reads back from it, whether the
         whole cell was consumed, whether encoding value' gives the cell again *)
Fixpoint bits_eqb (a b : bits) : bool :=
  match a, b with
  | [], [] => true
  | x :: a', y :: b' => Bool.eqb x y && bits_eqb a' b'
  | _, _ => false
  end.

Fixpoint cell_eqb_sx (a b : ctree) : bool :=
  match a, b with
  | CT ba ra, CT bb rb =>
      bits_eqb ba bb &&
      (fix go (l : list ctree) (m : list ctree) : bool :=
         match l, m with
         | [], [] => true
         | x :: l', y :: m' => cell_eqb_sx x y && go l' m'
         | _, _ => false
         end) ra rb
  end.

Definition run_rt_base (a : sx) : sx :=
  match a with
  | SL [_; d; v] =>
      match ty_of d, val_of v with
      | Some t, Some x =>
          match enc [] fuel t x empty_bld with
          | Ok b =>
              let c := finish b in
              match dec [] fuel t (open c) with
              | Ok (x', rest) =>
                  let again := match enc [] fuel t x' empty_bld with
                               | Ok b' => cell_eqb_sx (finish b') c
                               | _ => false
                               end in
                  SL [cell_sx c; val_sx x'; SB (match sb rest, sr rest with [], [] => true | _, _ => false end); SB again]
              | Err e => if N.eqb e EFuel then sx_err "fuel" else SL [cell_sx c; SA "decode-err"]
              | Panic _ => SA "panic"
              end
          | Err e => if N.eqb e EFuel then sx_err "fuel" else SA "err"
          | Panic _ => SA "panic"
          end
      | None, _ => sx_err "descriptor"
      | _, None => sx_err "value"
      end
  | _ => sx_err "c03.rt"
  end.

(** c03.dec  (name descriptor cell): decode a given cell (real chain data, or
    a cell the implementation produced) and encode the result again *)
(* the two tag parsers on an arbitrary string:  ('tag x<string>) -> (ParseTag-answer parseTag-answer) *)
Definition string_of_bytes (l : list N) : string :=
  fold_right (fun n acc => String (Ascii.ascii_of_N n) acc) EmptyString l.

Definition run_tag (l : list N) : sx :=
  let s := string_of_bytes l in
  SL [match parse_tag s with Some (len, v) => SL [sx_nat len; SN v] | None => SA "err" end;
      match parse_field_tag s with
      | Some t => SL [SB (ft_ref t); SB (ft_maybe t); SB (ft_maybe_ref t)]
      | None => SA "err"
      end].

Definition run_dec_cell (a : sx) : sx :=
  match a with
  | SL [_; d; c] =>
      match ty_of d, cell_of c with
      | Some t, Some c0 =>
          match dec [] fuel t (open c0) with
          | Ok (x, rest) =>
              let again := match enc [] fuel t x empty_bld with
                           | Ok b' => cell_eqb_sx (finish b') c0
                           | _ => false
                           end in
              SL [val_sx x; SB (match sb rest, sr rest with [], [] => true | _, _ => false end); SB again]
          | Err e => if N.eqb e EFuel then sx_err "fuel" else SA "err"
          | Panic _ => SA "panic"
          end
      | None, _ => sx_err "descriptor"
      | _, None => sx_err "cell"
      end
  | _ => sx_err "c03.dec"
  end.

(** c03.cur  (name descriptor value k) -> 'err | (cell):  tlb.Marshal of the
    value after the read cursors of its bit strings and cells were advanced by k:
    the encoding is a function of the value, not of read cursors *)
Definition run_cur (a : sx) : sx :=
  match a with
  | SL [_; d; v; _] =>
      match ty_of d, val_of v with
      | Some t, Some x =>
          match enc [] fuel t x empty_bld with
          | Ok b => SL [cell_sx (finish b)]
          | Err e => if N.eqb e EFuel then sx_err "fuel" else SA "err"
          | Panic _ => SA "panic"
          end
      | None, _ => sx_err "descriptor"
      | _, None => sx_err "value"
      end
  | _ => sx_err "c03.cur"
  end.

(** *** extension layer: descriptors with snake data / length-prefixed bytes *)
Fixpoint xty_of (s : sx) : option xty :=
  match s with
  | SL (SA nm :: args) =>
      let is x := String.eqb nm x in
      let tys := (fix go (l : list sx) : option (list xty) :=
                    match l with
                    | [] => Some []
                    | x :: r => match xty_of x, go r with Some t, Some ts => Some (t :: ts) | _, _ => None end
                    end) in
      let alts := (fix go (l : list sx) : option (list (nat * N * xty)) :=
                    match l with
                    | [] => Some []
                    | SL [SN len; SN val; x] :: r =>
                        match small len, xty_of x, go r with
                        | Some n, Some t, Some ts => Some ((n, val, t) :: ts)
                        | _, _, _ => None
                        end
                    | _ => None
                    end) in
      if is "xstruct" then omap XStruct (tys args)
      else if is "xsum" then omap XSum (alts args)
      else match args with
      | [] => if is "xsnake" then Some XSnake else None
      | [SN n] => if is "xlenbytes" then omap XLenBytes (small n) else None
      | [x] =>
          if is "xbase" then omap XBase (ty_of x)
          else if is "xmaybe" then omap XMaybe (xty_of x)
          else if is "xeitherref" then omap XEitherRef (xty_of x)
          else if is "xref" then omap XRef (xty_of x)
          else if is "xmayberef" then omap XMaybeRef (xty_of x)
          else None
      | [x; y] =>
          if is "xeither" then match xty_of x, xty_of y with Some l, Some r => Some (XEither l r) | _, _ => None end
          else None
      | _ => None
      end
  | _ => None
  end.

(** c03.xrt  (name xdescriptor value): as c03.rt, through the extension layer *)
Definition run_xrt (a : sx) : sx :=
  match a with
  | SL [_; d; v] =>
      match xty_of d, val_of v with
      | Some t, Some x =>
          match xenc fuel t x empty_bld with
          | Ok b =>
              let c := finish b in
              match xdec fuel t (open c) with
              | Ok (x', rest) =>
                  let again := match xenc fuel t x' empty_bld with
                               | Ok b' => cell_eqb_sx (finish b') c
                               | _ => false
                               end in
                  SL [cell_sx c; val_sx x'; SB (match sb rest, sr rest with [], [] => true | _, _ => false end); SB again]
              | Err e => if N.eqb e EFuel then sx_err "fuel" else SL [cell_sx c; SA "decode-err"]
              | Panic _ => SA "panic"
              end
          | Err e => if N.eqb e EFuel then sx_err "fuel" else SA "err"
          | Panic _ => SA "panic"
          end
      | None, _ => sx_err "descriptor"
      | _, None => sx_err "value"
      end
  | _ => sx_err "c03.xrt"
  end.

(* c03.rt serves both layers: a descriptor in the xty syntax goes through the extension layer *)
Definition run_rt (a : sx) : sx :=
  match a with
  | SL [_; d; _] => match xty_of d with Some _ => run_xrt a | None => run_rt_base a end
  | _ => sx_err "c03.rt"
  end.

(** c03.stack  (descriptor-of-VmStackValue (value ...)) ->
      'err | (cell (value' ...)):  tlb.Marshal of a tlb.VmStack and
      tlb.Unmarshal of the produced cell (the list comes back reversed) *)
Definition run_stack (a : sx) : sx :=
  match a with
  | SL [d; SL vs] =>
      let vals := (fix go (l : list sx) : option (list value) :=
                     match l with
                     | [] => Some []
                     | x :: r => match val_of x, go r with Some v, Some r' => Some (v :: r') | _, _ => None end
                     end) vs in
      match ty_of d, vals with
      | Some t, Some xs =>
          match enc_stack [] fuel t xs empty_bld with
          | Ok b =>
              let c := finish b in
              match dec_stack [] fuel t (open c) with
              | Ok l => SL [cell_sx c; SL (map val_sx l)]
              | Err e => if N.eqb e EFuel then sx_err "fuel" else SL [cell_sx c; SA "decode-err"]
              | Panic _ => SA "panic"
              end
          | Err e => if N.eqb e EFuel then sx_err "fuel" else SA "err"
          | Panic _ => SA "panic"
          end
      | None, _ => sx_err "descriptor"
      | _, None => sx_err "value"
      end
  | _ => sx_err "c03.stack"
  end.

(* c03.dec serves the decode-side cases: a cell to decode, or a tag string to parse *)
Definition run_dec (a : sx) : sx :=
  match a with
  | SL [SA nm; SBytes l] => if String.eqb nm "tag" then run_tag l else sx_err "c03.dec"
  | _ => run_dec_cell a
  end.

(** private dispatcher (the integrated build uses Harness/Dispatch.v) *)
Definition run03 (name : string) (a : sx) : sx :=
  if String.eqb name "c03.rt" then run_rt a
  else if String.eqb name "c03.dec" then run_dec a
  else if String.eqb name "c03.stack" then run_stack a
  else if String.eqb name "c03.cur" then run_cur a
  else if String.eqb name "c03.xrt" then run_xrt a
  else sx_err "unknown case kind".
