(** Executable entry points of the C05 model (dictionaries).  Values are
    tlb.Uint32 (32 bits inline, printed n<hex>); keys are printed as their bits. *)
From Coq Require Import List NArith ZArith String Bool.
From Tongo Require Import Lib.Bits Lib.Res Lib.Sx Spec.Dict Model.Hashmap Model.HashmapHist Model.HashmapAug.
Import ListNotations.
Local Open Scope string_scope.
Local Open Scope list_scope.

Definition venc_val (v : N) : bits * list cell := (bits_of 32 v, []).
Definition vdec_val (l : bits) (rs : list cell) : option N :=
  if short 32 l then None else Some (N_of_bits (firstn 32 l)).

Fixpoint sx_cell (c : cell) : sx :=
  match c with Cell b rs => SL [SBits b; SL (map sx_cell rs)] end.

Fixpoint cell_sx (a : sx) : option cell :=
  match a with
  | SL [SBits b; SL rs] =>
      let fix go (l : list sx) : option (list cell) :=
        match l with
        | [] => Some []
        | x :: t => match cell_sx x, go t with
                    | Some c, Some cs => Some (c :: cs)
                    | _, _ => None
                    end
        end in
      match go rs with Some cs => Some (Cell b cs) | None => None end
  | _ => None
  end.

Definition sx_res {A} (f : A -> sx) (r : res A) : sx :=
  match r with Ok a => f a | Err _ => SA "err" | Panic _ => SA "panic" end.

Definition sx_items (m : list (bits * N)) : sx :=
  SL (map (fun kv => SL [SBits (fst kv); SN (snd kv)]) m).

Fixpoint items_sx (l : list sx) : option (list (bits * N)) :=
  match l with
  | [] => Some []
  | SL [SBits k; SN v] :: t =>
      match items_sx t with
      | Some m => Some ((k, v) :: m)
      | None => None
      end
  | _ => None
  end.

(* Compare of the key type: IntN numeric, everything else bit order *)
Definition klt_of (sgn : bool) : bits -> bits -> bool :=
  if sgn then signed_ltb else bits_ltb.

Definition enc_mode (e : bool) (n : nat) (m : list (bits * N)) : res cell :=
  if e then encode_e venc_val n m else encode venc_val n m.
Definition dec_mode (e : bool) (n : nat) (c : cell) : res (list (bits * N)) :=
  if e then decode_e vdec_val n c else decode vdec_val n c.

(* c05.encode: (n signed hashmapE ((key value) ...)): Put in that order, Marshal
   -> cell tree | 'err *)
Definition run_encode (a : sx) : sx :=
  match a with
  | SL [SN n; SB sgn; SB e; SL kvs] =>
      match items_sx kvs with
      | Some l => sx_res sx_cell (enc_mode e (N.to_nat n) (puts bits_eqb (klt_of sgn) l []))
      | None => sx_err "encode items"
      end
  | _ => sx_err "encode"
  end.

(* c05.raw: (n signed hashmapE ((key value) ...)): NewHashmap(E)(keys, values) with
   the slices exactly in that order (duplicates allowed), Marshal -> cell tree | 'err
   (the flag [signed] only selects the Go key type; Compare is not involved) *)
Definition run_raw (a : sx) : sx :=
  match a with
  | SL [SN n; SB _; SB e; SL kvs] =>
      match items_sx kvs with
      | Some l => sx_res sx_cell (enc_mode e (N.to_nat n) l)
      | None => sx_err "raw items"
      end
  | _ => sx_err "raw"
  end.

(* c05.decode: (n hashmapE cell) -> ((key value) ...) | 'err *)
Definition run_decode (a : sx) : sx :=
  match a with
  | SL [SN n; SB e; c] =>
      match cell_sx c with
      | Some c => sx_res sx_items (dec_mode e (N.to_nat n) c)
      | None => sx_err "decode cell"
      end
  | _ => sx_err "decode"
  end.

(* annotated Patricia trees: ('l form label value) / ('f form label left right),
   form = 's | 'l | 'a0 | 'a1 *)
Definition form_sx (a : sx) : option form :=
  match a with
  | SA s =>
      if String.eqb s "s" then Some FShort
      else if String.eqb s "l" then Some FLong
      else if String.eqb s "a0" then Some (FSame false)
      else if String.eqb s "a1" then Some (FSame true)
      else None
  | _ => None
  end.

Fixpoint apt_sx (a : sx) : option (apt N) :=
  match a with
  | SL [SA tag; f; SBits lbl; SN v] =>
      if String.eqb tag "l" then
        match form_sx f with
        | Some f => Some (ALeaf f lbl v)
        | None => None
        end
      else None
  | SL [SA tag; f; SBits lbl; l; r] =>
      if String.eqb tag "f" then
        match form_sx f, apt_sx l, apt_sx r with
        | Some f, Some l, Some r => Some (AFork f lbl l r)
        | _, _, _ => None
        end
      else None
  | _ => None
  end.

(* c05.cells: (n tree) -> the cells of the spec serialisation [cells_of] with
   the given label form per edge (compared with an independent Go encoder) *)
Definition run_cells (a : sx) : sx :=
  match a with
  | SL [SN n; t] =>
      match apt_sx t with
      | Some t => sx_res sx_cell (cells_of venc_val (N.to_nat n) t)
      | None => sx_err "cells tree"
      end
  | _ => sx_err "cells"
  end.

(* c05.ops: (n signed cell (op ...)): decode the HashmapE, then
   ('get k) -> (v) | 'none ; ('put k v) -> 'ok ; finally the items and the
   re-encoded HashmapE *)
Fixpoint run_oplist (sgn : bool) (m : list (bits * N)) (ops : list sx)
  : list sx * list (bits * N) :=
  match ops with
  | [] => ([], m)
  | o :: t =>
      let '(r, m') :=
        match o with
        | SL [SA nm; SBits k] =>
            if String.eqb nm "get" then
              (match get bits_eqb k m with Some v => SL [SN v] | None => SA "none" end, m)
            else (sx_err "op", m)
        | SL [SA nm; SBits k; SN v] =>
            if String.eqb nm "put" then (SA "ok", put bits_eqb (klt_of sgn) k v m)
            else (sx_err "op", m)
        | _ => (sx_err "op", m)
        end in
      let '(rs, mf) := run_oplist sgn m' t in (r :: rs, mf)
  end.

Definition run_ops (a : sx) : sx :=
  match a with
  | SL [SN n; SB sgn; c; SL ops] =>
      match cell_sx c with
      | Some c =>
          match decode_e vdec_val (N.to_nat n) c with
          | Ok m =>
              let '(rs, mf) := run_oplist sgn m ops in
              SL (rs ++ [sx_items mf; sx_res sx_cell (encode_e venc_val (N.to_nat n) mf)])
          | _ => SA "err"
          end
      | None => sx_err "ops cell"
      end
  | _ => sx_err "ops"
  end.

(* c05.addr: (((workchain address value) ...)): keys given as values of
   tlb.AddressWithWorkchain (int8 workchain, 32 address bytes): Put in that
   order, Marshal, Unmarshal -> (cell ((workchain address value) ...)) | 'err.
   Compare = uint32(workchain) then bytes = bit order of the 288-bit key
   (C05_key_address). *)
Fixpoint addr_items (l : list sx) : option (list (bits * N)) :=
  match l with
  | [] => Some []
  | SL [SZ wc; SBytes a; SN v] :: t =>
      match addr_items t with
      | Some m => Some ((addr_key (wc, a), v) :: m)
      | None => None
      end
  | _ => None
  end.

(* the decoded key as a value: UnmarshalTLB = int8(ReadInt(32)), ReadBytes(32) *)
Definition sx_addr_item (kv : bits * N) : sx :=
  let k := addr_unkey (fst kv) in SL [SZ (fst k); SBytes (snd k); SN (snd kv)].

Definition run_addr (a : sx) : sx :=
  match a with
  | SL [SL l] =>
      match addr_items l with
      | Some l =>
          match encode_e venc_val 288 (puts bits_eqb bits_ltb l []) with
          | Ok c => SL [sx_cell c; sx_res (fun m => SL (map sx_addr_item m)) (decode_e vdec_val 288 c)]
          | _ => SA "err"
          end
      | None => sx_err "addr items"
      end
  | _ => sx_err "addr"
  end.

(* c05.hist: (n signed hashmapE build ((key value) ...) (step ...)): a history on
   dictionary OBJECTS.  build = 'put (Put in that order, object 0) | 'new
   (NewHashmap(E)(keys, values) with the slices in that order, object 0) | 'new2
   (two objects 0 and 1 built by NewHashmap(E) from the SAME two slices).
   step = ('marshal i) -> cell | 'err ; ('items i) -> Items() in slice order ;
   ('get i k) -> (v) | 'none ; ('put i k v) -> 'ok.  -> (result ...) *)
Definition obs_sx (o : hobs N) : sx :=
  match o with
  | OCell r => sx_res sx_cell r
  | OItems m => sx_items m
  | OGet (Some v) => SL [SN v]
  | OGet None => SA "none"
  | ODone => SA "ok"
  end.

Definition hop_sx (a : sx) : option (N * hop N) :=
  match a with
  | SL [SA nm; SN i] =>
      if String.eqb nm "marshal" then Some (i, HMarshal)
      else if String.eqb nm "items" then Some (i, HItems) else None
  | SL [SA nm; SN i; SBits k] => if String.eqb nm "get" then Some (i, HGet k) else None
  | SL [SA nm; SN i; SBits k; SN v] => if String.eqb nm "put" then Some (i, HPut k v) else None
  | _ => None
  end.

Fixpoint run_hsteps (sgn e : bool) (n : nat) (m0 m1 : list (bits * N)) (steps : list sx) : list sx :=
  match steps with
  | [] => []
  | s :: t =>
      match hop_sx s with
      | Some (i, op) =>
          if (i =? 0)%N then
            let '(m0', o) := hstep venc_val (klt_of sgn) e n m0 op in
            obs_sx o :: run_hsteps sgn e n m0' m1 t
          else
            let '(m1', o) := hstep venc_val (klt_of sgn) e n m1 op in
            obs_sx o :: run_hsteps sgn e n m0 m1' t
      | None =>
          match s with
          | SL [SA nm; SN i; c] =>
              (* ('decode i cell): Unmarshal INTO object i, which may hold entries *)
              if String.eqb nm "decode" then
                match cell_sx c with
                | Some c =>
                    if (i =? 0)%N then
                      let '(m0', ok) := hdecode vdec_val e n m0 c in
                      SA (if ok then "ok" else "err") :: run_hsteps sgn e n m0' m1 t
                    else
                      let '(m1', ok) := hdecode vdec_val e n m1 c in
                      SA (if ok then "ok" else "err") :: run_hsteps sgn e n m0 m1' t
                | None => sx_err "hist cell" :: run_hsteps sgn e n m0 m1 t
                end
              else sx_err "hist step" :: run_hsteps sgn e n m0 m1 t
          | _ => sx_err "hist step" :: run_hsteps sgn e n m0 m1 t
          end
      end
  end.

Definition run_hist (a : sx) : sx :=
  match a with
  | SL [SN n; SB sgn; SB e; SA build; SL kvs; SL steps] =>
      match items_sx kvs with
      | Some l =>
          (* 'fput / 'fnew: the object is a struct field; same object *)
          let m := if String.eqb build "put" || String.eqb build "fput"
                   then puts bits_eqb (klt_of sgn) l [] else l in
          SL (run_hsteps sgn e (N.to_nat n) m m steps)
      | None => sx_err "hist items"
      end
  | _ => sx_err "hist"
  end.

(* c05.dec: (n hashmapE cfg vtype cell libs): decode a dictionary whose leaves hold
   value encodings that exercise the DECODER's state, under a decoder configuration.
   cfg = 'plain (tlb.Unmarshal) | 'new (NewDecoder()) : no library resolver;
         'lib | 'zlib | 'debug : a resolver knowing [libs] = ((library-cell-bits target-cell) ...).
   vtype = 'u32 (inline tlb.Uint32) | 'ref (tlb.Ref[tlb.Uint32]: one reference, which may be
           an ordinary cell, a library cell or a pruned branch) | 'cell (tlb.Ref[boc.Cell]).
   Exotic cells are written ('x kind bits) (kind 1 pruned branch, 2 library); inside the
   abstract cells of the model they are represented by a cell with FIVE references
   (impossible for a real cell), the fifth carrying the kind.
   -> ((key value) ...) | 'err *)
Definition exo_cell (k : N) (b : bits) : cell :=
  Cell b [Cell [] []; Cell [] []; Cell [] []; Cell [] []; Cell (bits_of 8 k) []].
Definition exo_kind (c : cell) : N :=
  match c with
  | Cell _ [_; _; _; _; Cell kb []] => N_of_bits kb
  | _ => 0
  end.

Fixpoint xcell_sx (a : sx) : option cell :=
  match a with
  | SL [SA tag; SN k; SBits b] => if String.eqb tag "x" then Some (exo_cell k b) else None
  | SL [SBits b; SL rs] =>
      let fix go (l : list sx) : option (list cell) :=
        match l with
        | [] => Some []
        | x :: t => match xcell_sx x, go t with
                    | Some c, Some cs => Some (c :: cs)
                    | _, _ => None
                    end
        end in
      match go rs with Some cs => Some (Cell b cs) | None => None end
  | _ => None
  end.

Fixpoint sx_xcell (c : cell) : sx :=
  match c with
  | Cell b rs =>
      if (0 <? exo_kind c)%N then SL [SA "x"; SN (exo_kind c); SBits b]
      else SL [SBits b; SL (map sx_xcell rs)]
  end.

Definition dctx := option (list (bits * cell)).   (* the resolver, if configured *)

Fixpoint find_lib (libs : list (bits * cell)) (b : bits) : option cell :=
  match libs with
  | [] => None
  | (lb, t) :: r => if bits_eqb lb b then Some t else find_lib r b
  end.

Definition read32 (c : cell) : option sx :=
  match c with Cell b _ => if short 32 b then None else Some (SN (N_of_bits (firstn 32 b))) end.

(* Ref[Uint32].UnmarshalTLB: NextRef; pruned branch -> zero value; else
   decoder.Unmarshal(ref): a library cell is replaced through the resolver *)
Definition vdec_ref (ctx : dctx) (_ : bits) (rs : list cell) : option sx :=
  match rs with
  | [] => None
  | r :: _ =>
      if (exo_kind r =? 1)%N then Some (SN 0)
      else if (exo_kind r =? 2)%N then
        match ctx with
        | None => None                        (* "library cell decoding is not configured properly" *)
        | Some libs =>
            match r with Cell b _ =>
              match find_lib libs b with Some t => read32 t | None => None end
            end
        end
      else read32 r
  end.

(* Ref[boc.Cell]: a library cell is kept as it is under every configuration *)
Definition vdec_cellref (_ : dctx) (_ : bits) (rs : list cell) : option sx :=
  match rs with
  | [] => None
  | r :: _ => if (exo_kind r =? 1)%N then Some (SL [SBits []; SL []]) else Some (sx_xcell r)
  end.

Definition vdec_u32 (_ : dctx) (l : bits) (_ : list cell) : option sx :=
  if short 32 l then None else Some (SN (N_of_bits (firstn 32 l))).

Fixpoint libs_sx (l : list sx) : option (list (bits * cell)) :=
  match l with
  | [] => Some []
  | SL [SBits b; c] :: t =>
      match xcell_sx c, libs_sx t with
      | Some c, Some r => Some ((b, c) :: r)
      | _, _ => None
      end
  | _ => None
  end.

Definition run_dec (a : sx) : sx :=
  match a with
  | SL [SN n; SB e; SA cfg; SA vt; c; SL libs] =>
      match xcell_sx c, libs_sx libs with
      | Some c, Some libs =>
          let ctx : dctx :=
            if String.eqb cfg "plain" || String.eqb cfg "new" then None else Some libs in
          let vd := if String.eqb vt "u32" then vdec_u32
                    else if String.eqb vt "ref" then vdec_ref else vdec_cellref in
          let r := if e then decode_e (vd ctx) (N.to_nat n) c else decode (vd ctx) (N.to_nat n) c in
          sx_res (fun m => SL (map (fun kv => SL [SBits (fst kv); snd kv]) m)) r
      | _, _ => sx_err "dec cell"
      end
  | _ => sx_err "dec"
  end.

(* c05.count: (n hashmapE cell): countLeafs (hashmapE = f) / hashmapAugExtraCountLeafs
   (hashmapE = t; for n = 256 through BlockExtra.InMsgDescrLength and OutMsgDescrLength)
   -> n<count> | 'err *)
Definition run_count (a : sx) : sx :=
  match a with
  | SL [SN n; SB e; c] =>
      match cell_sx c with
      | Some c => sx_res SN (if e then count_leafs_e (N.to_nat n) c else count_leafs (N.to_nat n) c)
      | None => sx_err "count cell"
      end
  | _ => sx_err "count"
  end.

(* c05.lsize: (m bits): loadLabelSize(m, cell with these bits) -> (length unread-bits) | 'err *)
Definition run_lsize (a : sx) : sx :=
  match a with
  | SL [SN m; SBits b] =>
      sx_res (fun r => SL [SN (fst r); SN (N.of_nat (List.length (snd r)))]) (load_label_size (N.to_nat m) b)
  | _ => sx_err "lsize"
  end.

(* c05.aug: (n cell): HashmapAugE[key, Uint32, Uint32].UnmarshalTLB, Keys()/Values()
   -> ((key value) ...) | 'err *)
Definition xdec_u32 (l : bits) (rs : list cell) : option (N * bits * list cell) :=
  if short 32 l then None else Some (N_of_bits (firstn 32 l), skipn 32 l, rs).

Definition run_aug (a : sx) : sx :=
  match a with
  | SL [SN n; c] =>
      match cell_sx c with
      | Some c => sx_res sx_items (decode_aug_e vdec_val xdec_u32 (N.to_nat n) c)
      | None => sx_err "aug cell"
      end
  | _ => sx_err "aug"
  end.

(* c05.cfg: (build (step ...)): histories on tlb.ConfigParams objects
   { ConfigAddr bits256 (all zero here); Config Hashmap[Uint32, Ref[boc.Cell]] ^ }.
   A value is a reference to a cell holding 32 bits, printed as that number.
   build = ('new ((key value) ...)) NewHashmap with the slices in that order
         | ('dec cell) Unmarshal of a ConfigParams cell.
   steps on object i: ('items i) ('get i k) ('put i k v) ('marshal i)
         ('clone i (key ...)) = CloneKeepingSubsetOfKeys, the clone becomes the next object
         ('decode i cell) Unmarshal INTO object i.  -> (result ...) *)
Definition venc_cref (v : N) : bits * list cell := ([], [Cell (bits_of 32 v) []]).
Definition vdec_cref (_ : bits) (rs : list cell) : option N :=
  match rs with
  | Cell b _ :: _ => if short 32 b then None else Some (N_of_bits (firstn 32 b))
  | [] => None
  end.

Definition cfg_marshal (m : list (bits * N)) : res cell :=
  do c <- encode venc_cref 32 m; mk_cell (zeros 256) [c].

Definition cfg_decode (c : cell) : res (list (bits * N)) :=
  match c with
  | Cell b (r :: _) => if short 256 b then Err ENotEnoughBits else decode vdec_cref 32 r
  | Cell _ [] => Err ENotEnoughRefs
  end.

Fixpoint keys_sx (l : list sx) : list bits :=
  match l with
  | SBits k :: t => k :: keys_sx t
  | _ :: t => keys_sx t
  | [] => []
  end.

Definition nth_state (i : N) (st : list (list (bits * N))) : list (bits * N) :=
  nth (N.to_nat i) st [].

Fixpoint run_cfg_steps (st : list (list (bits * N))) (steps : list sx) : list sx :=
  match steps with
  | [] => []
  | s :: t =>
      match s with
      | SL [SA nm; SN i] =>
          if (N.of_nat (List.length st) <=? i)%N then sx_err "cfg object" :: run_cfg_steps st t
          else if String.eqb nm "items" then sx_items (nth_state i st) :: run_cfg_steps st t
          else if String.eqb nm "marshal" then sx_res sx_cell (cfg_marshal (nth_state i st)) :: run_cfg_steps st t
          else sx_err "cfg step" :: run_cfg_steps st t
      | SL [SA nm; SN i; x] =>
          if (N.of_nat (List.length st) <=? i)%N then sx_err "cfg object" :: run_cfg_steps st t
          else if String.eqb nm "get" then
            match x with
            | SBits k =>
                (match get bits_eqb k (nth_state i st) with Some v => SL [SN v] | None => SA "none" end)
                  :: run_cfg_steps st t
            | _ => sx_err "cfg step" :: run_cfg_steps st t
            end
          else if String.eqb nm "clone" then
            match x with
            | SL ks => SA "ok" :: run_cfg_steps (st ++ [clone_subset (keys_sx ks) (nth_state i st)]) t
            | _ => sx_err "cfg step" :: run_cfg_steps st t
            end
          else if String.eqb nm "decode" then
            match cell_sx x with
            | Some c =>
                match cfg_decode c with
                | Ok m => SA "ok" :: run_cfg_steps (set_nth (N.to_nat i) m st) t
                | _ => SA "err" :: run_cfg_steps (set_nth (N.to_nat i) [] st) t
                end
            | None => sx_err "cfg cell" :: run_cfg_steps st t
            end
          else sx_err "cfg step" :: run_cfg_steps st t
      | SL [SA nm; SN i; SBits k; SN v] =>
          if (N.of_nat (List.length st) <=? i)%N then sx_err "cfg object" :: run_cfg_steps st t
          else if String.eqb nm "put" then
            SA "ok" :: run_cfg_steps (set_nth (N.to_nat i) (put bits_eqb bits_ltb k v (nth_state i st)) st) t
          else sx_err "cfg step" :: run_cfg_steps st t
      | _ => sx_err "cfg step" :: run_cfg_steps st t
      end
  end.

Definition run_cfg (a : sx) : sx :=
  match a with
  | SL [SL [SA b; x]; SL steps] =>
      if String.eqb b "new" then
        match x with
        | SL kvs =>
            match items_sx kvs with
            | Some l => SL (run_cfg_steps [l] steps)
            | None => sx_err "cfg items"
            end
        | _ => sx_err "cfg items"
        end
      else
        match cell_sx x with
        | Some c =>
            match cfg_decode c with
            | Ok m => SL (run_cfg_steps [m] steps)
            | _ => SA "err"
            end
        | None => sx_err "cfg cell"
        end
  | _ => sx_err "cfg"
  end.

(* c05.find: (cell key): tlb.ProveKeyInHashmap[tlb.Uint32] as a lookup in the
   dictionary rooted at cell (Hashmap n Uint32, n = length of key)
   -> ('found value) | 'err    (the proof bytes are C18's) *)
Definition run_find (a : sx) : sx :=
  match a with
  | SL [c; SBits key] =>
      match cell_sx c with
      | Some c => sx_res (fun v => SL [SA "found"; SN v]) (find_key vdec_val c key)
      | None => sx_err "find cell"
      end
  | _ => sx_err "find"
  end.

(* c05.bal: (split ((key grams|'none) ...) ((key grams|'none) ...)): ShardState.AccountBalances
   over the accounts of an unsplit state (first list) or of the two halves of a split state;
   'none = an account without balance -> ((key grams) ...) in key order *)
Fixpoint accounts_sx (l : list sx) : option (list (bits * option N)) :=
  match l with
  | [] => Some []
  | SL [SBits k; v] :: t =>
      match accounts_sx t with
      | Some m => Some ((k, match v with
                           | SN g => Some g
                           | SA s => if String.eqb s "accnone" then Some 0%N else None   (* account_none: zero balance *)
                           | _ => None
                           end) :: m)
      | None => None
      end
  | _ => None
  end.

Definition run_bal (a : sx) : sx :=
  match a with
  | SL [SB split; SL l; SL r] =>
      match accounts_sx l, accounts_sx r with
      | Some l, Some r => sx_items (account_balances split l r)
      | _, _ => sx_err "bal accounts"
      end
  | _ => sx_err "bal"
  end.

Definition run (name : string) (a : sx) : sx :=
  let is x := String.eqb name x in
  if is "c05.encode" then run_encode a
  else if is "c05.raw" then run_raw a
  else if is "c05.decode" then run_decode a
  else if is "c05.cells" then run_cells a
  else if is "c05.ops" then run_ops a
  else if is "c05.addr" then run_addr a
  else if is "c05.hist" then run_hist a
  else if is "c05.dec" then run_dec a
  else if is "c05.count" then run_count a
  else if is "c05.lsize" then run_lsize a
  else if is "c05.aug" then run_aug a
  else if is "c05.cfg" then run_cfg a
  else if is "c05.find" then run_find a
  else if is "c05.bal" then run_bal a
  else sx_err "unknown case kind".
