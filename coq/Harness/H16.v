(** Entry points for message / transaction identity hashes (C16). *)
From Coq Require Import List NArith ZArith String Bool.
From Tongo Require Import Lib.Bits Lib.Res Lib.Sx Spec.Sha256 Model.BocParse Model.CellHash Spec.ReprHash
  Model.BocSer Proofs.CellHashP Proofs.DagP Model.MsgHash Model.MsgOracle Model.MsgHist Harness.H07.
Import ListNotations.
Local Open Scope string_scope.
Local Open Scope list_scope.

(* dictionaries and TransactionDescr: the transcription in Model/MsgOracle.v *)
Definition the_oracle : oracle := real_oracle (hash_cell sha256).

Definition info_kind (i : info) : N :=
  match i with IInt _ _ _ _ _ _ _ _ _ _ _ => 0 | IExtIn _ _ _ => 1 | IExtOut _ _ _ _ => 2 end%N.
Definition info_src (i : info) : addr :=
  match i with IInt _ _ _ s _ _ _ _ _ _ _ => s | IExtIn s _ _ => s | IExtOut s _ _ _ => s end.
Definition info_dest (i : info) : addr :=
  match i with IInt _ _ _ _ d _ _ _ _ _ _ => d | IExtIn _ d _ => d | IExtOut _ d _ _ => d end.
Definition addr_sx (a : addr) : sx := SBits (fst (marshal_addr a ([], false))).

Definition msg_sx (m : msg) : sx :=
  SL [SN (info_kind (m_info m));
      SBytes (m_hash m);
      sx_res SBytes (msg_hash sha256 true m);
      SN (match m_init m with None => 0 | Some (false, _) => 1 | Some (true, _) => 2 end)%N;
      SB (m_body_ref m);
      SBits (fst (m_body m));
      sx_nat (List.length (snd (m_body m)));
      addr_sx (info_src (m_info m));
      addr_sx (info_dest (m_info m));
      addr_sx (info_dest (m_info (after_hash true m)))].     (* the receiver's dest after Hash(true) *)

Definition with_root (a : sx) (f : oracle -> list node -> nat -> cell -> list (res imm) -> sx) : sx :=
  match a with
  | SL [SL dag; SN root] =>
      match nodes_of_sx dag with
      | Some cells =>
          let k := N.to_nat root in
          let trees := trees_of 0 cells in
          match nth_error trees k with
          | Some (Ok c) => f the_oracle cells k c (eval_dag sha256 0 cells)
          | _ => sx_err "root"
          end
      | None => sx_err "dag"
      end
  | _ => sx_err "shape"
  end.

(* c16.msg: (dag root) -> 'err | (kind hash normhash init bodyref bodybits nbodyrefs src dest) *)
Definition run_msg (a : sx) : sx :=
  with_root a (fun o cells k c imms =>
    sx_res msg_sx (decode_message_gen o (cached_hash_of imms k) c)).

(* c16.conc: (dag root kind) -> what EVERY one of the concurrent calls must answer:
   kind 0, a message: (Hash(false) Hash(true)); kind 1, a transaction: (Hash() SourceBoc()) *)
Definition run_conc (a : sx) : sx :=
  match a with
  | SL [SL dag; SN root; SN kind] =>
      with_root (SL [SL dag; SN root]) (fun o cells k c imms =>
        match kind with
        | N0 =>
            match decode_message_gen o (cached_hash_of imms k) c with
            | Ok m => SL [SBytes (m_hash m); sx_res SBytes (msg_hash sha256 true m)]
            | Err _ => SA "err"
            | Panic _ => SA "panic"
            end
        | _ =>
            match decode_tx_gen o (cached_hash_of imms k) (hash_cell sha256) c with
            | Ok t =>
                let hs := map (fun ri => do c <- ri; cell_hash c) imms in
                SL [SBytes (tx_hash t);
                    match serialize cells hs [k] false false false with
                    | Ok out => SBytes out
                    | _ => SA "err"
                    end]
            | Err _ => SA "err"
            | Panic _ => SA "panic"
            end
        end)
  | _ => sx_err "shape"
  end.

(* c16.blk: (dag block-root (tx-index ...)) -> per index what decoding THAT cell as a
   transaction reports: (lt hash (in_msg-hash)?) | 'err.  The indices are the
   transaction cells found by walking the ShardAccountBlocks dictionaries of the
   block; the Go side compares the multiset of (lt, hash) every accessor of the
   decoded block hands out with this list. *)
Definition run_blk (a : sx) : sx :=
  match a with
  | SL [SL dag; SN _; SL idxs] =>
      match nodes_of_sx dag with
      | Some cells =>
          let trees := trees_of 0 cells in
          let imms := eval_dag sha256 0 cells in
          SL (map (fun ix =>
                     match ix with
                     | SN i =>
                         let k := N.to_nat i in
                         match nth_error trees k with
                         | Some (Ok c) =>
                             match decode_tx_gen the_oracle (cached_hash_of imms k) (hash_cell sha256) c with
                             | Ok t => SL [SN (tx_lt t); SBytes (tx_hash t);
                                           match tx_in_msg t with Some m => SL [SBytes (m_hash m)] | None => SL [] end]
                             | Err _ => SA "err"
                             | Panic _ => SA "panic"
                             end
                         | _ => sx_err "index"
                         end
                     | _ => sx_err "index"
                     end) idxs)
      | None => sx_err "dag"
      end
  | _ => sx_err "shape"
  end.

(* c16.lvl: (dag root kind _) -> (cell-hash decoded): the representation hash
   (level 3) of the cell at [root], a cell of any level anywhere in the array,
   and what decoding it as a message (kind 0) / transaction (kind 1) reports:
   'err | (hash normalised-hash) | (hash (in_msg-hash)?).  The fourth component
   tells the Go side how to warm the hasher cache first; the model is pure. *)
Definition run_lvl (a : sx) : sx :=
  match a with
  | SL (SL dag :: SN root :: SN kind :: _) =>
      with_root (SL [SL dag; SN root]) (fun o cells k c imms =>
        SL [sx_res SBytes (cached_hash_of imms k);
            match kind with
            | N0 =>
                match decode_message_gen o (cached_hash_of imms k) c with
                | Ok m => SL [SBytes (m_hash m); sx_res SBytes (msg_hash sha256 true m)]
                | Err _ => SA "err"
                | Panic _ => SA "panic"
                end
            | _ =>
                match decode_tx_gen o (cached_hash_of imms k) (hash_cell sha256) c with
                | Ok t => SL [SBytes (tx_hash t);
                              match tx_in_msg t with Some m => SL [SBytes (m_hash m)] | None => SL [] end]
                | Err _ => SA "err"
                | Panic _ => SA "panic"
                end
            end])
  | _ => sx_err "shape"
  end.

(* c16.lib: (dag root target) -> as c16.msg, decoded by a Decoder whose library
   resolver answers every hash with the cell at index [target] *)
Definition run_lib (a : sx) : sx :=
  match a with
  | SL [SL dag; SN root; SN target] =>
      match nodes_of_sx dag with
      | Some cells =>
          let trees := trees_of 0 cells in
          match nth_error trees (N.to_nat root), nth_error trees (N.to_nat target) with
          | Some (Ok c), Some (Ok ct) =>
              sx_res msg_sx (decode_message_resolving sha256 (fun _ => Ok ct) the_oracle c)
          | _, _ => sx_err "root"
          end
      | None => sx_err "dag"
      end
  | _ => sx_err "shape"
  end.

(* SourceBoc parses back to exactly one root whose hash is [h] *)
Definition parses_back (h : bytes) (out : bytes) : bool :=
  match parse_boc out with
  | Ok p =>
      match p_roots p with
      | [r] => match cached_hash sha256 (p_cells p) r with
               | Ok h' => bytes_eqb h h'
               | _ => false
               end
      | _ => false
      end
  | _ => false
  end.

(* c16.tx: (dag root) -> 'err | (hash (in-msg hash normhash)? sourceboc parses-back) *)
Definition run_tx (a : sx) : sx :=
  with_root a (fun o cells k c imms =>
    match decode_tx_gen o (cached_hash_of imms k) (hash_cell sha256) c with
    | Ok t =>
        let hs := map (fun ri => do c <- ri; cell_hash c) imms in
        SL [SBytes (tx_hash t);
            match tx_in_msg t with
            | None => SL []
            | Some m => SL [SBytes (m_hash m); sx_res SBytes (msg_hash sha256 true m)]
            end;
            match serialize cells hs [k] false false false with
            | Ok out => SL [SBytes out; SB (parses_back (tx_hash t) out)]
            | Err _ => SA "err"
            | Panic _ => SA "panic"
            end]
    | Err _ => SA "err"
    | Panic _ => SA "panic"
    end).

(** *** histories on one variable (Model/MsgHist.v).  Input: ((source ...) (op ...)),
    a source is (dag root); ops: (0 i _) decode source i into the
    variable, (1) Hash / Hash(false), (2 _) SourceBoc / Hash(true), (3) continue
    with a copy of the variable, (4) the destination as the variable now holds it.  Everything a decode of source i can produce is
    computed once per source. *)
Record tsrc := mktsrc { ts_lib : bool; ts_hr : res bytes; ts_dr : res tx; ts_boc : sx }.
Record msrc := mkmsrc { ms_lib : bool; ms_hr : res bytes;
                        ms_pr : res (info * option (bool * state_init) * bool * (bits * list cell)) }.

Definition with_source {A} (a : sx) (f : oracle -> list node -> nat -> cell -> list (res imm) -> A) : option A :=
  match a with
  | SL [SL dag; SN root] =>
      match nodes_of_sx dag with
      | Some cells =>
          let k := N.to_nat root in
          let trees := trees_of 0 cells in
          match nth_error trees k with
          | Some (Ok c) => Some (f the_oracle cells k c (eval_dag sha256 0 cells))
          | _ => None
          end
      | None => None
      end
  | _ => None
  end.

Definition tsrc_of (a : sx) : option tsrc :=
  with_source a (fun o cells k c imms =>
    let hr := cached_hash_of imms k in
    let hs := map (fun ri => do c <- ri; cell_hash c) imms in
    mktsrc (is_library_cell c) hr (decode_tx_gen o hr (hash_cell sha256) c)
           (match serialize cells hs [k] false false false with
            | Ok out => SBytes out
            | _ => SA "err"
            end)).

Definition msrc_of (a : sx) : option msrc :=
  with_source a (fun o cells k c imms =>
    mkmsrc (is_library_cell c) (cached_hash_of imms k) (parse_message o (open c))).

Fixpoint all_some {A} (l : list (option A)) : option (list A) :=
  match l with
  | [] => Some []
  | Some a :: t => match all_some t with Some r => Some (a :: r) | None => None end
  | None :: _ => None
  end.

Definition ok_sx (b : bool) : sx := SA (if b then "ok" else "err").

Fixpoint htx_go (srcs : list tsrc) (ops : list sx) (v : tvar nat) : list sx :=
  match ops with
  | [] => []
  | op :: rest =>
      match op with
      | SL (SN 0 :: SN i :: _) =>
          match nth_error srcs (N.to_nat i) with
          | Some ts =>
              let '(v', ok) := tx_assign_res (ts_lib ts) (ts_hr ts) (ts_dr ts) (N.to_nat i) v in
              ok_sx ok :: htx_go srcs rest v'
          | None => [sx_err "source"]
          end
      | SL (SN 1 :: _) => SBytes (tx_obs_hash v) :: htx_go srcs rest v
      | SL (SN 2 :: _) =>
          (match tx_obs_source v with
           | Some i => match nth_error srcs i with Some ts => ts_boc ts | None => sx_err "source" end
           | None => SA "err"
           end) :: htx_go srcs rest v
      | SL (SN 3 :: _) => SA "copy" :: htx_go srcs rest v
      | _ => [sx_err "op"]
      end
  end.

Fixpoint hmsg_go (srcs : list msrc) (ops : list sx) (v : mvar) : list sx :=
  match ops with
  | [] => []
  | op :: rest =>
      match op with
      | SL (SN 0 :: SN i :: _) =>
          match nth_error srcs (N.to_nat i) with
          | Some ms =>
              let '(v', ok) := msg_assign_res (ms_lib ms) (ms_hr ms) (ms_pr ms) v in
              ok_sx ok :: hmsg_go srcs rest v'
          | None => [sx_err "source"]
          end
      | SL (SN 1 :: _) => SBytes (mv_hash v) :: hmsg_go srcs rest v
      | SL (SN 2 :: _) => sx_res SBytes (msg_obs_hash sha256 true v) :: hmsg_go srcs rest (msg_after_hash true v)
      | SL (SN 3 :: _) => SA "copy" :: hmsg_go srcs rest v
      | SL (SN 4 :: _) =>
          (match mv_val v with
           | Some m => addr_sx (info_dest (m_info m))
           | None => SA "none"
           end) :: hmsg_go srcs rest v
      | _ => [sx_err "op"]
      end
  end.

(* c16.htx / c16.hmsg: ((source...) (op...)) -> (result per op) *)
Definition run_htx (a : sx) : sx :=
  match a with
  | SL [SL srcs; SL ops] =>
      match all_some (map tsrc_of srcs) with
      | Some ts => SL (htx_go ts ops tvar_zero)
      | None => sx_err "sources"
      end
  | _ => sx_err "shape"
  end.
Definition run_hmsg (a : sx) : sx :=
  match a with
  | SL [SL srcs; SL ops] =>
      match all_some (map msrc_of srcs) with
      | Some ms => SL (hmsg_go ms ops mvar_zero)
      | None => sx_err "sources"
      end
  | _ => sx_err "shape"
  end.

Definition run (name : string) (a : sx) : sx :=
  if String.eqb name "c16.msg" then run_msg a
  else if String.eqb name "c16.tx" then run_tx a
  else if String.eqb name "c16.blk" then run_blk a
  else if String.eqb name "c16.lvl" then run_lvl a
  else if String.eqb name "c16.lib" then run_lib a
  else if String.eqb name "c16.conc" then run_conc a
  else if String.eqb name "c16.htx" then run_htx a
  else if String.eqb name "c16.hmsg" then run_hmsg a
  else sx_err "unknown case kind".
