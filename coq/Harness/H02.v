(** Entry points for C02: histories on one caching hasher, and the cells the
    library's proof builder produces (mask, level, hash and depth at levels
    0..3 of every position of the proof). *)
From Coq Require Import List NArith String Bool.
From Tongo Require Import Lib.Bits Lib.Res Lib.Sx Spec.Sha256 Model.BocParse Model.CellHash
  Spec.ReprHash Model.HasherCache Model.Merkle Harness.H07 Harness.H18.
Import ListNotations.
Local Open Scope string_scope.
Local Open Scope list_scope.

(* (0 i) = Hasher.Hash(cell i), (1 i) = Hasher.HashString(cell i) *)
Definition hop_of_sx (a : sx) : option hop :=
  match a with
  | SL [SN k; SN i] =>
      if (i <? 1000000)%N
      then Some (if N.eqb k 0 then OpHash (N.to_nat i) else OpHashString (N.to_nat i))
      else None
  | _ => None
  end.

Fixpoint hops_of_sx (l : list sx) : option (list hop) :=
  match l with
  | [] => Some []
  | a :: t =>
      match hop_of_sx a, hops_of_sx t with
      | Some o, Some os => Some (o :: os)
      | _, _ => None
      end
  end.

(* c02.history: (dag ops) -> ((answer per request) (the kept answers at the end));
   answer = hash bytes | 'err | 'panic.
   The model run is the model of the CODE (cache written at the end). *)
Definition run_history (a : sx) : sx :=
  match a with
  | SL [SL dag; SL ops] =>
      match nodes_of_sx dag, hops_of_sx ops with
      | Some cells, Some os =>
          (* the answers as they are returned, and the same answers as the caller
             still holds them after the whole history: results are values *)
          let rs := map (sx_res SBytes) (hasher_run sha256 false cells new_hasher os) in
          SL [SL rs; SL rs]
      | _, _ => sx_err "history"
      end
  | _ => sx_err "history"
  end.

(** cells produced by the proof builder: one row per position of the proof
    tree in pre-order: (mask level (hash depth) x levels 0..3) *)
Definition row_of (m : N) (im : imm) : sx :=
  SL [SN m; sx_nat (mask_level m);
      level_info (Ok im) 0; level_info (Ok im) 1; level_info (Ok im) 2; level_info (Ok im) 3].

(* the immutable cell of the root (= CellHashP.imm_of) and the rows of the tree *)
Fixpoint rows_of (c : cell) : res (imm * list sx) :=
  match c with
  | Cell special ty m data refs =>
      do kids <- (fix go (rs : list cell) : res (list imm * list sx) :=
                    match rs with
                    | [] => Ok ([], [])
                    | ch :: t =>
                        do x <- rows_of ch;
                        do xs <- go t;
                        Ok (fst x :: fst xs, snd x ++ snd xs)
                    end) refs;
      do im <- build_imm sha256 special ty m data (fst kids);
      Ok (im, row_of m im :: snd kids)
  end.

Definition sx_rows (r : res cell) : sx :=
  match r with
  | Ok p => match rows_of p with
            | Ok x => SL (snd x)
            | Err _ => SA "err"
            | Panic _ => SA "panic"
            end
  | Err _ => SA "err"
  | Panic _ => SA "panic"
  end.

(* c02.built: (dag root (path ...)) -> rows of the proof CreateProof returns
   for a cursor that pruned the cells at the paths *)
Definition run_built (a : sx) : sx :=
  match a with
  | SL [SL dag; SN root; SL paths] =>
      match nodes_of_sx dag with
      | Some cells =>
          let root := N.to_nat root in
          match tree_at (S (List.length cells)) cells root with
          | Some t =>
              (* the cursor prunes positions (paths), not cells *)
              sx_rows (create_proof sha256 (in_paths (map path_of_sx paths)) t)
          | None => sx_err "tree"
          end
      | None => sx_err "dag"
      end
  | _ => sx_err "built"
  end.

(* c02.builtkey: (dag root keybits vbits) -> rows of the proof of ProveKeyInHashmap *)
Definition run_built_key (a : sx) : sx :=
  match a with
  | SL [SL dag; SN root; SBits key; SN vbits] =>
      match nodes_of_sx dag with
      | Some cells =>
          match tree_at (S (List.length cells)) cells (N.to_nat root) with
          | Some t => sx_rows (prove_key sha256 t key (N.to_nat vbits))
          | None => sx_err "tree"
          end
      | None => sx_err "dag"
      end
  | _ => sx_err "builtkey"
  end.

(** cells parsed from a bag of cells (any header variant, stored hashes or
    not): one row per ROOT of the bag: ((hash depth) x levels 0..3, level,
    special, type).  The generator makes every cell a root. *)
Definition parsed_row (cells : list node) (imms : list (res imm)) (r : nat) : sx :=
  match nth_error cells r, nth_error imms r with
  | Some nd, Some ri =>
      SL [level_info ri 0; level_info ri 1; level_info ri 2; level_info ri 3;
          sx_nat (mask_level (n_mask nd)); SB (n_special nd); SN (n_type nd)]
  | _, _ => sx_err "root index"
  end.

(* c02.parsed: bytes -> 'err | 'panic | (row ...) *)
Definition run_parsed (a : sx) : sx :=
  match a with
  | SBytes bs =>
      match parse_boc bs with
      | Ok p =>
          let imms := eval_dag sha256 0 (p_cells p) in
          SL (map (parsed_row (p_cells p) imms) (p_roots p))
      | Err _ => SA "err"
      | Panic _ => SA "panic"
      end
  | _ => sx_err "parsed"
  end.

(** cells built from a BitString that some BitString-producing API returned:
    (src skip n api) -> the row of the ordinary cell without references whose
    data are the LOGICAL bits the API returns.  api 2, 3, 8 return the rest after
    [skip]; api 7 reads [n] bits and appends the rest; api 5 the whole source; the
    others [n] bits after [skip]. *)
Definition frombits_logical (src : bits) (skip n : nat) (api : N) : option bits :=
  if N.eqb api 5 then Some src
  else if short skip src then None
  else
    let rest := skipn skip src in
    if N.eqb api 2 || N.eqb api 3 || N.eqb api 8 then Some rest
    else if short n rest then None
    else if N.eqb api 7 then Some rest else Some (firstn n rest).

Definition run_frombits (a : sx) : sx :=
  match a with
  | SL [SBits src; SN skip; SN n; SN api] =>
      if (2000 <? skip)%N || (2000 <? n)%N then sx_err "frombits" else
      match frombits_logical src (N.to_nat skip) (N.to_nat n) api with
      | Some b =>
          match eval_dag sha256 0 [mknode false 0 0 b []] with
          | ri :: _ => SL [level_info ri 0; level_info ri 1; level_info ri 2; level_info ri 3; sx_nat 0]
          | [] => sx_err "frombits"
          end
      | None => SA "err"
      end
  | _ => sx_err "frombits"
  end.

(* c02.json: (dag root receiver-dag receiver-root mode) -> the c02.hashes row of
   (dag root): decoding the JSON form of a cell yields that cell, whatever the
   receiver held *)
Definition run_json (a : sx) : sx :=
  match a with
  | SL (dag :: root :: _) => run_hashes (SL [dag; root])
  | _ => sx_err "json"
  end.

(* dispatcher of this file's kinds (private extraction; Dispatch.v has the same lines) *)
Definition run (kind : string) (a : sx) : sx :=
  if String.eqb kind "c02.history" then run_history a
  else if String.eqb kind "c02.built" then run_built a
  else if String.eqb kind "c02.builtkey" then run_built_key a
  else if String.eqb kind "c02.parsed" then run_parsed a
  else if String.eqb kind "c02.frombits" then run_frombits a
  else if String.eqb kind "c02.json" then run_json a
  else if String.eqb kind "c02.hashes" then H07.run_hashes a
  else if String.eqb kind "c07.parse" then H07.run_parse a
  else sx_err "kind".
