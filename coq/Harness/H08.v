(** Entry points of the C08 models for the correspondence driver. *)
From Coq Require Import String Ascii List NArith Bool.
From Tongo Require Import Lib.Bits Lib.Res Lib.Sx Spec.Sha256 Spec.TlWire Model.BocParse
     Model.Tl Model.TlTotal Model.TlbCore Model.TlbTotal Model.TlbHand Model.VmMap Model.Framing Generated.TlBindings.
Import ListNotations.
Local Open Scope string_scope.
Local Open Scope list_scope.

Definition h08_fuel : nat := 8.

Definition basic_ty (name : string) : option gty :=
  if String.eqb name "#u32" then Some GU32
  else if String.eqb name "#u64" then Some GU64
  else if String.eqb name "#bool" then Some GBool
  else if String.eqb name "#bytes" then Some GBytes
  else if String.eqb name "#string" then Some GString
  else if String.eqb name "#int256" then Some GInt256
  else if String.eqb name "#vec_u32" then Some (GSlice GU32)
  else if String.eqb name "#vec_u64" then Some (GSlice GU64)
  else if String.eqb name "#vec_int256" then Some (GSlice GInt256)
  else if String.eqb name "#vec_bytes" then Some (GSlice GBytes)
  else None.

(* c08.tl: ('Name bytes) -> ('ok unread) | 'err | 'panic | 'fuel *)
Definition run_tl (a : sx) : sx :=
  match a with
  | SL [SA name; SBytes bs] =>
      let t := match basic_ty name with Some t => t | None => GNamed name end in
      match tl_unmarshal tl_bindings h08_fuel t bs with
      | (Ok _, s) => SL [SA "ok"; sx_nat (List.length (t_inp s))]
      | (Err e, _) => if N.eqb e EFuel then SA "fuel" else if N.eqb e EModel then SA "model" else SA "err"
      | (Panic _, _) => SA "panic"
      end
  | _ => sx_err "tl"
  end.

(* c08.tlalloc: modelled allocation and steps (evidence only) *)
Definition run_tlalloc (a : sx) : sx :=
  match a with
  | SL [SA name; SBytes bs] =>
      let t := match basic_ty name with Some t => t | None => GNamed name end in
      let s := snd (tl_unmarshal tl_bindings h08_fuel t bs) in SL [SN (t_alloc s); SN (t_steps s)]
  | _ => sx_err "tlalloc"
  end.

(** TL-B descriptors: ('u w) ('i w) ('bu w) ('bi w) 'bool ('bits n) ('var n) 'unary
    ('magic len val) ('maybe t) ('either l r) ('eref t) ('ref t) ('mref t)
    ('struct t...) ('sum (len val t)...) 'any 'cell 'addr *)
Fixpoint ty_of_sx (fuel : nat) (a : sx) : option ty :=
  match fuel with
  | O => None
  | S f =>
    let tys := fix go (l : list sx) : option (list ty) :=
                 match l with
                 | [] => Some []
                 | x :: r => match ty_of_sx f x, go r with Some t, Some ts => Some (t :: ts) | _, _ => None end
                 end in
    let alts := fix go (l : list sx) : option (list (nat * N * ty)) :=
                  match l with
                  | [] => Some []
                  | SL [SN len; SN val; x] :: r =>
                      match ty_of_sx f x, go r with
                      | Some t, Some ts => Some ((N.to_nat len, val, t) :: ts) | _, _ => None end
                  | _ => None
                  end in
    match a with
    | SA k =>
        if String.eqb k "bool" then Some TBool else if String.eqb k "unary" then Some TUnary
        else if String.eqb k "any" then Some TAny else if String.eqb k "cell" then Some TCellRef
        else if String.eqb k "addr" then Some TAddr else None
    | SL (SA k :: rest) =>
        match rest with
        | [SN w] =>
            let w := N.to_nat w in
            if String.eqb k "u" then Some (TUint w) else if String.eqb k "i" then Some (TInt w)
            else if String.eqb k "bu" then Some (TBigUint w) else if String.eqb k "bi" then Some (TBigInt w)
            else if String.eqb k "bits" then Some (TBits w) else if String.eqb k "var" then Some (TVarUInt w)
            else None
        | _ =>
          if String.eqb k "magic" then
            match rest with [SN len; SN val] => Some (TMagic (N.to_nat len) val) | _ => None end
          else if String.eqb k "struct" then option_map TStruct (tys rest)
          else if String.eqb k "sum" then option_map TSum (alts rest)
          else match rest with
               | [x] =>
                   match ty_of_sx f x with
                   | Some t =>
                       if String.eqb k "maybe" then Some (TMaybe t) else if String.eqb k "eref" then Some (TEitherRef t)
                       else if String.eqb k "ref" then Some (TRef t) else if String.eqb k "mref" then Some (TMaybeRef t)
                       else None
                   | None => None
                   end
               | [x; y] =>
                   if String.eqb k "either" then
                     match ty_of_sx f x, ty_of_sx f y with Some l, Some r => Some (TEither l r) | _, _ => None end
                   else None
               | _ => None
               end
        end
    | _ => None
    end
  end.

(** extended descriptors: everything above plus 'grams 'snake 'bytes 'ftext 'vmstack
    'vmvalue 'vmtuple 'cslice 'fail ('hm n vsz v) ('hmaug n vsz v e) *)
Fixpoint yty_of_sx (fuel : nat) (a : sx) : option yty :=
  match fuel with
  | O => None
  | S f =>
    let tys := fix go (l : list sx) : option (list yty) :=
                 match l with
                 | [] => Some []
                 | x :: r => match yty_of_sx f x, go r with Some t, Some ts => Some (t :: ts) | _, _ => None end
                 end in
    let alts := fix go (l : list sx) : option (list (nat * N * yty)) :=
                  match l with
                  | [] => Some []
                  | SL [SN len; SN val; x] :: r =>
                      match yty_of_sx f x, go r with
                      | Some t, Some ts => Some ((N.to_nat len, val, t) :: ts) | _, _ => None end
                  | _ => None
                  end in
    match a with
    | SA k =>
        if String.eqb k "bool" then Some YBool else if String.eqb k "unary" then Some YUnary
        else if String.eqb k "any" then Some YAny else if String.eqb k "cell" then Some YCellRef
        else if String.eqb k "addr" then Some YAddr else if String.eqb k "grams" then Some YGrams
        else if String.eqb k "snake" then Some YSnake else if String.eqb k "bytes" then Some YBytes
        else if String.eqb k "ftext" then Some YFixedText else if String.eqb k "vmstack" then Some YVmStack
        else if String.eqb k "vmvalue" then Some YVmValue else if String.eqb k "vmtuple" then Some YVmTuple
        else if String.eqb k "cslice" then Some YCellSlice else if String.eqb k "fail" then Some YFail
        else if String.eqb k "rawcell" then Some YRawCell
        else if String.eqb k "text" then Some YText
        else None
    | SL (SA k :: rest) =>
        match rest with
        | [SN w] =>
            let w := N.to_nat w in
            if String.eqb k "u" then Some (YUint w) else if String.eqb k "i" then Some (YInt w)
            else if String.eqb k "bu" then Some (YBigUint w) else if String.eqb k "bi" then Some (YBigInt w)
            else if String.eqb k "bits" then Some (YBits w) else if String.eqb k "var" then Some (YVarUInt w)
            else None
        | _ =>
          if String.eqb k "magic" then
            match rest with [SN len; SN val] => Some (YMagic (N.to_nat len) val) | _ => None end
          else if String.eqb k "struct" then option_map YStruct (tys rest)
          else if String.eqb k "ostruct" then option_map YOpenStruct (tys rest)
          else if String.eqb k "peek" then
            match rest with
            | [SN off; SN len; SN val; x; y] =>
                match yty_of_sx f x, yty_of_sx f y with
                | Some t0, Some t1 => Some (YPeek (N.to_nat off) (N.to_nat len) val t0 t1) | _, _ => None end
            | _ => None
            end
          else if String.eqb k "hm" then
            match rest with
            | [SN n; SN vsz; x] => option_map (YHashmap (N.to_nat n) vsz) (yty_of_sx f x)
            | _ => None
            end
          else if String.eqb k "sum" then option_map YSum (alts rest)
          else if String.eqb k "bintree" then
            match rest with
            | [SN vsz; x] => option_map (YBinTree vsz) (yty_of_sx f x)
            | _ => None
            end
          else if String.eqb k "hmaug" then
            match rest with
            | [SN n; SN vsz; x; y] =>
                match yty_of_sx f x, yty_of_sx f y with
                | Some v, Some e => Some (YHashmapAug (N.to_nat n) vsz v e) | _, _ => None end
            | _ => None
            end
          else match rest with
               | [x] =>
                   match yty_of_sx f x with
                   | Some t =>
                       if String.eqb k "maybe" then Some (YMaybe t) else if String.eqb k "eref" then Some (YEitherRef t)
                       else if String.eqb k "ref" then Some (YRef t) else if String.eqb k "mref" then Some (YMaybeRef t)
                       else if String.eqb k "hashed" then Some (YHashed t) else if String.eqb k "refraw" then Some (YRefRaw t)
                       else if String.eqb k "nolib" then Some (YNoLib t)
                       else if String.eqb k "refrawopt" then Some (YRefRawOpt t)
                       else None
                   | None => None
                   end
               | [x; y] =>
                   if String.eqb k "either" then
                     match yty_of_sx f x, yty_of_sx f y with Some l, Some r => Some (YEither l r) | _, _ => None end
                   else None
               | _ => None
               end
        end
    | _ => None
    end
  end.

(* cell trees: (kind bits (refs...)) *)
Fixpoint xtree_of_sx (fuel : nat) (a : sx) : option xtree :=
  match fuel with
  | O => None
  | S f =>
    match a with
    | SL [SN k; SBits b; SL refs] =>
        option_map (XT k b)
          ((fix go (l : list sx) : option (list xtree) :=
              match l with
              | [] => Some []
              | x :: r => match xtree_of_sx f x, go r with Some t, Some ts => Some (t :: ts) | _, _ => None end
              end) refs)
    | _ => None
    end
  end.

Fixpoint bits_eqb (a b : bits) : bool :=
  match a, b with
  | [], [] => true
  | x :: a', y :: b' => Bool.eqb x y && bits_eqb a' b'
  | _, _ => false
  end.
Fixpoint xtree_eqb (a b : xtree) {struct a} : bool :=
  match a, b with
  | XT k1 b1 r1, XT k2 b2 r2 =>
      N.eqb k1 k2 && bits_eqb b1 b2 &&
      (fix go (x y : list xtree) {struct x} : bool :=
         match x, y with
         | [], [] => true
         | p :: x', q :: y' => xtree_eqb p q && go x' y'
         | _, _ => false
         end) r1 r2
  end.
(* the cell at a path of reference indices *)
Fixpoint at_path (c : xtree) (p : list sx) : option xtree :=
  match p with
  | [] => Some c
  | SN i :: p' => match c with XT _ _ r => match nth_error r (N.to_nat i) with Some c' => at_path c' p' | None => None end end
  | _ => None
  end.
(* the oracle column: paths of the cells on which boc.Cell.Hash() fails *)
Definition hash_oracle (root : xtree) (paths : list sx) : xtree -> bool :=
  let bad := flat_map (fun p => match p with SL l => match at_path root l with Some c => [c] | None => [] end | _ => [] end) paths in
  fun c => negb (existsb (xtree_eqb c) bad).

(* the resolver column: pairs (library cell, answer); no pair = the resolver returns an error *)
Definition resolver_of (pairs : list sx) : xtree -> option xtree :=
  let tab := flat_map (fun p => match p with
                                | SL [a; b] => match xtree_of_sx 3000 a, xtree_of_sx 3000 b with
                                               | Some x, Some y => [(x, y)] | _, _ => [] end
                                | _ => [] end) pairs in
  fun c => match find (fun e => xtree_eqb c (fst e)) tab with Some e => Some (snd e) | None => None end.

(* c08.tlb: (cmp_rest desc tree [hash-failure paths [resolver pairs]]) -> ('ok bits refs) | 'ok | 'err | 'panic | 'fuel *)
Definition run_tlb (a : sx) : sx :=
  let go (cmp : bool) (d tr : sx) (paths : list sx) (rs : xtree -> option xtree) : sx :=
      match yty_of_sx 400 d, xtree_of_sx 3000 tr with
      | Some t, Some c =>
          match fst (yunmarshal [] (hash_oracle c paths) rs 400 t c) with
          | Ok s => if cmp then SL [SA "ok"; sx_nat (List.length (yb s)); sx_nat (List.length (yr s))] else SA "ok"
          | Err e => if N.eqb e EFuel then SA "fuel" else SA "err"
          | Panic _ => SA "panic"
          end
      | _, _ => sx_err "tlb-shape"
      end in
  match a with
  | SL [SB cmp; d; tr] => go cmp d tr [] no_resolver
  | SL [SB cmp; d; tr; SL paths] => go cmp d tr paths no_resolver
  | SL [SB cmp; d; tr; SL paths; SL pairs] => go cmp d tr paths (resolver_of pairs)
  | _ => sx_err "tlb"
  end.

(* c08.mapint: (tiny? z 'dest) -> 'ok | 'err | 'panic: VmStackValue.Unmarshal of an integer entry *)
Definition dkind_of (k : string) : dkind :=
  if String.eqb k "int" then DInt else if String.eqb k "uint" then DUint
  else if String.eqb k "bool" then DBool else if String.eqb k "bits256" then DBits256
  else if String.eqb k "int257" then DInt257 else if String.eqb k "bigint" then DBigInt
  else if String.eqb k "pbits256" then DPtrBits256 else if String.eqb k "pint257" then DPtrInt257
  else if String.eqb k "pother" then DPtrOther else DOther.
Definition run_mapint (a : sx) : sx :=
  match a with
  | SL [SB tiny; SZ z; SA k; SA _] =>
      match map_int (if tiny then STiny z else SBig z) (dkind_of k) with
      | Ok _ => SA "ok" | Err _ => SA "err" | Panic _ => SA "panic"
      end
  | _ => sx_err "mapint"
  end.

(* c08.tlbcost: modelled steps and allocation (evidence only) *)
Definition run_tlbcost (a : sx) : sx :=
  match a with
  | SL [SB _; d; tr] =>
      match yty_of_sx 400 d, xtree_of_sx 3000 tr with
      | Some t, Some c => let st := snd (yunmarshal [] (fun _ => true) no_resolver 400 t c) in SL [SN (c_steps st); SN (c_alloc st)]
      | _, _ => sx_err "tlb-shape"
      end
  | _ => sx_err "tlbcost"
  end.

Definition out_unit (r : res unit) : sx :=
  match r with Ok _ => SA "root" | Err _ => SA "err" | Panic _ => SA "panic" end.

(* c08.declen: bytes -> ('ok n restlen) | 'err | 'panic *)
Definition run_declen (a : sx) : sx :=
  match a with
  | SBytes b =>
      match decode_length b with
      | Ok (n, r) => SL [SA "ok"; SN n; sx_nat (List.length r)]
      | Err _ => SA "err" | Panic _ => SA "panic"
      end
  | _ => sx_err "declen"
  end.

(* c08.answer: (known payload) -> ('ok bytes) | 'err | 'panic *)
Definition run_answer (a : sx) : sx :=
  match a with
  | SL [SB known; SBytes p] =>
      match process_query_answer known p with
      | Ok d => SL [SA "ok"; SBytes d] | Err _ => SA "err" | Panic _ => SA "panic"
      end
  | _ => sx_err "answer"
  end.

(* c08.answer2: payload -> (first second): the same answer delivered twice to a
   client that registered the query once; the first delivery removes the id *)
Definition cls {A} (r : res A) : sx :=
  match r with Ok _ => SA "ok" | Err _ => SA "err" | Panic _ => SA "panic" end.
Definition run_answer2 (a : sx) : sx :=
  match a with
  | SBytes p =>
      (* without 36 bytes there is no id to register *)
      let registered := negb (short 36 p) in
      SL [cls (process_query_answer registered p); cls (process_query_answer false p)]
  | _ => sx_err "answer2"
  end.

(* c08.reader: ('conn payload) -> 'forward | 'consumed | 'panic   (Connection.reader, connected, no auth key)
               ('client payload) -> 'alive | 'panic                (Client.reader behind it)
               ('auth payload) -> 'authok | 'autherr | 'panic      (Connection.reader while authenticating) *)
Definition run_reader (a : sx) : sx :=
  match a with
  | SL [SA mode; SBytes p] =>
      if String.eqb mode "conn" then
        match conn_reader_step p with
        | Ok RForward => SA "forward" | Ok _ => SA "consumed" | Err _ => SA "err" | Panic _ => SA "panic"
        end
      else if String.eqb mode "client" then
        match conn_reader_step p with
        | Ok RForward => match client_reader_step false p with Panic _ => SA "panic" | _ => SA "alive" end
        | Ok _ => SA "alive" | Err _ => SA "alive" | Panic _ => SA "panic"
        end
      else
        match conn_reader_step p with
        | Ok RAuth => match auth_nonce p with Ok _ => SA "authok" | Err _ => SA "autherr" | Panic _ => SA "panic" end
        | Ok _ => SA "other" | Err _ => SA "other" | Panic _ => SA "panic"
        end
  | _ => sx_err "reader"
  end.

(* c08.nonce: payload -> 'ok | 'err | 'panic *)
Definition run_nonce (a : sx) : sx :=
  match a with
  | SBytes p => match auth_nonce p with Ok _ => SA "ok" | Err _ => SA "err" | Panic _ => SA "panic" end
  | _ => sx_err "nonce"
  end.

(* c08.packet: stream -> ('ok payload restlen) | 'err | 'panic *)
Definition run_packet (a : sx) : sx :=
  match a with
  | SBytes st =>
      match parse_packet sha256 st with
      | Ok (p, rest, _) => SL [SA "ok"; SBytes p; sx_nat (List.length rest)]
      | Err _ => SA "err" | Panic _ => SA "panic"
      end
  | _ => sx_err "packet"
  end.

Definition ok_root : list node -> nat -> res unit := fun _ _ => Ok tt.

(* c08.vmstack: the byte string inside the TL bytes -> 'skip | 'root | 'err | 'panic *)
Definition run_vmstack (a : sx) : sx :=
  match a with
  | SBytes [] => SA "skip"
  | SBytes b => out_unit (vmstack_after_tl ok_root b)
  | _ => sx_err "vmstack"
  end.
Definition run_methods (a : sx) : sx :=
  match a with
  | SBytes b => out_unit (parse_contract_methods ok_root b)
  | _ => sx_err "methods"
  end.
(* c08.gettx: (ids transactions) -> ('ok n) | 'err | 'panic, every root decodes *)
Definition run_gettx (a : sx) : sx :=
  match a with
  | SL [SN ids; SBytes b] =>
      match get_transactions ok_root (N.to_nat ids) b with
      | Ok n => SL [SA "ok"; sx_nat n] | Err _ => SA "err" | Panic _ => SA "panic"
      end
  | _ => sx_err "gettx"
  end.
(* c08.accproof: bytes -> 'root (two roots present) | 'err | 'panic *)
Definition run_accproof (a : sx) : sx :=
  match a with
  | SBytes b => out_unit (account_from_proof ok_root 1 1 (Some 0%nat) b)
  | _ => sx_err "accproof"
  end.

(* c08.reqdec: bytes -> 'short | 'unknown | ('req TypeName) | 'panic *)
Definition run_reqdec (a : sx) : sx :=
  match a with
  | SBytes b =>
      match request_decode tl_bindings tl_request_table h08_fuel b with
      | Ok (Some ty) => SL [SA "req"; SA ty]
      | Ok None => SA "unknown"
      | Err _ => SA "short"
      | Panic _ => SA "panic"
      end
  | _ => sx_err "reqdec"
  end.

(* c08.pktalloc: a stream (size field and little else) -> (outcome 'announced|'small): does ParsePacket
   allocate the announced length?  'announced is reported for lengths of at least 256 KiB only *)
Definition run_pktalloc (a : sx) : sx :=
  match a with
  | SBytes st =>
      let cls := match parse_packet sha256 st with Ok _ => "ok" | Err _ => "err" | Panic _ => "panic" end in
      SL [SA cls; SA (if N.leb (4 + 262144)%N (packet_prealloc st) then "announced" else "small")]
  | _ => sx_err "pktalloc"
  end.

(* c08.limit: 'name -> the constant the model has for a limit that the implementation compares
   an untrusted length with (the harness reads the implementation's from its source) *)
Definition c08_limit (name : string) : option N :=
  if String.eqb name "packet-min" then Some min_packet
  else if String.eqb name "packet-max" then Some max_packet
  else if String.eqb name "server-nonce-max" then Some max_server_nonce
  else if String.eqb name "tl-prealloc-max" then Some max_prealloc
  else None.
Definition run_limit (a : sx) : sx :=
  match a with
  | SA name => match c08_limit name with Some n => SN n | None => sx_err "limit" end
  | _ => sx_err "limit"
  end.

Definition run (name : string) (a : sx) : sx :=
  let is x := String.eqb name x in
  if is "c08.tl" then run_tl a
  else if is "c08.tlalloc" then run_tlalloc a
  else if is "c08.tlb" then run_tlb a
  else if is "c08.tlbcost" then run_tlbcost a
  else if is "c08.mapint" then run_mapint a
  else if is "c08.declen" then run_declen a
  else if is "c08.answer" then run_answer a
  else if is "c08.answer2" then run_answer2 a
  else if is "c08.reader" then run_reader a
  else if is "c08.reqdec" then run_reqdec a
  else if is "c08.pktalloc" then run_pktalloc a
  else if is "c08.limit" then run_limit a
  else if is "c08.nonce" then run_nonce a
  else if is "c08.packet" then run_packet a
  else if is "c08.vmstack" then run_vmstack a
  else if is "c08.methods" then run_methods a
  else if is "c08.gettx" then run_gettx a
  else if is "c08.accproof" then run_accproof a
  else sx_err "unknown case kind".
