(** Entry points of the C20 model (JSON forms) for the correspondence driver.

    c20.print  (fam arg value)  -> text | 'err
    c20.parse  (fam arg doc)    -> value | 'err      json.Unmarshal(doc, &x)
    c20.method (fam arg bytes)  -> value | 'err      x.UnmarshalJSON(bytes)
    c20.valid  doc              -> bool              json.Valid(doc)
    c20.unquote doc             -> bytes | 'err      json.Unmarshal(doc, &s), s a string

    fam/arg: 'uint w | 'int w | 'big _ | 'bits nbytes | 'grams | 'coins |
    'magic | 'cell | 'bitstring | 'addr | 'tonbits | 'tlint | 'acct |
    'maybe (fam arg) *)
From Coq Require Import List NArith ZArith String Bool.
From Tongo Require Import Lib.Bits Lib.Res Lib.Sx Model.BitString Model.BitStringD Model.BocParse Model.JsonText Model.Json.
Import ListNotations.
Local Open Scope string_scope.
Local Open Scope list_scope.

Definition out_res {A} (f : A -> sx) (r : res A) : sx :=
  match r with Ok a => f a | Err _ => SA "err" | Panic _ => SA "panic" end.

Definition sx_any (a : anycast) : sx :=
  match a with None => SA "no" | Some (d, p) => SL [SN d; SN p] end.
Definition any_of_sx (a : sx) : option anycast :=
  match a with
  | SA _ => Some None
  | SL [SN d; SN p] => Some (Some (d, p))
  | _ => None
  end.

Definition sx_addr (a : msgaddr) : sx :=
  match a with
  | AddrNone => SL [SA "none"]
  | AddrExtern b => SL [SA "ext"; SBits b]
  | AddrStd any wc addr => SL [SA "std"; sx_any any; SZ wc; SBytes addr]
  | AddrVar any alen wc b => SL [SA "var"; sx_any any; SN alen; SZ wc; SBits b]
  end.
Definition addr_of_sx (a : sx) : option msgaddr :=
  match a with
  | SL [SA _] => Some AddrNone
  | SL [SA _; SBits b] => Some (AddrExtern b)
  | SL [SA _; any; SZ wc; SBytes addr] =>
      match any_of_sx any with Some y => Some (AddrStd y wc addr) | None => None end
  | SL [SA _; any; SN alen; SZ wc; SBits b] =>
      match any_of_sx any with Some y => Some (AddrVar y alen wc b) | None => None end
  | _ => None
  end.

(* DeserializeBoc as the list of root cells, each projected to what the JSON
   property can observe of it without hashing *)
Definition deser_roots (bs : list N) : res (list sx) :=
  do p <- parse_boc bs;
  Ok (map (fun r => match nth_error (p_cells p) r with
                    | Some nd => SL [SBits (n_bits nd); sx_nat (List.length (n_refs nd)); SB (n_special nd)]
                    | None => sx_err "root index"
                    end) (p_roots p)).

(* printers: value sx -> text *)
Definition print_fam (nm : string) (arg v : sx) : option (res str) :=
  let is x := String.eqb nm x in
  match arg, v with
  | SN w, SN n => if is "uint" then Some (Ok (print_uint w n))
                  else if is "grams" then Some (Ok (print_grams n))
                  else if is "magic" then Some (Ok (print_magic n))
                  else None
  | SN w, SZ z => if is "int" then Some (Ok (print_int w z))
                  else if is "big" then Some (Ok (print_big z))
                  else if is "coins" then Some (Ok (print_coins z))
                  else None
  | SN _, SBytes bs => if is "bits" then Some (Ok (print_bytes_hex bs))
                       else if is "tonbits" then Some (Ok (print_bytes_hex bs))
                       else if is "tlint" then Some (print_tl_int256 bs)
                       else if is "cell" then
                         (* the case carries the serialiser's bytes; the C01 hypothesis of
                            C20_cell_roundtrip (they parse back to exactly one root) is
                            checked on them instead of being assumed *)
                         Some (print_cell (fun b => match deser_roots b with
                                                    | Ok [_] => Ok b
                                                    | _ => Err EOther
                                                    end) bs)
                       else None
  | SN free, SBits b =>
      (* the argument is the number of free bits of the writer's buffer: the
         buffer-level model of ToFiftHex runs on that state *)
      if is "bitstring" then
        Some (if (free <=? 2000)%N then print_bitstring_bs (written_bs b (N.to_nat free))
              else Ok (print_bitstring b))
      else None
  | SL [SBits tail], SBits b =>
      (* bits of tail switched on behind the length with On(n) *)
      if is "bitstring" then Some (print_bitstring_bs (on_bs b tail)) else None
  | SL [SBits tail], SL _ =>
      if is "addr" then
        match addr_of_sx v with
        | Some (AddrExtern b) => Some (Ok (print_msgaddr (AddrExtern (abs (on_bs b tail)))))
        | Some (AddrVar any alen wc b) => Some (Ok (print_msgaddr (AddrVar any alen wc (abs (on_bs b tail)))))
        | Some a => Some (Ok (print_msgaddr a))
        | None => None
        end
      else None
  | SL [SBits pre; SBits tail], SBits b =>
      (* the value is what ReadBits returns after |pre| bits of a source holding
         pre ++ b ++ tail: stale bits of tail stay behind its length *)
      if is "bitstring" then Some (do r <- read_bs pre b tail; print_bitstring_bs r) else None
  | SL [SBits pre; SBits tail], SL _ =>
      if is "addr" then
        match addr_of_sx v with
        | Some (AddrExtern b) =>
            Some (do r <- read_bs pre b tail; Ok (print_msgaddr (AddrExtern (abs r))))
        | Some (AddrVar any alen wc b) =>
            Some (do r <- read_bs pre b tail; Ok (print_msgaddr (AddrVar any alen wc (abs r))))
        | Some a => Some (Ok (print_msgaddr a))
        | None => None
        end
      else None
  | SN _, SL [SZ wc; SBytes addr] => if is "acct" then Some (print_account wc addr) else None
  | SN _, SL _ => if is "addr" then
                    match addr_of_sx v with Some a => Some (Ok (print_msgaddr a)) | None => None end
                  else None
  | _, _ => None
  end.

(* parsers: family -> text -> value sx *)
Definition parse_fam (nm : string) (arg : sx) : option (str -> sx) :=
  let is x := String.eqb nm x in
  match (match arg with SL _ => SN 0 | a => a end) with
  | SN w =>
      if is "uint" then Some (fun p => out_res SN (parse_uint_json w p))
      else if is "int" then Some (fun p => out_res SZ (parse_int_json w p))
      else if is "big" then Some (fun p => out_res SZ (parse_big_json p))
      else if is "bits" then Some (fun p => out_res SBytes (parse_bytes_hex (N.to_nat w) p))
      else if is "grams" then Some (fun p => out_res SN (parse_grams p))
      else if is "coins" then Some (fun p => out_res SZ (parse_coins p))
      else if is "magic" then Some (fun p => out_res SN (parse_magic p))
      else if is "cell" then Some (fun p => out_res (fun x => x) (parse_cell deser_roots p))
      else if is "bitstring" then Some (fun p => out_res SBits (parse_bitstring p))
      else if is "addr" then Some (fun p => out_res sx_addr (parse_msgaddr p))
      else if is "tonbits" then Some (fun p => out_res SBytes (parse_ton_bits256 p))
      else if is "tlint" then Some (fun p => out_res SBytes (parse_tl_int256 p))
      else if is "acct" then
        Some (fun p => out_res (fun '(wc, a) => SL [SZ wc; SBytes a]) (parse_account_json p))
      else None
  | _ => None
  end.

Definition sx_str (r : res str) : sx := out_res SBytes r.

Definition run_print (a : sx) : sx :=
  match a with
  | SL [SA nm; arg; v] =>
      if String.eqb nm "maybe" then
        match arg, v with
        | SL [SA inm; iarg], SA _ => SBytes s_null
        | SL [SA inm; iarg], SL [SA _; iv] =>
            match print_fam inm iarg iv with Some r => sx_str r | None => sx_err "print maybe" end
        | _, _ => sx_err "print maybe shape"
        end
      else match print_fam nm arg v with Some r => sx_str r | None => sx_err "print family" end
  | _ => sx_err "print"
  end.

(* the Ok/Err view of a family parser, to put Maybe on top of it *)
Definition as_res (f : str -> sx) (p : str) : res sx :=
  match f p with
  | SA a => if String.eqb a "err" then Err EOther else if String.eqb a "panic" then Panic PExplicit else Ok (SA a)
  | v => Ok v
  end.

Definition sx_maybe (m : option sx) : sx :=
  match m with None => SA "none" | Some v => SL [SA "some"; v] end.

Definition run_parse_with (direct : bool) (a : sx) : sx :=
  match a with
  | SL [SA nm; arg; SBytes doc] =>
      let top {A} (pa : str -> res A) : res A :=
        if direct then pa doc else json_unmarshal pa doc in
      if String.eqb nm "maybe" then
        match arg with
        | SL [SA inm; iarg] =>
            match parse_fam inm iarg with
            | Some f => out_res sx_maybe (top (parse_maybe (as_res f)))
            | None => sx_err "parse maybe family"
            end
        | _ => sx_err "parse maybe shape"
        end
      else
        match parse_fam nm arg with
        | Some f => out_res (fun x => x) (top (as_res f))
        | None => sx_err "parse family"
        end
  | _ => sx_err "parse"
  end.

Definition run_parse : sx -> sx := run_parse_with false.
Definition run_method : sx -> sx := run_parse_with true.

(* the trusted part of encoding/json that the model re-implements, compared on
   its own: json.Valid, and json.Unmarshal into a Go string *)
Definition run_valid (a : sx) : sx :=
  match a with SBytes doc => SB (json_valid doc) | _ => sx_err "valid" end.
Definition run_unquote (a : sx) : sx :=
  match a with SBytes doc => out_res SBytes (json_unmarshal_string doc) | _ => sx_err "unquote" end.
