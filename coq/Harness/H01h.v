(** Entry point for histories of builder operations and serialisations (C01):
    c01.hist.  The answers are those of Model/BocHist.v with the SHA-256
    representation hashes of the CURRENT array; the caller's hasher number and
    everything serialised before are ignored — that is the claim. *)
From Coq Require Import List NArith ZArith String Bool.
From Tongo Require Import Lib.Bits Lib.Res Lib.Sx Model.BocParse Model.BocSer Model.BocHist Harness.H01.
Import ListNotations.
Local Open Scope string_scope.
Local Open Scope list_scope.

Definition hstep_of_sx (a : sx) : option hstep :=
  match a with
  | SL [SA op; SN k; SBits b] =>
      if String.eqb op "w" then Some (HWrite (N.to_nat k) b) else None
  | SL [SA op; SN k; SN j] =>
      if String.eqb op "r" then Some (HRef (N.to_nat k) (N.to_nat j)) else None
  | SL [SA op; SN k; SB special; SN mask] =>
      if String.eqb op "t" then Some (HType (N.to_nat k) special mask) else None
  | SL [SA op; SN api; SN k; SB idx; SB crc; SB cache; SN h] =>
      if String.eqb op "s" then Some (HSer (N.to_nat api) (N.to_nat k) idx crc cache (N.to_nat h)) else None
  | _ => None
  end.

Fixpoint hsteps_of_sx (l : list sx) : option (list hstep) :=
  match l with
  | [] => Some []
  | a :: t =>
      match hstep_of_sx a, hsteps_of_sx t with
      | Some s, Some ss => Some (s :: ss)
      | _, _ => None
      end
  end.

(* slot numbers are compared with the (small) slot count before any use *)
Definition small_step (K : N) (a : sx) : bool :=
  match a with
  | SL [SA _; SN k; SBits _] => (k <? K)%N
  | SL [SA _; SN k; SN j] => (k <? K)%N && (j <? K)%N
  | SL [SA _; SN k; SB _; SN _] => (k <? K)%N
  | SL [SA _; SN api; SN k; SB _; SB _; SB _; SN h] => (api <? 4)%N && (k <? K)%N && (h <? 16)%N
  | _ => false
  end.

Definition out_sx (o : list node * nat * res bytes) : sx :=
  let '(st, k, r) := o in
  match r with
  | Ok out => SL [SBytes out; SB (certificate st k out)]
  | Err _ => SA "err"
  | Panic _ => SA "panic"
  end.

(* c01.hist: (K (step ...)) -> ((bytes cert) | 'err ...) one per serialisation | 'err *)
Definition run_hist (a : sx) : sx :=
  match a with
  | SL [SN K; SL steps] =>
      if (K <=? 64)%N && forallb (small_step K) steps then
        match hsteps_of_sx steps with
        | Some ss =>
            match hist_run hashes_of (hist_init (N.to_nat K)) ss with
            | Some (_, outs) => SL (map out_sx outs)
            | None => SA "err"
            end
        | None => sx_err "steps"
        end
      else SA "err"
  | _ => sx_err "hist"
  end.
