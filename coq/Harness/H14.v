(** Entry points for the wallet message model (C14).  Signatures and the
    verification verdicts of Ed25519 are oracle columns of the case. *)
From Coq Require Import List NArith ZArith String Bool.
From Tongo Require Import Lib.Bits Lib.Res Lib.Sx Spec.Sha256 Model.BocParse Model.CellHash
  Spec.ReprHash Proofs.CellHashP Model.Wallet Model.WalletTransfer.
From Tongo Require Model.TlbCore.
Import ListNotations.
Local Open Scope string_scope.
Local Open Scope list_scope.

(* Cell.Hash with the Gallina SHA-256 (= repr_hash sha256 by C02) *)
Definition xhash (c : cell) : res bytes := do im <- imm_of sha256 c; cell_hash im.

(** cell trees: (special mask bits (child ...)) *)
Fixpoint cell_of_sx (a : sx) : option cell :=
  match a with
  | SL [SB special; SN mask; SBits b; SL kids] =>
      let ty := if special then N_of_bits (firstn 8 b) else 0%N in
      let special' := special && negb (N.eqb ty 0) in
      match (fix go (l : list sx) : option (list cell) :=
               match l with
               | [] => Some []
               | x :: t => match cell_of_sx x, go t with
                           | Some c, Some cs => Some (c :: cs)
                           | _, _ => None
                           end
               end) kids with
      | Some ks => Some (Cell special' (if special' then ty else 0%N) mask b ks)
      | None => None
      end
  | _ => None
  end.

Fixpoint sx_of_cell (c : cell) : sx :=
  match c with
  | Cell special _ m d rs =>
      SL [SB special; SN m; SBits d;
          SL ((fix go (l : list cell) : list sx :=
                 match l with [] => [] | x :: t => sx_of_cell x :: go t end) rs)]
  end.

Definition ver_of_N (n : N) : option version :=
  nth_error [V1R1; V1R2; V1R3; V2R1; V2R2; V3R1; V3R2; V3R2Lockup; V4R1; V4R2; V5Beta; V5R1;
             HLV1R1; HLV1R2; HLV2; HLV2R1; HLV2R2] (N.to_nat (N.min n 100)).

Definition optZ (a : sx) : option Z := match a with SL [SZ z] => Some z | _ => None end.
Definition optN (a : sx) : option N := match a with SL [SN n] => Some n | _ => None end.
Definition opts_of_sx (a : sx) : options :=
  match a with
  | SL [w; s; n] => mkopt (optZ w) (optN s) (optZ n)
  | _ => mkopt None None None
  end.

Fixpoint msgs_of_sx (l : list sx) : option (list rawmsg) :=
  match l with
  | [] => Some []
  | SL [c; SN mode] :: t =>
      match cell_of_sx c, msgs_of_sx t with
      | Some c', Some r => Some (mkraw c' mode :: r)
      | _, _ => None
      end
  | _ => None
  end.

Definition sx_of_msgs (ms : list rawmsg) : sx :=
  SL (map (fun m => SL [sx_of_cell (rm_msg m); SN (rm_mode m)]) ms).

Definition out_res {A} (f : A -> sx) (r : res A) : sx :=
  match r with
  | Ok a => f a
  | Err e => if N.eqb e EUnmodelled then SA "unmodelled" else SA "err"
  | Panic _ => SA "panic"
  end.

Definition hash_sx (c : cell) : sx := out_res SBytes (xhash c).

(** MsgAddress and v5r1 extended actions *)
Definition any_sx (a : option (N * N)) : sx :=
  match a with None => SL [] | Some (d, p) => SL [SN d; SN p] end.
Definition any_of_sx (a : sx) : option (N * N) :=
  match a with SL [SN d; SN p] => Some (d, p) | _ => None end.
Definition addr_sx (a : TlbCore.addrv) : sx :=
  match a with
  | TlbCore.ANone => SA "none"
  | TlbCore.AExt l => SL [SA "ext"; SBits l]
  | TlbCore.AStd an wc ad => SL [SA "std"; any_sx an; SZ wc; SBits ad]
  | TlbCore.AVar an wc ad => SL [SA "var"; any_sx an; SZ wc; SBits ad]
  end.
Definition addr_of_sx (a : sx) : TlbCore.addrv :=
  match a with
  | SL [SA _; SBits l] => TlbCore.AExt l
  | SL [SA k; an; SZ wc; SBits ad] =>
      if String.eqb k "std" then TlbCore.AStd (any_of_sx an) wc ad else TlbCore.AVar (any_of_sx an) wc ad
  | _ => TlbCore.ANone
  end.
Definition ext_sx (x : extaction) : sx :=
  match x with
  | XAdd a => SL [SA "add"; addr_sx a]
  | XRemove a => SL [SA "remove"; addr_sx a]
  | XSetSig b => SL [SA "sig"; SB b]
  end.
Definition ext_of_sx (a : sx) : extaction :=
  match a with
  | SL [SA k; SB b] => XSetSig b
  | SL [SA k; ad] => if String.eqb k "add" then XAdd (addr_of_sx ad) else XRemove (addr_of_sx ad)
  | _ => XSetSig false
  end.
Definition exts_of_sx (a : sx) : option (list extaction) :=
  match a with SL [SL l] => Some (map ext_of_sx l) | _ => None end.
Definition exts_sx (o : option (list extaction)) : sx :=
  match o with None => SL [] | Some l => SL [SL (map ext_sx l)] end.

Definition no_verify (_ : bits) (_ : bytes) (_ : bits) : bool := false.

(* c14.send: (ver pk opts seqno valid msgs init rnd sig addr seed rseed) ->
   (ext-hash ext-bits body-hash body-bits body-nrefs) | 'err | 'panic *)
Definition run_send (a : sx) : sx :=
  match a with
  | SL [SN ver; SBytes pk; opts; SN seqno; SZ valid; SL msgs; init; SN rnd; SBytes sg; SBytes addr; _; _] =>
      match ver_of_N ver, msgs_of_sx msgs with
      | None, Some _ => SA "err"
      | Some v, Some ms =>
          let sign (_ : unit) (_ : bytes) := bytes_to_bits sg in
          let ini := match init with SL [c] => cell_of_sx c | _ => None end in
          out_res (fun he =>
                     let e := snd he in
                     let body := last (crefs e) e in
                     SL [SBytes (fst he); SBits (cdata e); SBits (cdata body);
                         sx_nat (List.length (crefs body))])
            (do w <- new_wallet (bytes_to_bits pk) v (opts_of_sx opts);
             raw_send_msg unit xhash sign w tt (w_wc w) (bytes_to_bits addr) seqno valid ms ini rnd)
      | _, _ => sx_err "send args"
      end
  | _ => sx_err "send"
  end.

(* a Sendable description (kind amount wc addr bounce mode body code data comment):
   kind 0 = wallet.Message, 1 = wallet.SimpleTransfer *)
Definition opt_ct (a : sx) : option (option TlbCore.ctree) :=
  match a with
  | SL [] => Some None
  | SL [c] => match cell_of_sx c with
              | Some x => match ct_of_cell x with Some y => Some (Some y) | None => None end
              | None => None
              end
  | _ => None
  end.
Definition transfer_of_sx (a : sx) : option (res transfer) :=
  match a with
  | SL [SN kind; SN amount; SZ wc; SBytes addr; SB bounce; SN mode; body; code; data; SBytes comment] =>
      if N.eqb kind 0 then
        match opt_ct body, opt_ct code, opt_ct data with
        | Some b, Some c, Some d =>
            Some (Ok (mktr amount wc (bytes_to_bits addr) bounce b
                           (match c, d with Some c', Some d' => Some (c', d') | _, _ => None end) mode))
        | _, _, _ => None
        end
      else if N.eqb kind 2 then
        (* wallet.ContractDeploy: destination = (workchain, hash of the state-init) *)
        match opt_ct body, opt_ct code, opt_ct data with
        | Some b, Some c, Some d => Some (deploy_transfer xhash wc c d b amount)
        | _, _, _ => None
        end
      else
        Some (Ok (mktr amount wc (bytes_to_bits addr) bounce
                       (match comment with [] => None | _ => Some (comment_body comment) end) None 3))
  | _ => None
  end.
Fixpoint transfers_of_sx (l : list sx) : option (res (list transfer)) :=
  match l with
  | [] => Some (Ok [])
  | a :: t => match transfer_of_sx a, transfers_of_sx t with
              | Some x, Some xs => Some (do x' <- x; do xs' <- xs; Ok (x' :: xs'))
              | _, _ => None
              end
  end.

(* c14.body: createSignedMsgBodyCell without the count check of RawSendV2; for
   v5r1 with the extended actions of the exported CreateSignedMsgBodyCell:
   (ver pk opts seqno valid msgs msgtype rnd sig seed rseed sendables ext) -> (body-hash body-bits nrefs) *)
Definition run_body (a : sx) : sx :=
  match a with
  | SL [SN ver; SBytes pk; opts; SN seqno; SZ valid; SL msgs; SN msgtype; SN rnd; SBytes sg; _; _; SL sendables; ext] =>
      match ver_of_N ver, msgs_of_sx msgs with
      | Some v, Some ms0 =>
          let sign (_ : unit) (_ : bytes) := bytes_to_bits sg in
          out_res (fun body => SL [hash_sx body; SBits (cdata body); sx_nat (List.length (crefs body))])
            (do w <- new_wallet (bytes_to_bits pk) v (opts_of_sx opts);
             (* with Sendables the carried cells are computed by the transfer model *)
             do ms <- match sendables, transfers_of_sx sendables with
                      | _ :: _, Some ts => do ts' <- ts; internal_msgs ts'
                      | _, _ => Ok ms0
                      end;
             match v, exts_of_sx ext with
             | V5R1, Some xs => create_body_v5r1x unit xhash sign w tt ms (Some xs) seqno valid msgtype
             | _, _ => create_body unit xhash sign w tt ms seqno valid msgtype rnd
             end)
      | _, _ => sx_err "body args"
      end
  | _ => sx_err "body"
  end.

(* oracle table of ed25519.Verify: ((pk hash sig verdict) ...) *)
Definition table_verify (tbl : list sx) (pk : bits) (h : bytes) (sg : bits) : bool :=
  existsb (fun e => match e with
                    | SL [SBytes p; SBytes h'; SBytes s; SB r] =>
                        r && bytes_eqb h h' &&
                        Nat.eqb (List.length pk) (8 * List.length p) &&
                        forallb (fun x => Bool.eqb (fst x) (snd x)) (combine pk (bytes_to_bits p)) &&
                        Nat.eqb (List.length sg) (8 * List.length s) &&
                        forallb (fun x => Bool.eqb (fst x) (snd x)) (combine sg (bytes_to_bits s))
                    | _ => false
                    end) tbl.

(* the verdict on (signature, hash): the hash that was checked is part of the
   result so that a rejection is compared too *)
Definition verdict (tbl : list sx) (pk : bits) (x : res (bits * bytes)) : sx :=
  match x with
  | Ok (sg, h) =>
      match verify_prim (table_verify tbl) pk h sg with
      | Ok _ => SL [SA "ok"; SBytes h]
      | Err _ => SL [SA "badsig"; SBytes h]
      | Panic _ => SA "panic"
      end
  | Err e => if N.eqb e EUnmodelled then SA "unmodelled" else SA "err"
  | Panic _ => SA "panic"
  end.

(* c14.verify: (ver msg pk table) -> ('ok h) | ('badsig h) | 'err | 'panic;
   this is verify_signature unfolded once (Proofs/WalletP.v: verify_signature_unfold) *)
Definition run_verify (a : sx) : sx :=
  match a with
  | SL [SN ver; m; SBytes pk; SL tbl] =>
      match ver_of_N ver, cell_of_sx m with
      | None, Some _ => SA "err"
      | Some v, Some mc =>
          match verify_layout v with
          | Some appended =>
              verdict tbl (bytes_to_bits pk)
                      (do e <- parse_ext xhash mc; signed_hash xhash appended (e_body e))
          | None => SA "err"
          end
      | _, _ => sx_err "verify args"
      end
  | _ => sx_err "verify"
  end.

(* c14.v5verify: MessageV5VerifySignature on a body cell: (body pk table) *)
Definition run_v5verify (a : sx) : sx :=
  match a with
  | SL [b; SBytes pk; SL tbl] =>
      match cell_of_sx b with
      | Some bc => verdict tbl (bytes_to_bits pk) (signed_hash xhash true bc)
      | None => sx_err "v5verify args"
      end
  | _ => sx_err "v5verify"
  end.

(* c14.decode: (ver msg) -> (id valid seqno extra ((cell mode) ...) ext-actions) | 'err *)
Definition run_decode (a : sx) : sx :=
  match a with
  | SL [SN ver; m] =>
      match ver_of_N ver, cell_of_sx m with
      | None, Some _ => SA "err"
      | Some v, Some mc =>
          let ext := match v with
                     | V5R1 => match (do e <- parse_ext xhash mc; decode_v5r1x (e_body e)) with
                               | Ok x => exts_sx (snd x)
                               | _ => SL []
                               end
                     | _ => SL []
                     end in
          out_res (fun d => SL [SN (d_id d); SN (d_valid d); SN (d_seqno d); SN (d_extra d);
                                sx_of_msgs (d_msgs d); ext])
                  (decode_msg xhash v mc)
      | _, _ => sx_err "decode args"
      end
  | _ => sx_err "decode"
  end.

(* c14.expiry: Wallet.CreateMessageBody on a wallet created WithMessageLifetime:
   (ver pk opts life cfgvalid seqno msgs seed) -> (expiry seqno message-count) | 'err.
   life / cfgvalid: () = option not given / zero ValidUntil, else (ns) / (unix seconds).
   The model's clock reads 0, so a default expiry comes out as the lifetime in
   seconds; the harness reports the implementation's expiry relative to its clock. *)
Definition run_expiry (a : sx) : sx :=
  match a with
  | SL (SN ver :: SBytes pk :: opts :: life :: cfg :: SN seqno :: SL msgs :: _) =>
      match ver_of_N ver, msgs_of_sx msgs with
      | None, Some _ => SA "err"
      | Some v, Some ms =>
          let sign (_ : unit) (_ : bytes) := zeros 512 in
          out_res (fun d => SL [SN (d_valid d); SN (d_seqno d); sx_nat (List.length (d_msgs d))])
            (do w <- new_wallet (bytes_to_bits pk) v (opts_of_sx opts);
             do body <- api_create_message_body unit xhash sign w tt (lifetime_of (optZ life)) 0 (optZ cfg)
                          ms seqno op_signed_external 0;
             match v with
             | V5Beta => decode_v5beta body | V5R1 => decode_v5r1 body
             | V4R1 | V4R2 => decode_v4 body | V3R1 | V3R2 => decode_v3 body
             | HLV2R2 => decode_hl body | _ => Err EWallet
             end)
      | _, _ => sx_err "expiry args"
      end
  | _ => sx_err "expiry"
  end.

(* c14.entry: the same Sendables through one of the sending entry points
   (0 Send, 1 SendV2, 2 RawSend, 3 RawSendV2, 4 CreateMessageBody) of a wallet on a
   non-existent account: (ver pk opts entry seqno valid sendables seed) ->
   (wallet-id seqno ((cell mode) ...) expiry|'default) | 'err.
   Send / SendV2 take seqno 0 from the account state and a clock-dependent expiry. *)
Definition run_entry (a : sx) : sx :=
  match a with
  | SL (SN ver :: SBytes pk :: opts :: SN entry :: SN seqno :: SZ valid :: SL sendables :: _) =>
      match ver_of_N ver, transfers_of_sx sendables with
      | None, _ => SA "err"
      | Some v, Some ts =>
          let sign (_ : unit) (_ : bytes) := zeros 512 in
          let by_send := (entry <? 2)%N in
          out_res (fun d => SL [SN (d_id d); SN (d_seqno d); sx_of_msgs (d_msgs d);
                                if by_send then SA "default" else SN (d_valid d)])
            (do w <- new_wallet (bytes_to_bits pk) v (opts_of_sx opts);
             do ts' <- ts;
             do ms <- internal_msgs ts';
             if (max_messages v <? List.length ms)%nat && negb (N.eqb entry 4) then Err EWallet else
             do body <- create_body unit xhash sign w tt ms (if by_send then 0%N else seqno) valid op_signed_external 0;
             match v with
             | V5Beta => decode_v5beta body | V5R1 => decode_v5r1 body
             | V4R1 | V4R2 => decode_v4 body | V3R1 | V3R2 => decode_v3 body
             | HLV2R2 => decode_hl body | _ => Err EWallet
             end)
      | _, _ => sx_err "entry args"
      end
  | _ => sx_err "entry"
  end.

Definition run (name : string) (a : sx) : sx :=
  let is x := String.eqb name x in
  if is "c14.send" then run_send a
  else if is "c14.body" then run_body a
  else if is "c14.verify" then run_verify a
  else if is "c14.v5verify" then run_v5verify a
  else if is "c14.decode" then run_decode a
  else if is "c14.expiry" then run_expiry a
  else if is "c14.entry" then run_entry a
  else sx_err "unknown case kind".
