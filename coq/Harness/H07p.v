(** Entry point for the printing traversal of parsed cells (C07). *)
From Coq Require Import List NArith ZArith String.
From Tongo Require Import Lib.Res Lib.Sx Model.BocParse Model.CellPrint.
Import ListNotations.
Local Open Scope string_scope.

(* c07.lines: bytes -> 'err | 'panic | (number of lines of ToString() per root) *)
Definition run_lines (a : sx) : sx :=
  match a with
  | SBytes bs =>
      match parse_boc bs with
      | Ok p => SL (map (fun r => SN (to_string_lines (p_cells p) r)) (p_roots p))
      | Err _ => SA "err"
      | Panic _ => SA "panic"
      end
  | _ => sx_err "lines"
  end.
