(** Executable entry point of the C12 model for the correspondence driver:
    a scripted server against N concurrent calls. *)
From Coq Require Import List NArith ZArith String Bool.
From Tongo Require Import Lib.Bits Lib.Sx Model.Client.
Import ListNotations.
Local Open Scope string_scope.
Local Open Scope list_scope.

Definition small (n : N) : nat := N.to_nat (N.min n 4096).
Definition qid (i : nat) : N := (1 + N.of_nat i)%N.
Definition unknown_id (d : N) : N := (1000000 + d)%N.

(* one server emission: connection and packet *)
Definition emission (o : sx) : option (nat * packet) :=
  match o with
  | SL (SA nm :: SN k :: args) =>
      let is x := String.eqb nm x in
      match args with
      | [SN i; SN d] => if is "ans" then Some (small k, PAnswer (qid (small i)) d) else None
      | [SN a] =>
          if is "unk" then Some (small k, PAnswer (unknown_id a) a)
          else if is "mal" then Some (small k, PMalformed (qid (small a)))
          else None
      | [] =>
          if is "pong" then Some (small k, PPong)
          else if is "junk" then Some (small k, PJunk)
          else if is "short" then Some (small k, PJunk)
          else None
      | _ => None
      end
  | _ => None
  end.

Fixpoint labels_of (ems : list sx) : option (list label) :=
  match ems with
  | [] => Some []
  | o :: t =>
      match emission o, labels_of t with
      | Some (k, p), Some ls => Some (LEmit k p :: LDeliver k :: ls)
      | _, _ => None
      end
  end.

Definition start_calls (n : nat) : list label :=
  flat_map (fun i => [LRegister i; LPick i; LSendOk i]) (seq 0 n).

Definition out_result (r : call_pc) : sx :=
  match r with
  | CReturned (ROk d) => SL [SA "ok"; SN d]
  | CReturned RTimeout => SA "timeout"
  | CReturned RSendErr => SA "err"
  | _ => sx_err "not returned"
  end.

(* every call takes the receive branch if its channel holds data, else times out *)
Fixpoint finish_calls (nconn : nat) (n : nat) (s : state) (i : nat) : option state :=
  match n with
  | O => Some s
  | S n' =>
      let l := match ch s i with Some _ => LRecv i | None => LTimeout i end in
      match run nconn qid s [l; LUnregister i] with
      | Some s' => finish_calls nconn n' s' (S i)
      | None => None
      end
  end.

(* (nconn ncalls (emission ...)) -> ((result per call) registry-size) *)
Definition run_script (a : sx) : sx :=
  match a with
  | SL [SN nc; SN n; SL ems] =>
      let nconn := small nc in
      let ncalls := small n in
      match labels_of ems with
      | None => sx_err "script ops"
      | Some ls =>
          match run nconn qid init_state (start_calls ncalls ++ ls) with
          | None => sx_err "script blocked"
          | Some s1 =>
              match finish_calls nconn ncalls s1 0 with
              | None => sx_err "finish blocked"
              | Some s2 => SL [SL (map (fun i => out_result (pc s2 i)) (seq 0 ncalls));
                               sx_nat (List.length (reg s2))]
              end
          end
      end
  | _ => sx_err "script"
  end.

Definition run (name : string) (a : sx) : sx :=
  if String.eqb name "c12.script" then run_script a else sx_err "unknown case kind".
