(** Executable entry points of the C12 model for the correspondence driver.
    c12.script : a synchronised script (every packet is processed before the next
                 operation); the model predicts each call's result and the registry sizes.
    c12.race   : all packets written at once on several connections; the observed
                 results are accepted iff some order of the readers' steps produces them.
    c12.seq    : an observed history of sequential calls, connection drops and
                 reconnects; accepted iff the model can perform it.
    Acceptance always goes through [step]: an accepted history is a trace of the model. *)
From Coq Require Import List NArith ZArith String Bool.
From Tongo Require Import Lib.Bits Lib.Sx Model.Client.
Import ListNotations.
Local Open Scope string_scope.
Local Open Scope list_scope.

Definition small (n : N) : nat := N.to_nat (N.min n 4096).
Definition qid (i : nat) : N := (1 + N.of_nat i)%N.
Definition unknown_id (d : N) : N := (1000000 + d)%N.

(* one server emission: connection and packet *)
Definition emission (nm : string) (args : list sx) : option (nat * packet) :=
  let is x := String.eqb nm x in
  match args with
  | [SN k; SN i; SN d] =>
      if is "ans" then Some (small k, PAnswer (qid (small i)) d)
      else if is "mal" then Some (small k, PMalformed (qid (small i)))
      else if is "wrong" then Some (small k, PJunk)      (* a well-formed answer under another magic *)
      else None
  | [SN k; SN a] =>
      if is "unk" then Some (small k, PAnswer (unknown_id a) a)
      else if is "short" then Some (small k, PJunk)      (* answer magic + id only: 36 bytes *)
      else if is "pong" then Some (small k, PPong)
      else if is "junk" then Some (small k, PJunk)
      else None
  | [SN k] => if is "nonce" then Some (small k, PPong) else None
  | _ => None
  end.

Definition out_result (r : call_pc) : sx :=
  match r with
  | CInit => SA "notstarted"
  | CReturned (ROk d) => SL [SA "ok"; SN d]
  | CReturned RTimeout => SA "expired"
  | CReturned RSendErr => SA "err"
  | _ => sx_err "not returned"
  end.

(* a waiting call takes the receive branch if its channel holds data, else its deadline expires *)
Definition finish_call (nconn : nat) (s : state) (i : nat) : option state :=
  match pc s i with
  | CSent => exec nconn qid s [match ch s i with Some _ => LRecv i | None => LTimeout i end; LUnregister i]
  | _ => Some s
  end.

Fixpoint finish_all (nconn n : nat) (s : state) (i : nat) : option state :=
  match n with
  | O => Some s
  | S n' => match finish_call nconn s i with
            | Some s' => finish_all nconn n' s' (S i)
            | None => None
            end
  end.

Definition outcomes (ncalls : nat) (s : state) : sx :=
  SL (map (fun i => out_result (pc s i)) (seq 0 ncalls)).

(** ---- c12.script ---- *)

(* caller contexts: 1 = deadline far later than the client timeout, 2 = deadline at a
   third of it, 3 = cancel-only context, 4 = cancelled by the caller *)
Fixpoint ctx_of (i : nat) (cx : list (nat * N)) : option N :=
  match cx with
  | [] => None
  | (j, m) :: t => if Nat.eqb i j then Some m else ctx_of i t
  end.

(* which deadline ends an unanswered call, in thirds of the client timeout *)
Definition expiry (m : N) : string :=
  if N.eqb m 4 then "cancelled"
  else let caller := if N.eqb m 3 then None else Some (if N.eqb m 2 then 1 else 30) in
       if Nat.ltb (effective_deadline 3 caller) 3 then "caller" else "client".

Definition out_result_ctx (cx : list (nat * N)) (i : nat) (r : call_pc) : sx :=
  match r with
  | CReturned RTimeout =>
      match ctx_of i cx with
      | None => SA "expired"
      | Some m => SL [SA "expired"; SA (expiry m)]
      end
  | _ => out_result r
  end.

Definition start_labels (i : nat) : list label := [LRegister i; LPick i; LSendOk i].

Fixpoint interp (nconn ncalls : nat) (ops : list sx) (s : state) (regs : list sx) (cx : list (nat * N))
  : option (state * list sx * list (nat * N)) :=
  match ops with
  | [] => Some (s, rev regs, cx)
  | SL (SA nm :: args) :: t =>
      let is x := String.eqb nm x in
      if is "start" then
        match args with
        | [SN i] => match exec nconn qid s (start_labels (small i)) with
                    | Some s' => interp nconn ncalls t s' regs cx
                    | None => None
                    end
        | _ => None
        end
      else if is "startctx" then
        match args with
        | [SN i; SN m] => match exec nconn qid s (start_labels (small i)) with
                          | Some s' => interp nconn ncalls t s' regs ((small i, m) :: cx)
                          | None => None
                          end
        | _ => None
        end
      else if is "cancel" then           (* the caller cancels its context: the select's Done branch *)
        match args with
        | [SN i] =>
            match pc s (small i), ch s (small i) with
            | CSent, None => match exec nconn qid s [LTimeout (small i); LUnregister (small i)] with
                             | Some s' => interp nconn ncalls t s' regs ((small i, 4%N) :: cx)
                             | None => None
                             end
            | _, _ => None
            end
        | _ => None
        end
      else if is "finish" then
        match finish_all nconn ncalls s 0 with
        | Some s' => interp nconn ncalls t s' regs cx
        | None => None
        end
      else if is "reg" then interp nconn ncalls t s (sx_nat (List.length (reg s)) :: regs) cx
      else if is "drop" then
        match args with
        | SN k :: _ => match step nconn qid s (LDrop (small k)) with
                       | Some s' => interp nconn ncalls t s' regs cx
                       | None => None
                       end
        | _ => None
        end
      else
        match emission nm args with
        | Some (k, p) => match exec nconn qid s [LEmit k p; LDeliver k] with
                         | Some s' => interp nconn ncalls t s' regs cx
                         | None => None
                         end
        | None => None
        end
  | _ => None
  end.

(* (nconn ncalls (op ...)) -> ((result per call) (registry size per 'reg)) *)
Definition run_script (a : sx) : sx :=
  match a with
  | SL [SN nc; SN n; SL ops] =>
      let nconn := small nc in
      let ncalls := small n in
      match interp nconn ncalls ops init_state_without_pinger [] [] with
      | None => sx_err "script blocked"
      | Some (s, regs, cx) => SL [SL (map (fun i => out_result_ctx cx i (pc s i)) (seq 0 ncalls)); SL regs]
      end
  | _ => sx_err "script"
  end.

(** ---- c12.race ---- *)

Inductive obs := OOk (d : N) | OExpired | OErr.

Definition parse_obs (o : sx) : option obs :=
  match o with
  | SL [SA nm; SN d] => if String.eqb nm "ok" then Some (OOk d) else None
  | SA nm => if String.eqb nm "expired" then Some OExpired
             else if String.eqb nm "err" then Some OErr else None
  | _ => None
  end.

Fixpoint parse_all {A} (f : sx -> option A) (l : list sx) : option (list A) :=
  match l with
  | [] => Some []
  | x :: t => match f x, parse_all f t with
              | Some a, Some r => Some (a :: r)
              | _, _ => None
              end
  end.

Definition parse_emission (o : sx) : option (nat * packet) :=
  match o with
  | SL (SA nm :: args) => emission nm args
  | _ => None
  end.

(* may the reader of a connection process this packet now, given the observed results? *)
Definition safe_head (s : state) (ob : list obs) (p : packet) : bool :=
  match p with
  | PPong | PJunk => true
  | PAnswer id d =>
      match lookup id (reg s) with
      | None => true
      | Some i => match nth_error ob i with
                  | Some (OOk d') => N.eqb d d'
                  | _ => false
                  end
      end
  | PMalformed id =>
      match lookup id (reg s) with
      | None => true
      | Some i => match nth_error ob i with
                  | Some OExpired => true
                  | _ => false
                  end
      end
  end.

Fixpoint find_safe (s : state) (ob : list obs) (ks : list nat) : option nat :=
  match ks with
  | [] => None
  | k :: t => match wire s k with
              | p :: _ => if safe_head s ob p then Some k else find_safe s ob t
              | [] => find_safe s ob t
              end
  end.

Definition wires_empty (s : state) (ks : list nat) : bool :=
  forallb (fun k => match wire s k with [] => true | _ => false end) ks.

(* deliver safe heads until every wire is empty; delivering a safe head never
   disables another one, so the greedy order loses no witness *)
Fixpoint schedule (fuel : nat) (nconn : nat) (s : state) (ob : list obs) : option state :=
  if wires_empty s (seq 0 nconn) then Some s else
  match fuel with
  | O => None
  | S f => match find_safe s ob (seq 0 nconn) with
           | None => None
           | Some k => match step nconn qid s (LDeliver k) with
                       | Some s' => schedule f nconn s' ob
                       | None => None
                       end
           end
  end.

Definition start_calls (n : nat) : list label :=
  flat_map (fun i => [LRegister i; LPick i; LSendOk i]) (seq 0 n).

Definition obs_sx (o : obs) : sx :=
  match o with OOk d => SL [SA "ok"; SN d] | OExpired => SA "expired" | OErr => SA "err" end.

Definition sx_eqb_outcome (a b : sx) : bool :=
  match a, b with
  | SA x, SA y => String.eqb x y
  | SL [SA x; SN d], SL [SA y; SN e] => String.eqb x y && N.eqb d e
  | _, _ => false
  end.

Fixpoint all2 {A} (f : A -> A -> bool) (l1 l2 : list A) : bool :=
  match l1, l2 with
  | [], [] => true
  | x :: t1, y :: t2 => f x y && all2 f t1 t2
  | _, _ => false
  end.

(* (nconn ncalls (emission ...) (observed result ...)) -> ('accept registry-size) | ('reject reason) *)
Definition run_race (a : sx) : sx :=
  match a with
  | SL [SN nc; SN n; SL ems; SL outs] =>
      let nconn := small nc in
      let ncalls := small n in
      match parse_all parse_emission ems, parse_all parse_obs outs with
      | Some es, Some ob =>
          match exec nconn qid init_state_without_pinger (start_calls ncalls ++ map (fun e => LEmit (fst e) (snd e)) es) with
          | None => SL [SA "reject"; SA "emit"]
          | Some s1 =>
              match schedule (List.length es) nconn s1 ob with
              | None => SL [SA "reject"; SA "no-order-of-reader-steps-gives-these-results"]
              | Some s2 =>
                  match finish_all nconn ncalls s2 0 with
                  | None => SL [SA "reject"; SA "finish"]
                  | Some s3 =>
                      if all2 sx_eqb_outcome (map (fun i => out_result (pc s3 i)) (seq 0 ncalls)) (map obs_sx ob)
                      then SL [SA "accept"; sx_nat (List.length (reg s3))]
                      else SL [SA "reject"; SA "results"]
                  end
              end
          end
      | _, _ => sx_err "race ops"
      end
  | _ => sx_err "race"
  end.

(** ---- c12.seq ---- *)

Definition is_picked (p : call_pc) (k : nat) : bool :=
  match p with CPicked k' => Nat.eqb k k' | _ => false end.

Definition picked_conn (p : call_pc) : option nat :=
  match p with CPicked k => Some k | _ => None end.

(* one second for connection k.  If the pinger is due, it acts first; on a healthy
   connection the server would have seen that ping (a 'ping event), so it cannot be
   assumed silently *)
Definition tick1 (nconn : nat) (s : state) (k : nat) : option state :=
  match step nconn qid s (LTick k) with
  | Some s' => Some s'
  | None =>
      if status s k && negb (broken s k) then None
      else match step nconn qid s (if status s k then LPingOk k else LPingSkip k) with
           | Some s1 => step nconn qid s1 (LTick k)
           | None => None
           end
  end.

Fixpoint ticks (nconn : nat) (s : state) (k n : nat) : option state :=
  match n with
  | O => Some s
  | S n' => match tick1 nconn s k with Some s' => ticks nconn s' k n' | None => None end
  end.

Definition event (nconn : nat) (s : state) (e : sx) : option state :=
  match e with
  | SL (SA nm :: args) =>
      let is x := String.eqb nm x in
      let go := exec nconn qid in
      if is "recv" then
        match args with
        | [SN i; SN k] =>
            let i := small i in
            match pc s i with
            | CInit =>
                match go s [LRegister i; LPick i] with
                | Some s1 => if is_picked (pc s1 i) (small k) && negb (broken s1 (small k))   (* the server read it *)
                             then go s1 [LSendOk i] else None
                | None => None
                end
            | _ => None
            end
        | _ => None
        end
      else if is "ret" then
        match args with
        | [SN i; o] =>
            let i := small i in
            match pc s i, parse_obs o with
            | CSent, Some (OOk d) =>
                match go s [LRecv i; LUnregister i] with
                | Some s1 => match pc s1 i with
                             | CReturned (ROk d') => if N.eqb d d' then Some s1 else None
                             | _ => None
                             end
                | None => None
                end
            | CSent, Some OExpired =>
                match ch s i with
                | None => go s [LTimeout i; LUnregister i]
                | Some _ => None             (* the answer was there well before the deadline *)
                end
            | CInit, Some OExpired =>        (* the server never saw the query: written to a dead connection *)
                match go s [LRegister i; LPick i] with
                | Some s1 =>
                    match picked_conn (pc s1 i) with
                    | Some k => if broken s1 k then go s1 [LSendOk i; LTimeout i; LUnregister i] else None
                    | None => None
                    end
                | None => None
                end
            | CInit, Some OErr => go s [LRegister i; LPick i; LSendFail i; LUnregister i]
            | _, _ => None
            end
        | _ => None
        end
      else if is "drop" then
        match args with
        | SN k :: _ => step nconn qid s (LDrop (small k))
        | _ => None
        end
      else if is "up" then
        match args with
        | [SN k] =>
            let k := small k in
            match loops s k, rq s k with
            | S _, _ => go s [LReconnectDone k]                               (* the loop is already running *)
            | O, O => if status s k && broken s k && pinger s k
                      then go s [LPingFail k; LReconnectEnter k; LReconnectDone k]  (* the pinger noticed *)
                      else go s [LSilence k; LReconnectEnter k; LReconnectDone k]   (* nobody asked: the silence rule *)
            | O, _ => go s [LReconnectEnter k; LReconnectDone k]
            end
        | _ => None
        end
      else if is "dialfail" then          (* the server turned an attempt of the loop away *)
        match args with
        | [SN k] =>
            let k := small k in
            match loops s k with
            | S _ => go s [LReconnectFail k]
            | O => go s [LReconnectEnter k; LReconnectFail k]
            end
        | _ => None
        end
      else if is "tick" then
        match args with
        | [SN k; SN n] => ticks nconn s (small k) (small n)
        | _ => None
        end
      else if is "pinger" then           (* declaration: connection k was made by NewConnection *)
        match args with
        | [SN k] => Some (set_pinger s (cupd (pinger s) (small k) true))
        | _ => None
        end
      else if is "ping" then             (* the server received a ping on connection k *)
        match args with
        | [SN k] => if status s (small k) && negb (broken s (small k)) then go s [LPingOk (small k)] else None
        | _ => None
        end
      else if is "reg" then
        match args with
        | [SN n] => if N.eqb (N.of_nat (List.length (reg s))) n then Some s else None
        | _ => None
        end
      else
        match emission nm args with
        | Some (k, p) => go s [LEmit k p; LDeliver k]
        | None => None
        end
  | _ => None
  end.

Fixpoint events (nconn : nat) (s : state) (es : list sx) (idx : nat) : sx :=
  match es with
  | [] => SA "accept"
  | e :: t => match event nconn s e with
              | Some s' => events nconn s' t (S idx)
              | None => SL [SA "reject"; sx_nat idx]
              end
  end.

(* (nconn (action ...) (observed event ...)) -> 'accept | ('reject index-of-event) *)
Definition run_seq (a : sx) : sx :=
  match a with
  | SL [SN nc; _; SL es] => events (small nc) init_state_without_pinger es 0
  | _ => sx_err "seq"
  end.

(** ---- c12.auth: sequential scenario on connections made by NewConnection (with
    or without an auth key), every call under a caller context whose deadline is
    later than the client timeout; drops and recoveries.  Predicted: the result of
    each reported call, the number of transport connections and of authentications. *)

Definition all_healthy (nconn : nat) (s : state) : bool :=
  forallb (fun k => status s k && negb (broken s k)) (seq 0 nconn).

(* calls until every connection is established again: a call that picks the dead
   connection fails and starts the reconnect, the others are answered *)
Fixpoint recover (fuel nconn : nat) (s : state) (i ups : nat) : option (state * nat * nat) :=
  if all_healthy nconn s then Some (s, i, ups) else
  match fuel with
  | O => None
  | S f =>
      match exec nconn qid s [LRegister i; LPick i] with
      | Some s1 =>
          match picked_conn (pc s1 i) with
          | Some k =>
              if broken s1 k
              then match exec nconn qid s1 [LSendFail i; LUnregister i; LReconnectEnter k; LReconnectDone k] with
                   | Some s2 => recover f nconn s2 (S i) (S ups)
                   | None => None
                   end
              else match exec nconn qid s1 [LSendOk i; LEmit k (PAnswer (qid i) 0); LDeliver k; LRecv i; LUnregister i] with
                   | Some s2 => recover f nconn s2 (S i) ups
                   | None => None
                   end
          | None => None
          end
      | None => None
      end
  end.

(* one call while some connection is in a black hole: it fails at once on a
   connection that is dead or Connecting, expires on one whose server is silent,
   is answered elsewhere *)
Definition probe1 (nconn : nat) (s : state) (i : nat) (mute : list nat) : option (state * sx * nat) :=
  match exec nconn qid s [LRegister i; LPick i] with
  | Some s1 =>
      match picked_conn (pc s1 i) with
      | Some k =>
          if negb (status s1 k) || broken s1 k then
            match exec nconn qid s1 [LSendFail i; LUnregister i] with
            | Some s2 => Some (s2, out_result (pc s2 i), k)
            | None => None
            end
          else if existsb (Nat.eqb k) mute then
            match exec nconn qid s1 [LSendOk i; LTimeout i; LUnregister i] with
            | Some s2 => Some (s2, out_result_ctx [(i, 1%N)] i (pc s2 i), k)
            | None => None
            end
          else
            match exec nconn qid s1 [LSendOk i; LEmit k (PAnswer (qid i) 0); LDeliver k; LRecv i; LUnregister i] with
            | Some s2 => Some (s2, out_result (pc s2 i), k)
            | None => None
            end
      | None => None
      end
  | None => None
  end.

(* calls until one fails on the reset connection k: that starts reconnect() *)
Fixpoint until_fail (fuel nconn : nat) (s : state) (i k : nat) (mute : list nat) : option (state * nat) :=
  match fuel with
  | O => None
  | S f =>
      match probe1 nconn s i mute with
      | Some (s1, _, k') => if Nat.eqb k' k then Some (s1, S i) else until_fail f nconn s1 (S i) k mute
      | None => None
      end
  end.

Fixpoint auth_acts (nconn : nat) (acts : list sx) (s : state) (i ups : nat) (outs : list sx) (mute : list nat)
  : option (list sx * nat) :=
  match acts with
  | [] => Some (rev outs, ups)
  | SL (SA nm :: args) :: t =>
      let is x := String.eqb nm x in
      if is "call" || is "sized" then   (* answered: Request (of any query size), LiteServerGetTime, WaitMasterchainSeqno *)
        match exec nconn qid s [LRegister i; LPick i] with
        | Some s1 =>
            match picked_conn (pc s1 i) with
            | Some k =>
                match exec nconn qid s1 [LSendOk i; LEmit k (PAnswer (qid i) 0); LDeliver k; LRecv i; LUnregister i] with
                | Some s2 => auth_acts nconn t s2 (S i) ups (out_result (pc s2 i) :: outs) mute
                | None => None
                end
            | None => None
            end
        | None => None
        end
      else if is "silent" then   (* not answered: the client timeout ends it *)
        match exec nconn qid s [LRegister i; LPick i; LSendOk i; LTimeout i; LUnregister i] with
        | Some s2 => auth_acts nconn t s2 (S i) ups (out_result_ctx [(i, 1%N)] i (pc s2 i) :: outs) mute
        | None => None
        end
      else if is "drop" then
        match args with
        | SN k :: _ => match step nconn qid s (LDrop (small k)) with
                       | Some s2 => auth_acts nconn t s2 i ups outs mute
                       | None => None
                       end
        | _ => None
        end
      else if is "corrupt" then   (* a frame the client cannot parse: it gives the connection up *)
        match args with
        | SN k :: _ => match step nconn qid s (LDrop (small k)) with
                       | Some s2 => auth_acts nconn t s2 i ups (SA "closed" :: outs) mute
                       | None => None
                       end
        | _ => None
        end
      else if is "recover" then
        match recover 64 nconn s i ups with
        | Some (s2, i2, ups2) => auth_acts nconn t s2 i2 ups2 (SA "up" :: outs) mute
        | None => None
        end
      else if is "blackhole" then   (* reset k; its reconnect falls into a hole of the given phase *)
        match args with
        | [SN k; SN ph] =>
            let k := small k in
            match step nconn qid s (LDrop k) with
            | Some s1 =>
                match until_fail 64 nconn s1 i k mute with
                | Some (s2, i2) =>
                    if N.eqb ph 3
                    then match exec nconn qid s2 [LReconnectEnter k; LReconnectDone k] with
                         | Some s3 => auth_acts nconn t s3 i2 (S ups) outs (k :: mute)   (* handshake answered, then silence *)
                         | None => None
                         end
                    else match exec nconn qid s2 [LReconnectEnter k] with
                         | Some s3 => auth_acts nconn t s3 i2 ups outs mute              (* the attempt hangs in the handshake *)
                         | None => None
                         end
                | None => None
                end
            | None => None
            end
        | _ => None
        end
      else if is "probe" then
        match probe1 nconn s i mute with
        | Some (s2, o, _) => auth_acts nconn t s2 (S i) ups (o :: outs) mute
        | None => None
        end
      else if is "dialhole" then    (* NewConnection with a short context against a black hole: an error *)
        auth_acts nconn t s i ups (SA "err" :: outs) mute
      else None
  | _ => None
  end.

(* (nconn auth (act ...)) -> ((result ...) transport-connections authentications) *)
Definition run_auth (a : sx) : sx :=
  match a with
  | SL [SN nc; SN au; SL acts] =>
      let nconn := small nc in
      match auth_acts nconn acts init_state 0 0 [] [] with
      | Some (outs, ups) =>
          let conns := nconn + ups in
          SL [SL outs; sx_nat conns; sx_nat (if N.eqb au 0 then 0 else conns)]
      | None => sx_err "auth blocked"
      end
  | _ => sx_err "auth"
  end.

Definition run (name : string) (a : sx) : sx :=
  if String.eqb name "c12.script" then run_script a
  else if String.eqb name "c12.race" then run_race a
  else if String.eqb name "c12.seq" then run_seq a
  else if String.eqb name "c12.auth" then run_auth a
  else sx_err "unknown case kind".
