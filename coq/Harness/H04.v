(** Entry points of the C04 correspondence: the cell tlb.Marshal produces is
    compared with the model's cell, and the model's cell with the
    serialisation the block.tlb transcription prescribes for the same value. *)
From Coq Require Import List NArith ZArith String Bool.
From Tongo Require Import Lib.Bits Lib.Res Lib.Sx Model.TlbCore Spec.TlbSchema Spec.BlockTlb Proofs.TlbSchemaX Harness.H03.
Import ListNotations.
Local Open Scope string_scope.
Local Open Scope list_scope.

Definition schema_table : list (string * schema) :=
  [("MsgAddress", s_MsgAddress); ("Grams", s_Grams); ("ExtraCurrencyCollection", s_ExtraCurrencyCollection);
   ("CurrencyCollection", s_CurrencyCollection); ("CommonMsgInfo", s_CommonMsgInfo); ("TickTock", s_TickTock);
   ("SimpleLib", s_SimpleLib); ("StateInit", s_StateInit); ("Message", s_Message);
   ("AccountStatus", s_AccountStatus); ("AccStatusChange", s_AccStatusChange);
   ("ComputeSkipReason", s_ComputeSkipReason); ("HashUpdate", s_HashUpdate);
   ("StorageUsedShort", s_StorageUsedShort); ("TrStoragePhase", s_TrStoragePhase);
   ("TrCreditPhase", s_TrCreditPhase); ("TrComputePhase", s_TrComputePhase);
   ("TrActionPhase", s_TrActionPhase); ("TrBouncePhase", s_TrBouncePhase);
   ("SplitMergeInfo", s_SplitMergeInfo); ("TransactionDescr", s_TransactionDescr);
   ("Transaction", s_Transaction); ("SignedMsgBody", s_SignedMsgBody);
   ("IntermediateAddress", s_IntermediateAddress);
   ("MsgMetadata", s_MsgMetadata);
   ("MsgEnvelope", s_MsgEnvelope);
   ("InMsg", s_InMsg);
   ("OutMsg", s_OutMsg);
   ("EnqueuedMsg", s_EnqueuedMsg);
   ("AccountState", s_AccountState);
   ("AccountStorage", s_AccountStorage);
   ("StorageExtraInfo", s_StorageExtraInfo);
   ("StorageInfo", s_StorageInfo);
   ("ExistedAccount", s_ExistedAccount);
   ("Account", s_Account);
   ("ShardAccount", s_ShardAccount);
   ("DepthBalanceInfo", s_DepthBalanceInfo);
   ("ExtBlkRef", s_ExtBlkRef);
   ("BlkMasterInfo", s_BlkMasterInfo);
   ("ShardIdent", s_ShardIdent);
   ("BlockIdExt", s_BlockIdExt);
   ("GlobalVersion", s_GlobalVersion);
   ("ImportFees", s_ImportFees);
   ("ShardFeeCreated", s_ShardFeeCreated);
   ("KeyExtBlkRef", s_KeyExtBlkRef);
   ("KeyMaxLt", s_KeyMaxLt);
   ("ValidatorInfo", s_ValidatorInfo);
   ("ValidatorBaseInfo", s_ValidatorBaseInfo);
   ("Counters", s_Counters);
   ("CreatorStats", s_CreatorStats);
   ("ProcessedUpto", s_ProcessedUpto);
   ("IhrPendingSince", s_IhrPendingSince);
   ("SigPubKey", s_SigPubKey);
   ("CryptoSignatureSimple", s_CryptoSignatureSimple);
   ("ValidatorDescr", s_ValidatorDescr);
   ("ValidatorTempKey", s_ValidatorTempKey);
   ("Certificate", s_Certificate);
   ("StoragePrices", s_StoragePrices);
   ("MsgForwardPrices", s_MsgForwardPrices);
   ("ParamLimits", s_ParamLimits);
   ("BlockLimits", s_BlockLimits);
   ("BlockCreateFees", s_BlockCreateFees);
   ("ComplaintPricing", s_ComplaintPricing);
   ("WorkchainFormat1", s_WorkchainFormat1);
   ("WorkchainFormat0", s_WorkchainFormat0);
   ("WcSplitMergeTimings", s_WcSplitMergeTimings);
   ("PrecompiledSmc", s_PrecompiledSmc);
   ("CatchainConfig", s_CatchainConfig);
   ("ConfigParam0", s_ConfigParamAddr);
   ("ConfigParam1", s_ConfigParamAddr);
   ("ConfigParam2", s_ConfigParamAddr);
   ("ConfigParam3", s_ConfigParamAddr);
   ("ConfigParam4", s_ConfigParamAddr);
   ("BurningConfig", s_BurningConfig);
   ("ConfigParam5", s_ConfigParam5);
   ("ConfigParam6", s_ConfigParam6);
   ("ConfigParam7", s_ConfigParam7);
   ("ConfigParam8", s_ConfigParam8);
   ("ConfigProposalSetup", s_ConfigProposalSetup);
   ("ConfigVotingSetup", s_ConfigVotingSetup);
   ("ConfigParam11", s_ConfigParam11);
   ("ConfigProposal", s_ConfigProposal);
   ("ConfigParam13", s_ConfigParam13);
   ("ConfigParam14", s_ConfigParam14);
   ("ConfigParam15", s_ConfigParam15);
   ("ConfigParam16", s_ConfigParam16);
   ("ConfigParam17", s_ConfigParam17);
   ("ConfigParam22", s_ConfigParamBlockLimits);
   ("ConfigParam23", s_ConfigParamBlockLimits);
   ("ConfigParam24", s_ConfigParamFwdPrices);
   ("ConfigParam25", s_ConfigParamFwdPrices);
   ("ConfigParam28", s_ConfigParam28);
   ("ConsensusConfig", s_ConsensusConfig);
   ("ConfigParam29", s_ConfigParam29);
   ("MisbehaviourPunishmentConfig", s_MisbehaviourPunishmentConfig);
   ("ConfigParam40", s_ConfigParam40);
   ("SizeLimitsConfig", s_SizeLimitsConfig);
   ("ConfigParam43", s_ConfigParam43);
   ("JettonBridgePrices", s_JettonBridgePrices);
   ("OracleBridgeParams", s_OracleBridgeParams);
   ("PrecompiledContractsConfig", s_PrecompiledContractsConfig);
   ("SuspendedAddressList", s_SuspendedAddressList);
   ("AccountDispatchQueue", s_AccountDispatchQueue);
   ("BlockInfoPart", s_BlockInfoPart);
   ("WalletDataV1V2", s_WalletDataV1V2);
   ("WalletDataV3", s_WalletDataV3);
   ("WalletDataV4", s_WalletDataV4);
   ("WalletDataHighloadV2", s_WalletDataHighloadV2);
   ("WalletDataV5R1", s_WalletDataV5R1);
   ("AddressWithWorkchain", s_AddressWithWorkchain)].

Fixpoint lookup (nm : string) (l : list (string * schema)) : option schema :=
  match l with
  | [] => None
  | (k, s) :: r => if String.eqb k nm then Some s else lookup nm r
  end.

(* primitives: the schema of a primitive descriptor *)
Definition prim_schema (t : ty) : option schema :=
  match t with
  | TUint w | TBigUint w => Some (SUint w)
  | TInt w | TBigInt w => Some (SInt w)
  | TBits w => Some (SBits w)
  | TVarUInt n => Some (SVar n)
  | TBool => Some SBool
  | TUnary => Some SUnary
  | _ => None
  end.

(* structural equality of printed values *)
Fixpoint ns_eqb (a b : list N) : bool :=
  match a, b with
  | [], [] => true
  | x :: a', y :: b' => N.eqb x y && ns_eqb a' b'
  | _, _ => false
  end.

Fixpoint sx_eqb (a b : sx) : bool :=
  match a, b with
  | SN x, SN y => N.eqb x y
  | SZ x, SZ y => Z.eqb x y
  | SB x, SB y => Bool.eqb x y
  | Sx.SBits x, Sx.SBits y => bits_eqb x y
  | SBytes x, SBytes y => ns_eqb x y
  | SA x, SA y => String.eqb x y
  | SL x, SL y =>
      (fix go (l m : list sx) : bool :=
         match l, m with
         | [], [] => true
         | u :: l', v :: m' => sx_eqb u v && go l' m'
         | _, _ => false
         end) x y
  | _, _ => false
  end.

(* the decoder reads back exactly what the schema serialisation holds: same value, nothing left *)
Definition decodes_back (t : ty) (x : value) (c : ctree) : bool :=
  match dec [] fuel t (open c) with
  | Ok (x', rest) =>
      sx_eqb (val_sx x') (val_sx x) && match sb rest, sr rest with [], [] => true | _, _ => false end
  | _ => false
  end.

Definition same_as_schema (s : schema) (v : value) (c : ctree) : bool :=
  match spec_encode s v with
  | Some (bs, rs) => cell_eqb_sx c (CT bs rs)
  | None => false
  end.

(** c04.spec ('SchemaName go-type-name descriptor value) -> 'err | (cell refines? schema-serialisation-equal? decodes-back?) *)
Definition run_spec (a : sx) : sx :=
  match a with
  | SL [SA nm; _; d; v] =>
      match ty_of d, val_of v with
      | Some t, Some x =>
          match (if String.eqb nm "prim" then prim_schema t else lookup nm schema_table) with
          | Some s =>
              match enc [] fuel t x empty_bld with
              | Ok b => let c := finish b in SL [cell_sx c; SB (refines 64 s t); SB (same_as_schema s x c); SB (decodes_back t x c)]
              | Err e => if N.eqb e EFuel then sx_err "fuel" else SA "err"
              | Panic _ => SA "panic"
              end
          | None => sx_err "schema"
          end
      | None, _ => sx_err "descriptor"
      | _, None => sx_err "value"
      end
  | _ => sx_err "c04.spec"
  end.

(** c04.cur ('SchemaName go-type-name descriptor value k): c04.spec after the read
    cursors inside the Go value were advanced by k (same expected answer) *)
Definition run_cur4 (a : sx) : sx :=
  match a with
  | SL [nm; g; d; v; _] => run_spec (SL [nm; g; d; v])
  | _ => sx_err "c04.cur"
  end.

(** c04.extmsg (descriptor-of-Message wc addr fee body-cell (init?)) -> 'err | (cell schema-equal?) *)
Definition run_extmsg (a : sx) : sx :=
  match a with
  | SL [d; SZ wc; Sx.SBits addr; SN fee; body; SL init] =>
      let oi := match init with
                | [] => Some None
                | [i] => match val_of i with Some v => Some (Some v) | None => None end
                | _ => None
                end in
      match ty_of d, cell_of body, oi with
      | Some t, Some bc, Some i =>
          let v := ext_in_value wc addr fee i bc in
          match enc [] fuel t v empty_bld with
          | Ok b => let c := finish b in SL [cell_sx c; SB (same_as_schema s_Message v c)]
          | Err e => if N.eqb e EFuel then sx_err "fuel" else SA "err"
          | Panic _ => SA "panic"
          end
      | _, _, _ => sx_err "extmsg args"
      end
  | _ => sx_err "c04.extmsg"
  end.

Definition run04 (name : string) (a : sx) : sx :=
  if String.eqb name "c04.spec" then run_spec a
  else if String.eqb name "c04.extmsg" then run_extmsg a
  else if String.eqb name "c04.cur" then run_cur4 a
  else H03.run03 name a.
