(** Executable entry point of the C06 reference model (kind c06.refs): a script
    over a heap of cells; a cell is named by its allocation index. *)
From Coq Require Import List NArith ZArith String Bool.
From Tongo Require Import Lib.Bits Lib.Res Lib.Sx Model.BitString Model.BitStringD Model.CellRefs
  Harness.H06.
Import ListNotations.
Local Open Scope string_scope.
Local Open Scope list_scope.

Fixpoint lookup_nat (m : list (nat * nat)) (k : nat) : option nat :=
  match m with
  | [] => None
  | (a, b) :: t => if Nat.eqb a k then Some b else lookup_nat t k
  end.

(* the cell as it comes back from a BOC: same bits in a fresh 1023-bit buffer,
   cursors 0 *)
Definition reparsed_bits (b : bs) : bs := fst (write_bits (abs b) (new_bs 1023)).

(* serialise + parse: a copy of everything reachable from i, allocated in
   depth-first preorder, sharing preserved (the generator only uses it on
   acyclic trees whose cells have pairwise different bits, so that sharing by
   hash in the BOC is sharing by identity) *)
Fixpoint clone (fuel : nat) (h : heap) (memo : list (nat * nat)) (i : nat)
    : heap * list (nat * nat) * nat :=
  match fuel with
  | O => (h, memo, 0%nat)
  | S f =>
      match lookup_nat memo i with
      | Some j => (h, memo, j)
      | None =>
          let j := List.length h in
          let c := hget h i in
          let h0 := h ++ [new_cell] in
          let '(h1, memo1, rs) :=
            fold_left (fun (st : heap * list (nat * nat) * list nat) (r : nat) =>
                         let '(hh, mm, acc) := st in
                         let '(hh', mm', r') := clone f hh mm r in
                         (hh', mm', acc ++ [r']))
                      (crefs c) (h0, (i, j) :: memo, []) in
          (hset h1 j (mkcc (reparsed_bits (cbits c)) rs 0), memo1, j)
      end
  end.

Definition out_id (r : res nat) : sx :=
  match r with Ok j => sx_nat j | Err _ => SA "err" | Panic _ => SA "panic" end.

Definition rstep (h : heap) (o : sx) : heap * sx :=
  match o with
  | SL (SA nm :: args) =>
    let is x := String.eqb nm x in
    match args with
    | [] =>
        if is "new" then (h ++ [new_cell], sx_nat (List.length h))
        else (h, sx_err "bad rop0")
    | [SN i] =>
        let i := N.to_nat i in
        let c := hget h i in
        if is "newref" then
          let '(h', j, r) := new_ref h i in (h', SL [sx_nat j; out_unit r])
        else if is "nextref" then let '(h', r) := next_ref h i in (h', out_id r)
        else if is "reset" then (hset h i (reset_counters c), SA "ok")
        else if is "refs" then (h, SL (map sx_nat (crefs c)))
        else if is "rstate" then (h, SL [sx_nat (refs_size c); sx_nat (refs_avail c)])
        else if is "copyrem" then let '(h', r) := copy_remaining h i in (h', out_id r)
        else if is "viaboc" then
          let '(h', _, j) := clone (S (List.length h)) h [] i in (h', sx_nat j)
        else (h, sx_err "bad rop i")
    | [SN i; SN j] =>
        let i := N.to_nat i in
        if is "addref" then
          let '(c', r) := add_ref (N.to_nat j) (hget h i) in (hset h i c', out_unit r)
        else (h, sx_err "bad rop ij")
    | [SN i; SL op] =>
        let i := N.to_nat i in
        let c := hget h i in
        if is "on" then
          let '(b', r) := step (cbits c) (SL op) in (hset h i (mkcc b' (crefs c) (crc c)), r)
        else (h, sx_err "bad rop on")
    | _ => (h, sx_err "bad rop args")
    end
  | _ => (h, sx_err "bad rop")
  end.

Fixpoint run_rops (h : heap) (ops : list sx) : list sx :=
  match ops with
  | [] => []
  | o :: t => let '(h', r) := rstep h o in r :: run_rops h' t
  end.

Definition run_refs (a : sx) : sx :=
  match a with
  | SL ops => SL (run_rops [] ops)
  | _ => sx_err "refs"
  end.
