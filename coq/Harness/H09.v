(** Entry points of the C09 correspondence.  The schema travels AS DATA in the
    case (the harness generates a new schema per program), so one extraction
    serves every run:

      c09.tl    (types funcs target value junk)
                  -> 'err | (bytes decoded-value unread)
                  tl_encode of the value under the schema; tl_decode of those
                  bytes followed by junk.  target = ('bare x<c>) | ('boxed x<T>)
                  | ('args x<function>)
      c09.tlreq (types funcs x<function> request|'none response)
                  -> 'err | (payload ('result v)|('lserror v)|'err t)
                  tl_request of the call; the schema's reading of the response:
                  the id of liteServer.error announces an error value, anything
                  else must be a boxed value of the declared result type
      c09.tlb   (text 'GoType schema descriptor value)
                  -> 'err | (cell decoded-value)
                  the TL-B serialisation spec_encode schema value; the model of
                  tlb.Marshal on the descriptor must give the same cell and the
                  descriptor must refine the schema ('specdiff / 'norefine) *)
From Coq Require Import String Ascii List NArith ZArith Bool.
From Tongo Require Import Lib.Bits Lib.Res Lib.Sx Spec.TlWire Model.Tl Model.TlMatch.
From Tongo Require Model.TlbCore Spec.TlbSchema Harness.H03 Harness.H10.
Import ListNotations.
Local Open Scope string_scope.
Local Open Scope list_scope.

Definition str (l : list N) : string := H10.string_of_bytes l.

(** * TL schemas as data *)
Fixpoint tlty_of (s : sx) : option ty :=
  match s with
  | SA a =>
      let is x := String.eqb a x in
      if is "int" then Some TInt else if is "nat" then Some TNat else if is "long" then Some TLong
      else if is "int256" then Some TInt256 else if is "bytes" then Some TBytes
      else if is "string" then Some TString else if is "bool" then Some TBool
      else if is "true" then Some TTrue else None
  | SL [SA k; x] =>
      if String.eqb k "vector" then option_map TVector (tlty_of x)
      else match x with
           | SBytes b => if String.eqb k "bare" then Some (TBare (str b))
                         else if String.eqb k "boxed" then Some (TBoxed (str b)) else None
           | _ => None
           end
  | _ => None
  end.

Definition field_of (s : sx) : option field :=
  match s with
  | SL [SBytes n; SL c; t] =>
      opt ty <- tlty_of t;
      match c with
      | [] => Some (mkfield (str n) None ty)
      | [SBytes m; SN bit] => Some (mkfield (str n) (Some (str m, bit)) ty)
      | _ => None
      end
  | _ => None
  end.

Fixpoint all_of {A} (f : sx -> option A) (l : list sx) : option (list A) :=
  match l with
  | [] => Some []
  | x :: t => opt a <- f x; opt r <- all_of f t; Some (a :: r)
  end.

Definition decl_of (s : sx) : option decl :=
  match s with
  | SL [SBytes n; SN id; SL fs; SBytes r] =>
      opt fields <- all_of field_of fs; Some (mkdecl (str n) id fields (str r))
  | _ => None
  end.

Definition decls_of (s : sx) : option (list decl) :=
  match s with SL l => all_of decl_of l | _ => None end.

Inductive target := TType (t : ty) | TArgs (f : decl).

Definition target_of (F : list decl) (s : sx) : option target :=
  match s with
  | SL [SA k; SBytes n] =>
      if String.eqb k "bare" then Some (TType (TBare (str n)))
      else if String.eqb k "boxed" then Some (TType (TBoxed (str n)))
      else if String.eqb k "args" then
        option_map TArgs (find (fun f => String.eqb (dname f) (str n)) F)
      else None
  | _ => None
  end.

Definition run_tl (a : sx) : sx :=
  match a with
  | SL [ts; fs; tg; sv; SBytes junk] =>
      match decls_of ts, decls_of fs with
      | Some Sc, Some Fc =>
          match target_of Fc tg, H10.value_of_sx sv with
          | Some t, Some v =>
              let nm := go_naming Sc in
              let e := match t with
                       | TType ty => tl_encode nm Sc ty v
                       | TArgs f => enc_args nm Sc tl_fuel f v
                       end in
              match e with
              | None => SA "err"
              | Some bs =>
                  let d := match t with
                           | TType ty => tl_decode nm Sc ty (bs ++ junk)
                           | TArgs f => dec_args nm Sc tl_fuel f (bs ++ junk)
                           end in
                  match d with
                  | Some (v', rest) => SL [SBytes bs; H10.sx_of_value v'; sx_nat (length rest)]
                  | None => SL [SBytes bs; SA "decode-err"; SN 0]
                  end
              end
          | None, _ => sx_err "target"
          | _, None => sx_err "value"
          end
      | _, _ => sx_err "schema"
      end
  | _ => sx_err "c09.tl"
  end.

Definition run_tlreq (a : sx) : sx :=
  match a with
  | SL [ts; fs; SBytes fname; rq; SBytes resp] =>
      match decls_of ts, decls_of fs with
      | Some Sc, Some Fc =>
          match find (fun f => String.eqb (dname f) (str fname)) Fc,
                (match rq with SA _ => Some (VRec "" []) | _ => H10.value_of_sx rq end) with
          | Some f, Some v =>
              let nm := go_naming Sc in
              match tl_request nm Sc f v with
              | None => SA "err"
              | Some payload =>
                  let outcome :=
                    if short 4 resp then SA "err" else
                    let tag := le_num (firstn 4 resp) in
                    match find_ctor Sc "liteServer.error" with
                    | None => SA "err"
                    | Some e =>
                        if N.eqb tag (did e) then
                          match tl_decode nm Sc (TBare "liteServer.error") (skipn 4 resp) with
                          | Some (ev, _) => SL [SA "lserror"; H10.sx_of_value ev]
                          | None => SA "err"
                          end
                        else
                          match tl_decode nm Sc (TBoxed (dres f)) resp with
                          | Some (rv, _) => SL [SA "result"; H10.sx_of_value rv]
                          | None => SA "err"
                          end
                    end in
                  SL [SBytes payload; outcome; SB true]
              end
          | None, _ => sx_err "function"
          | _, None => sx_err "value"
          end
      | _, _ => sx_err "schema"
      end
  | _ => sx_err "c09.tlreq"
  end.

(** * TL-B schemas as data *)
Import H03.
Fixpoint schema_of (s : sx) : option TlbSchema.schema :=
  match s with
  | SL (SA nm :: args) =>
      let is x := String.eqb nm x in
      let seqs := (fix go (l : list sx) : option (list TlbSchema.schema) :=
                     match l with
                     | [] => Some []
                     | x :: r => match schema_of x, go r with Some t, Some ts => Some (t :: ts) | _, _ => None end
                     end) in
      let alts := (fix go (l : list sx) : option (list (nat * N * TlbSchema.schema)) :=
                     match l with
                     | [] => Some []
                     | SL [SN len; SN val; x] :: r =>
                         match small len, schema_of x, go r with
                         | Some n, Some t, Some ts => Some ((n, val, t) :: ts)
                         | _, _, _ => None
                         end
                     | _ => None
                     end) in
      if is "seq" then omap TlbSchema.SSeq (seqs args)
      else if is "alt" then omap TlbSchema.SAlt (alts args)
      else match args with
      | [] =>
          if is "bool" then Some TlbSchema.SBool
          else if is "addr" then Some TlbSchema.SAddr
          else if is "any" then Some TlbSchema.SAny
          else if is "cell" then Some TlbSchema.SCell
          else if is "unary" then Some TlbSchema.SUnary
          else None
      | [SN n] =>
          obind (small n) (fun w =>
          if is "uint" then Some (TlbSchema.SUint w)
          else if is "int" then Some (TlbSchema.SInt w)
          else if is "bits" then Some (TlbSchema.SBits w)
          else if is "var" then Some (TlbSchema.SVar w)
          else if is "dicte" then Some (TlbSchema.SDictE w)
          else None)
      | [SN l; SN v] => if is "tag" then omap (fun w => TlbSchema.STag w v) (small l) else None
      | [x] =>
          if is "maybe" then omap TlbSchema.SMaybe (schema_of x)
          else if is "ref" then omap TlbSchema.SRef (schema_of x)
          else None
      | [x; y] =>
          if is "either" then
            match schema_of x, schema_of y with
            | Some l, Some r => Some (TlbSchema.SEither l r)
            | _, _ => None
            end
          else None
      | _ => None
      end
  | _ => None
  end.

Definition run_tlb (a : sx) : sx :=
  match a with
  | SL [_; _; ssx; dsx; vsx] =>
      match schema_of ssx, ty_of dsx, val_of vsx with
      | Some s, Some d, Some v =>
          match TlbCore.enc [] fuel d v TlbCore.empty_bld with
          | Ok b =>
              let c := TlbCore.finish b in
              if negb (TlbSchema.refines 64 s d) then SA "norefine" else
              match TlbSchema.spec_encode s v with
              | Some (bs, rs) =>
                  if negb (cell_eqb_sx c (TlbCore.CT bs rs)) then SA "specdiff" else
                  match TlbCore.dec [] fuel d (TlbCore.open c) with
                  | Ok (v', rest) =>
                      SL [cell_sx c; val_sx v']
                  | Err e => if N.eqb e EFuel then sx_err "fuel" else SL [cell_sx c; SA "decode-err"]
                  | Panic _ => SA "panic"
                  end
              | None => SA "specdiff"
              end
          | Err e => if N.eqb e EFuel then sx_err "fuel" else SA "err"
          | Panic _ => SA "panic"
          end
      | None, _, _ => sx_err "schema"
      | _, None, _ => sx_err "descriptor"
      | _, _, None => sx_err "value"
      end
  | _ => sx_err "c09.tlb"
  end.

Definition run09 (name : string) (a : sx) : sx :=
  let is x := String.eqb name x in
  if is "c09.tl" then run_tl a
  else if is "c09.tlreq" then run_tlreq a
  else if is "c09.tlb" then run_tlb a
  else sx_err "unknown case kind".
