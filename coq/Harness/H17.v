(** Executable entry points of the C17 model for the correspondence driver. *)
From Coq Require Import List NArith ZArith String Bool.
From Tongo Require Import Lib.Bits Lib.Res Lib.Sx Model.Address Model.Shard Model.Adnl
  Model.AddressTlb Model.AddressJson Generated.Consts.
Import ListNotations.
Local Open Scope string_scope.
Local Open Scope list_scope.

Definition out_acc (r : res (Z * list N)) : sx :=
  match r with
  | Ok (wc, a) => SL [SZ wc; SBytes a]
  | Err _ => SA "err"
  | Panic _ => SA "panic"
  end.

(* bytes -> (utils.Crc16, crc.CalculateCRC(crc.XMODEM, .)) *)
Definition run_crc16 (a : sx) : sx :=
  match a with
  | SBytes l => SL [SN (crc16_tab crc16_table l); SN (crc16 l)]
  | _ => sx_err "crc16"
  end.

(* (wc addr bounce testnet urlsafe) -> string *)
Definition run_human (a : sx) : sx :=
  match a with
  | SL [SZ wc; SBytes addr; SB b; SB t; SB url] =>
      SBytes (print_human crc16_table url b t wc addr)
  | _ => sx_err "human"
  end.

(* ton.AccountIDFromBase64Url *)
Definition run_parse_human (a : sx) : sx :=
  match a with
  | SBytes cs =>
      match parse_human cs with
      | Ok (_, wc, addr) => SL [SZ wc; SBytes addr]
      | Err _ => SA "err"
      | Panic _ => SA "panic"
      end
  | _ => sx_err "parsehuman"
  end.

(* tongo.ParseAddress on strings without '=': only the account id is compared
   (the Bounce field is not part of the property) *)
Definition run_parse_address (a : sx) : sx :=
  match a with
  | SBytes cs =>
      match parse_address_lax cs with
      | Ok (wc, addr, _) => SL [SZ wc; SBytes addr]
      | Err _ => SA "err"
      | Panic _ => SA "panic"
      end
  | _ => sx_err "parseaddr"
  end.

Definition run_raw (a : sx) : sx :=
  match a with
  | SL [SZ wc; SBytes addr] => SBytes (print_raw wc addr)
  | _ => sx_err "raw"
  end.

Definition run_parse_raw (a : sx) : sx :=
  match a with SBytes cs => out_acc (parse_raw cs) | _ => sx_err "parseraw" end.

Definition run_parse_account (a : sx) : sx :=
  match a with SBytes cs => out_acc (parse_account cs) | _ => sx_err "parseacc" end.

Definition run_tl (a : sx) : sx :=
  match a with
  | SL [SZ wc; SBytes addr] => SBytes (tl_marshal wc addr)
  | _ => sx_err "tl"
  end.

Definition run_untl (a : sx) : sx :=
  match a with SBytes bs => out_acc (tl_unmarshal bs) | _ => sx_err "untl" end.

(* int64 m -> (prefix mask encoded) *)
Definition run_shard_parse (a : sx) : sx :=
  match a with
  | SZ m =>
      match parse_shard (u64_of_Z m) with
      | Ok s =>
          match shard_encode s with
          | Ok e => SL [SZ (i64_of_N (sh_prefix s)); SZ (i64_of_N (sh_mask s)); SZ (i64_of_N e)]
          | _ => SA "panic"
          end
      | _ => SA "err"
      end
  | _ => sx_err "shard.parse"
  end.

Definition run_shard_match (a : sx) : sx :=
  match a with
  | SL [SZ m; SBytes addr] =>
      match parse_shard (u64_of_Z m) with
      | Ok s => SB (shard_match s addr)
      | _ => SA "err"
      end
  | _ => sx_err "shard.match"
  end.

Definition run_shard_match_block (a : sx) : sx :=
  match a with
  | SL [SZ m; SN blk] =>
      match parse_shard (u64_of_Z m) with
      | Ok s => SB (shard_match_block s blk)
      | _ => SA "err"
      end
  | _ => sx_err "shard.matchblock"
  end.

Definition run_shard_child (a : sx) : sx :=
  match a with
  | SL [SN u; SB lft] => SN (shard_child u lft)
  | _ => sx_err "shard.child"
  end.

Definition run_shard_parent (a : sx) : sx :=
  match a with SN u => SN (shard_parent u) | _ => sx_err "shard.parent" end.

(* (prefix pfx_bits) -> shard, pfx_bits <= 63 *)
Definition run_shard_ident (a : sx) : sx :=
  match a with
  | SL [SN p; SN b] => SN (shard_of_ident p b)
  | _ => sx_err "shard.ident"
  end.

(* (prefix pfx_bits after_split after_merge) -> shard ids of ton.GetParents *)
Definition run_parents (a : sx) : sx :=
  match a with
  | SL [SN p; SN b; SB sp; SB mg] => SL (map SN (get_parents p b sp mg))
  | _ => sx_err "parents"
  end.

Definition run_adnl (a : sx) : sx :=
  match a with
  | SBytes addr => SBytes (adnl_print crc16_table addr)
  | _ => sx_err "adnl"
  end.

Definition run_parse_adnl (a : sx) : sx :=
  match a with
  | SBytes cs =>
      match adnl_parse crc16_table cs with
      | Ok addr => SBytes addr
      | Err _ => SA "err"
      | Panic _ => SA "panic"
      end
  | _ => sx_err "parseadnl"
  end.

(** TL-B form *)
Definition out_bits (r : res bits) : sx :=
  match r with Ok b => SBits b | Err _ => SA "err" | Panic _ => SA "panic" end.

Definition out_acc_opt (r : res (option (Z * list N))) : sx :=
  match r with
  | Ok (Some (wc, a)) => SL [SZ wc; SBytes a]
  | Ok None => SA "none"
  | Err _ => SA "err"
  | Panic _ => SA "panic"
  end.

(* (wc addr) -> bits of tlb.Marshal(id.ToMsgAddress()) *)
Definition run_tlb (a : sx) : sx :=
  match a with
  | SL [SZ wc; SBytes addr] => out_bits (tlb_encode (to_msg_address wc addr))
  | _ => sx_err "tlb"
  end.

Definition any_of (ex : bool) (d p : N) : option (N * N) := if ex then Some (d, p) else None.

(* (exists depth pfx wc8 addr) -> bits of tlb.Marshal(MsgAddress{AddrStd}) *)
Definition run_tlb_any (a : sx) : sx :=
  match a with
  | SL [SB ex; SN d; SN p; SZ wc; SBytes addr] => out_bits (tlb_encode (MAStd (any_of ex d p) wc addr))
  | _ => sx_err "tlbany"
  end.

(* cell bits -> tlb.Unmarshal into MsgAddress -> AccountIDFromTlb *)
Definition run_untlb (a : sx) : sx :=
  match a with
  | SBits l => out_acc_opt (account_from_tlb_bits l)
  | _ => sx_err "untlb"
  end.

(* (exists depth pfx wc8 addr) -> AccountIDFromTlb(MsgAddress{AddrStd}) *)
Definition run_from_tlb (a : sx) : sx :=
  match a with
  | SL [SB ex; SN d; SN p; SZ wc; SBytes addr] => out_acc_opt (account_from_tlb (MAStd (any_of ex d p) wc addr))
  | _ => sx_err "fromtlb"
  end.

(** JSON form *)
Definition run_json (a : sx) : sx :=
  match a with
  | SL [SZ wc; SBytes addr] => SBytes (json_marshal wc addr)
  | _ => sx_err "json"
  end.

Definition run_unjson (a : sx) : sx :=
  match a with SBytes cs => out_acc (json_unmarshal cs) | _ => sx_err "unjson" end.

Definition run_unjson_quoted (a : sx) : sx :=
  match a with SBytes cs => out_acc (json_unmarshal (34%N :: cs ++ [34%N])) | _ => sx_err "unjsonq" end.

(** JSON form of the TL-B address *)
Definition any_sx (a : option (N * N)) : list sx :=
  match a with Some (d, p) => [SB true; SN d; SN p] | None => [SB false; SN 0; SN 0] end.

Definition ma_sx (m : msgaddr) : sx :=
  match m with
  | MANone => SA "none"
  | MAExtern e => SL [SA "ext"; SBits e]
  | MAStd any wc addr => SL (SA "std" :: any_sx any ++ [SZ wc; SBytes addr])
  | MAVar any len wc a => SL (SA "var" :: any_sx any ++ [SN len; SZ wc; SBits a])
  end.

(* (wc addr) -> json.Marshal(id.ToMsgAddress()) *)
Definition run_ma_json (a : sx) : sx :=
  match a with
  | SL [SZ wc; SBytes addr] => SBytes (account_to_ma_json wc addr)
  | _ => sx_err "majson"
  end.

(* (exists depth pfx wc8 addr) -> json.Marshal(MsgAddress{AddrStd}) *)
Definition run_ma_json_any (a : sx) : sx :=
  match a with
  | SL [SB ex; SN d; SN p; SZ wc; SBytes addr] => SBytes (ma_json_print (MAStd (any_of ex d p) wc addr))
  | _ => sx_err "majsonany"
  end.

(* bytes -> (MsgAddress.UnmarshalJSON, AccountIDFromTlb of it) *)
Definition run_ma_unjson (a : sx) : sx :=
  match a with
  | SBytes cs =>
      match ma_json_parse cs with
      | Ok m => SL [ma_sx m; out_acc_opt (account_from_tlb m)]
      | Err _ => SA "err"
      | Panic _ => SA "panic"
      end
  | _ => sx_err "maunjson"
  end.

(* concurrent parsing: (human-or-raw strings, adnl strings, workers, iterations) ->
   (sequential results, number of concurrent results that differ from them);
   the parsers are pure functions, so the number is 0 *)
Definition run_conc (a : sx) : sx :=
  match a with
  | SL [SL hs; SL ads; SN _; SN _] =>
      SL [SL (map (fun h => SL [run_parse_human h; run_parse_account h; run_parse_raw h;
                               run_parse_address h; run_unjson_quoted h]) hs);
          SL (map run_parse_adnl ads); SN 0]
  | _ => sx_err "conc"
  end.

(* dispatcher of the C17 kinds (same lines go into Harness/Dispatch.v) *)
Definition run (name : string) (a : sx) : sx :=
  let is x := String.eqb name x in
  if is "c17.crc16" then run_crc16 a
  else if is "c17.human" then run_human a
  else if is "c17.parsehuman" then run_parse_human a
  else if is "c17.parseaddr" then run_parse_address a
  else if is "c17.raw" then run_raw a
  else if is "c17.parseraw" then run_parse_raw a
  else if is "c17.parseacc" then run_parse_account a
  else if is "c17.mustparse" then run_parse_account a
  else if is "c17.rootparse" then run_parse_account a
  else if is "c17.rootmust" then run_parse_account a
  else if is "c17.tl" then run_tl a
  else if is "c17.untl" then run_untl a
  else if is "c17.shard.parse" then run_shard_parse a
  else if is "c17.shard.match" then run_shard_match a
  else if is "c17.shard.matchblock" then run_shard_match_block a
  else if is "c17.shard.child" then run_shard_child a
  else if is "c17.shard.parent" then run_shard_parent a
  else if is "c17.shard.ident" then run_shard_ident a
  else if is "c17.parents" then run_parents a
  else if is "c17.adnl" then run_adnl a
  else if is "c17.parseadnl" then run_parse_adnl a
  else if is "c17.tlb" then run_tlb a
  else if is "c17.tlbany" then run_tlb_any a
  else if is "c17.untlb" then run_untlb a
  else if is "c17.fromtlb" then run_from_tlb a
  else if is "c17.json" then run_json a
  else if is "c17.unjson" then run_unjson a
  else if is "c17.majson" then run_ma_json a
  else if is "c17.majsonany" then run_ma_json_any a
  else if is "c17.maunjson" then run_ma_unjson a
  else if is "c17.conc" then run_conc a
  else sx_err "unknown case kind".
