(** Executable entry points of the C06 model for the correspondence driver. *)
From Coq Require Import List NArith ZArith String Bool.
From Tongo Require Import Lib.Bits Lib.Res Lib.Sx Model.BitString Model.BitStringD.
Import ListNotations.
Local Open Scope string_scope.
Local Open Scope list_scope.

Definition out_unit (r : res unit) : sx :=
  match r with Ok _ => SA "ok" | Err _ => SA "err" | Panic _ => SA "panic" end.
Definition out_of {A} (f : A -> sx) (r : res A) : sx :=
  match r with Ok a => f a | Err _ => SA "err" | Panic _ => SA "panic" end.

Definition to_fift_sx (l : bits) : sx :=
  let '(ds, u) := to_fift l in SL [SL (map SN ds); SB u].

(* one operation on the state.  #<= n integers use the specification width
   N.size n; that the de Bruijn implementation computes it is C06_min_bits_required
   plus the table obligation of C06_gen.v *)
Definition step (s : bs) (o : sx) : bs * sx :=
  match o with
  | SL (SA nm :: args) =>
    let is x := String.eqb nm x in
    let nat_ n := N.to_nat n in
    match args with
    | [] =>
        if is "rbit" then let '(s', r) := read_bit s in (s', out_of SB r)
        else if is "rbyte" then let '(s', r) := read_byte s in (s', out_of SN r)
        else if is "runary" then let '(s', r) := read_unary s in (s', out_of sx_nat r)
        else if is "reset" then (reset_counter s, SA "ok")
        else if is "state" then
          (s, SL [sx_nat (len s); sx_nat (avail_read s); sx_nat (avail_write s); SBits (abs s)])
        else if is "fift" then (s, to_fift_sx (abs s))
        else (s, sx_err "bad op0")
    | [SB b] =>
        if is "wbit" then let '(s', r) := write_bit b s in (s', out_unit r)
        else (s, sx_err "bad op b")
    | [SBytes l] =>
        if is "wbytes" then let '(s', r) := write_bytes l s in (s', out_unit r)
        else (s, sx_err "bad op x")
    | [SBits l] =>
        if is "wbits" then let '(s', r) := write_bits l s in (s', out_unit r)
        else (s, sx_err "bad op bits")
    | [SN w] =>
        if is "wunary" then let '(s', r) := write_unary (nat_ w) s in (s', out_unit r)
        else if is "ruint" then let '(s', r) := read_uint (nat_ w) s in (s', out_of SN r)
        else if is "puint" then let '(s', r) := pick_uint (nat_ w) s in (s', out_of SN r)
        else if is "rint" then let '(s', r) := read_int (nat_ w) s in (s', out_of SZ r)
        else if is "rbiguint" then let '(s', r) := read_big_uint (nat_ w) s in (s', out_of SN r)
        else if is "rbigint" then let '(s', r) := read_big_int (nat_ w) s in (s', out_of SZ r)
        else if is "rbytes" then let '(s', r) := read_bytes (nat_ w) s in (s', out_of SBytes r)
        else if is "rbits" then let '(s', r) := read_bits (nat_ w) s in (s', out_of SBits r)
        else if is "rlim" then let '(s', r) := read_uint (N.to_nat (N.size w)) s in (s', out_of SN r)
        else if is "skip" then let '(s', r) := skip (nat_ w) s in (s', out_unit r)
        else (s, sx_err "bad op n")
    | [SN v; SN w] =>
        if is "wuint" then let '(s', r) := write_uint v (nat_ w) s in (s', out_unit r)
        else if is "wbiguint" then let '(s', r) := write_big_uint v (nat_ w) s in (s', out_unit r)
        else if is "wlim" then let '(s', r) := write_uint v (N.to_nat (N.size w)) s in (s', out_unit r)
        else (s, sx_err "bad op nn")
    | [SZ v; SN w] =>
        if is "wint" then let '(s', r) := write_int v (nat_ w) s in (s', out_unit r)
        else if is "wbigint" then let '(s', r) := write_big_int v (nat_ w) s in (s', out_unit r)
        else (s, sx_err "bad op zn")
    | _ => (s, sx_err "bad op args")
    end
  | _ => (s, sx_err "bad op")
  end.

Fixpoint run_ops (s : bs) (ops : list sx) : list sx :=
  match ops with
  | [] => []
  | o :: t => let '(s', r) := step s o in r :: run_ops s' t
  end.

(* (cap ops...) *)
Definition run_seq (a : sx) : sx :=
  match a with
  | SL (SN c :: ops) => SL (run_ops (new_bs (N.to_nat c)) ops)
  | _ => sx_err "seq"
  end.

(** Fift hex at character level.  [suffix_tab] is the translated
    [suffixToBits] map: (first char code, bits). *)
Definition hex_to_int (c : N) : option N :=
  if (48 <=? c)%N && (c <=? 57)%N then Some (c - 48)%N
  else if (97 <=? c)%N && (c <=? 102)%N then Some (c - 97 + 10)%N
  else if (65 <=? c)%N && (c <=? 70)%N then Some (c - 65 + 10)%N
  else None.

Fixpoint hex_digits (cs : list N) : option (list N) :=
  match cs with
  | [] => Some []
  | c :: t =>
      match hex_to_int c, hex_digits t with
      | Some d, Some ds => Some (d :: ds)
      | _, _ => None
      end
  end.

Fixpoint lookup_suffix (tab : list (N * bits)) (c : N) : option bits :=
  match tab with
  | [] => None
  | (k, v) :: t => if (k =? c)%N then Some v else lookup_suffix t c
  end.

(* reference semantics of the completion-tag suffix: the hex digit stripped of
   its final 1 (that the source's suffixToBits table is exactly this function
   is an obligation of C06_gen.v) *)
Definition ref_suffix (c : N) : option bits :=
  match hex_to_int c with Some d => strip_tag d | None => None end.

(* BitStringFromFiftHex over character codes *)
Definition from_fift_chars (cs : list N) : option bits :=
  match rev cs with
  | 95%N :: rest =>           (* '_' *)
      match rest with
      | [] => None
      | c :: body =>
          match ref_suffix c, hex_digits (rev body) with
          | Some tail, Some ds => Some (concat_nibbles ds ++ tail)
          | _, _ => None
          end
      end
  | _ =>
      match hex_digits cs with
      | Some ds => Some (concat_nibbles ds)
      | None => None
      end
  end.

Definition hex_char (d : N) : N := if (d <? 10)%N then (48 + d)%N else (65 + d - 10)%N.

Definition to_fift_chars (l : bits) : list N :=
  let '(ds, u) := to_fift l in map hex_char ds ++ (if u then [95%N] else []).

Definition run_from_fift (a : sx) : sx :=
  match a with
  | SBytes cs => match from_fift_chars cs with Some l => SBits l | None => SA "err" end
  | _ => sx_err "fromfift"
  end.

Definition run_to_fift (a : sx) : sx :=
  match a with
  | SBits l => SBytes (to_fift_chars l)
  | _ => sx_err "tofift"
  end.

Definition run_minbits (a : sx) : sx :=
  match a with
  | SN v => SN (N.size v)
  | _ => sx_err "minbits"
  end.

(** *** c06.derived: a register file of bit strings; operations continue on the
    BitStrings RETURNED by ReadBits / ReadRemainingBits / Copy / RawBitString
    (byte-faithful buffers, Model/BitStringD.v) *)
Definition reg_get (rs : list bs) (i : N) : bs := nth (N.to_nat i) rs (new_bs 0).
Definition reg_set (rs : list bs) (i : N) (s : bs) : list bs := set_nth (N.to_nat i) s rs.

Definition to_fift_bs_sx (s : bs) : sx :=
  match to_fift_bs s with
  | Ok (ds, u) => SL [SL (map SN ds); SB u]
  | Err _ => SA "err"
  | Panic _ => SA "panic"
  end.

Definition dstep (rs : list bs) (o : sx) : list bs * sx :=
  match o with
  | SL (SA nm :: args) =>
    let is x := String.eqb nm x in
    match args with
    | [SN i] =>
        let s := reg_get rs i in
        if is "cell" then (reg_set rs i (new_bs 1023), SA "ok")
        else if is "fift" then (rs, to_fift_bs_sx s)
        else if is "bin" then (rs, SBits (abs s))
        else if is "topup" then (rs, out_of SBytes (top_upped s))
        else if is "hash" then (rs, SA "ok")   (* oracle on the implementation only *)
        else (rs, sx_err "bad dop i")
    | [SN i; SN j] =>
        let s := reg_get rs i in
        if is "new" then (reg_set rs i (new_bs (N.to_nat j)), SA "ok")
        else if is "grow" then (reg_set rs i (grow (N.to_nat j) s), SA "ok")
        else if is "rrem" then
          let '(s', r) := read_remaining_bs s in (reg_set (reg_set rs i s') j r, SA "ok")
        else if is "copy" then (reg_set rs j (copy_bs s), SA "ok")
        else if is "raw" then (reg_set rs j s, SA "ok")
        else if is "append" then
          let '(s', r) := append_bs (reg_get rs j) s in (reg_set rs i s', out_unit r)
        else if is "wbs" then
          let '(s', r) := write_bitstring (reg_get rs j) s in (reg_set rs i s', out_unit r)
        else (rs, sx_err "bad dop ij")
    | [SN i; SN j; SN n] =>
        if is "rbits" then
          match read_bits_bs (N.to_nat n) (reg_get rs i) with
          | (s', Ok r) => (reg_set (reg_set rs i s') j r, SA "ok")
          | (s', Err _) => (reg_set rs i s', SA "err")
          | (s', Panic _) => (reg_set rs i s', SA "panic")
          end
        else (rs, sx_err "bad dop ijn")
    | [SN i; SN n; SB b] =>
        (* On(n) / Off(n) *)
        if is "setbit" then
          let '(s', r) := set_bit (N.to_nat n) b (reg_get rs i) in (reg_set rs i s', out_unit r)
        else (rs, sx_err "bad dop inb")
    | [SN i; SL op] =>
        if is "on" then let '(s', r) := step (reg_get rs i) (SL op) in (reg_set rs i s', r)
        else (rs, sx_err "bad dop on")
    | _ => (rs, sx_err "bad dop args")
    end
  | _ => (rs, sx_err "bad dop")
  end.

Fixpoint run_dops (rs : list bs) (ops : list sx) : list sx :=
  match ops with
  | [] => []
  | o :: t => let '(rs', r) := dstep rs o in r :: run_dops rs' t
  end.

(* (ops...) over 6 registers, all NewBitString(0) initially *)
Definition run_derived (a : sx) : sx :=
  match a with
  | SL ops => SL (run_dops (repeat (new_bs 0) 6) ops)
  | _ => sx_err "derived"
  end.
