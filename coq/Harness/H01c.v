(** Entry point for the concurrency family of C01: c01.conc.  The model answers
    every goroutine's DAG on its own; the verdict is always 'same. *)
From Coq Require Import List NArith ZArith String Bool.
From Tongo Require Import Lib.Bits Lib.Res Lib.Sx Model.BocParse Model.BocSer Model.BocConc
  Harness.H07 Harness.H01.
Import ListNotations.
Local Open Scope string_scope.
Local Open Scope list_scope.

Fixpoint dags_of_sx (l : list sx) : option (list (list node)) :=
  match l with
  | [] => Some []
  | SL d :: t =>
      match nodes_of_sx d, dags_of_sx t with
      | Some n, Some ns => Some (n :: ns)
      | _, _ => None
      end
  | _ :: _ => None
  end.

Definition conc_sx (dag : list node) (a : res bytes * res bytes) : sx :=
  let '(h, b) := a in
  SL [sx_res SBytes h;
      match b with
      | Ok out => SL [SBytes out; SB (certificate dag 0 out)]
      | Err _ => SA "err"
      | Panic _ => SA "panic"
      end].

(* c01.conc: (mode goroutines rounds idx crc cache (dag ...)) -> ((hash (bytes cert)) ... 'same) *)
Definition run_conc (a : sx) : sx :=
  match a with
  | SL [SN _; SN _; SN _; SB idx; SB crc; SB cache; SL dags] =>
      match dags_of_sx dags with
      | Some ds =>
          SL [SL (map (fun p => conc_sx (fst p) (snd p))
                      (combine ds (conc_answers hashes_of idx crc cache ds)));
              SA "same"]
      | None => sx_err "dags"
      end
  | _ => sx_err "conc"
  end.
