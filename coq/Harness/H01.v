(** Entry points for BOC serialisation (C01). *)
From Coq Require Import List NArith ZArith String Bool.
From Tongo Require Import Lib.Bits Lib.Res Lib.Sx Spec.Sha256 Model.BocParse Model.CellHash Model.BocSer
  Harness.H07.
Import ListNotations.
Local Open Scope string_scope.
Local Open Scope list_scope.

Definition hashes_of (cells : list node) : list (res bytes) :=
  map (fun ri => do c <- ri; cell_hash c) (eval_dag sha256 0 cells).

(* indices reachable from [root] in a forward-referencing array *)
Fixpoint reach_from (cells : list node) (i : nat) (marks : list bool) : list bool :=
  (* marks has one flag per index >= i ... processed front to back *)
  match cells with
  | [] => []
  | c :: rest =>
      match marks with
      | [] => []
      | m :: ms =>
          let ms' := if m then fold_left (fun acc r => set_nth (r - S i) true acc) (n_refs c) ms else ms in
          m :: reach_from rest (S i) ms'
      end
  end.

Fixpoint mem_bytes (h : bytes) (l : list bytes) : bool :=
  match l with [] => false | x :: t => bytes_eqb x h || mem_bytes h t end.

Fixpoint distinct (l : list bytes) (acc : list bytes) : list bytes :=
  match l with
  | [] => acc
  | x :: t => if mem_bytes x acc then distinct t acc else distinct t (x :: acc)
  end.

Fixpoint all_ok {A} (l : list (res A)) : option (list A) :=
  match l with
  | [] => Some []
  | Ok a :: t => match all_ok t with Some r => Some (a :: r) | None => None end
  | _ :: _ => None
  end.

(* certificate for one output: it parses; the single root hashes to the
   original root's hash; every cell is stored once (no two parsed cells have
   the same hash) and nothing unreachable or missing is stored (cell count =
   number of distinct hashes reachable from the original root) *)
Definition certificate (cells : list node) (root : nat) (out : bytes) : bool :=
  match parse_boc out with
  | Ok p =>
      match p_roots p with
      | [r'] =>
          let hs' := hashes_of (p_cells p) in
          let hs := hashes_of cells in
          match nth_error hs' r', nth_error hs root, all_ok hs' with
          | Some (Ok h'), Some (Ok h), Some allh' =>
              let marks := reach_from (skipn root cells) root (true :: repeat false (List.length cells - root - 1)) in
              let reach_hs := flat_map (fun p => match p with (true, Ok x) => [x] | _ => [] end)
                                       (combine marks (skipn root hs)) in
              bytes_eqb h h'
              && Nat.eqb (List.length (distinct allh' [])) (List.length allh')
              && Nat.eqb (List.length (distinct reach_hs [])) (List.length allh')
          | _, _, _ => false
          end
      | _ => false
      end
  | _ => false
  end.

(* c01.ser: (dag root idx crc cache) -> (bytes cert) | 'err *)
Definition run_ser (a : sx) : sx :=
  match a with
  | SL [SL dag; SN root; SB idx; SB crc; SB cache] =>
      match nodes_of_sx dag with
      | Some cells =>
          match serialize cells (hashes_of cells) [N.to_nat root] idx crc cache with
          | Ok out => SL [SBytes out; SB (certificate cells (N.to_nat root) out)]
          | Err _ => SA "err"
          | Panic _ => SA "panic"
          end
      | None => sx_err "dag"
      end
  | _ => sx_err "ser"
  end.
