(** Entry points of the C10 / C08(TL) model for the correspondence driver.
    Values travel as
      n<hex> number | x<hex> bytes/string/int256 | t/f | ('v v ...) vector |
      ('r 'Name ('Field v) ...) record ('_ = unnamed; nil fields are omitted). *)
From Coq Require Import String Ascii List NArith Bool.
From Tongo Require Import Lib.Bits Lib.Res Lib.Sx Spec.TlWire Model.Tl Model.TlMatch Model.TlHand
     Generated.TlSchema Generated.TlBindings.
Import ListNotations.
Local Open Scope string_scope.
Local Open Scope list_scope.

Definition atom_of (s : string) : sx := SA (if String.eqb s "" then "_" else s).
Definition name_of (a : string) : string := if String.eqb a "_" then "" else a.

Fixpoint sx_of_value (v : value) : sx :=
  match v with
  | VNum n => SN n
  | VBytes b => SBytes b
  | VBool b => SB b
  | VVec l => SL (SA "v" :: map sx_of_value l)
  | VRec c fs =>
      SL (SA "r" :: atom_of c ::
          (fix go (l : list (string * value)) : list sx :=
             match l with
             | [] => []
             | (f, x) :: t => SL [SA f; sx_of_value x] :: go t
             end) fs)
  end.

Fixpoint value_of_sx (s : sx) : option value :=
  match s with
  | SN n => Some (VNum n)
  | SBytes b => Some (VBytes b)
  | SB b => Some (VBool b)
  | SL (SA k :: rest) =>
      if String.eqb k "v" then
        option_map VVec
          ((fix go (l : list sx) : option (list value) :=
              match l with
              | [] => Some []
              | x :: t => opt a <- value_of_sx x; opt b <- go t; Some (a :: b)
              end) rest)
      else if String.eqb k "r" then
        match rest with
        | SA c :: fields =>
            option_map (VRec (name_of c))
              ((fix go (l : list sx) : option (list (string * value)) :=
                  match l with
                  | [] => Some []
                  | SL [SA f; x] :: t => opt a <- value_of_sx x; opt b <- go t; Some ((f, a) :: b)
                  | _ => None
                  end) fields)
        | _ => None
        end
      else None
  | _ => None
  end.

Fixpoint bytes_eqb (a b : bytes) : bool :=
  match a, b with
  | [], [] => true
  | x :: a', y :: b' => N.eqb x y && bytes_eqb a' b'
  | _, _ => false
  end.

Fixpoint value_eqb (a b : value) {struct a} : bool :=
  match a, b with
  | VNum x, VNum y => N.eqb x y
  | VBytes x, VBytes y => bytes_eqb x y
  | VBool x, VBool y => Bool.eqb x y
  | VVec x, VVec y =>
      (fix go (x y : list value) {struct x} : bool :=
         match x, y with
         | [], [] => true
         | p :: x', q :: y' => value_eqb p q && go x' y'
         | _, _ => false
         end) x y
  | VRec c x, VRec d y =>
      String.eqb c d &&
      (fix go (x y : list (string * value)) {struct x} : bool :=
         match x, y with
         | [], [] => true
         | (f, p) :: x', (g, q) :: y' => String.eqb f g && value_eqb p q && go x' y'
         | _, _ => false
         end) x y
  | _, _ => false
  end.

(** the spec side of a Go type name *)
Definition gonm : naming := go_naming tl_types.
Inductive target := TType (t : ty) | TArgs (f : decl).
Definition spec_target (name : string) : option target :=
  match find (fun d => String.eqb (cname d) name && single tl_types d) tl_types with
  | Some d => Some (TType (TBare (dname d)))
  | None =>
    match find (fun d => String.eqb (camel (dres d)) name) tl_types with
    | Some d => Some (TType (TBoxed (dres d)))
    | None =>
      match find (fun f => String.eqb (camel (dname f) ++ "Request") name) tl_functions with
      | Some f => Some (TArgs f)
      | None => None
      end
    end
  end.
Definition spec_enc (name : string) (v : value) : option bytes :=
  match spec_target name with
  | Some (TType t) => tl_encode gonm tl_types t v
  | Some (TArgs f) => enc_args gonm tl_types tl_fuel f v
  | None => None
  end.
Definition spec_dec (name : string) (bs : bytes) : option (value * bytes) :=
  match spec_target name with
  | Some (TType t) => tl_decode gonm tl_types t bs
  | Some (TArgs f) => dec_args gonm tl_types tl_fuel f bs
  | None => None
  end.

Definition out_bytes (r : res bytes) : sx :=
  match r with Ok b => SBytes b | Err _ => SA "err" | Panic _ => SA "panic" end.

(* c10.marshal: ('Type value) -> bytes of MarshalTL, model of the Go code; if the
   value is in the domain of the wire-format spec, the spec must agree.
   [strict]: the value is canonical, the spec must accept it. *)
Definition marshal_gen (strict : bool) (a : sx) : sx :=
  match a with
  | SL [SA name; sv] =>
      match value_of_sx sv with
      | Some v =>
          let r := go_marshal tl_bindings (GNamed name) v in
          match spec_enc name v with
          | Some e => match r with
                      | Ok b => if bytes_eqb e b then SBytes b else SA "specdiff"
                      | _ => SA "specdiff"
                      end
          | None => if strict then SA "nonspec" else out_bytes r
          end
      | None => sx_err "value"
      end
  | _ => sx_err "marshal"
  end.
Definition run_marshal_any : sx -> sx := marshal_gen false.
Definition run_marshal_canon : sx -> sx := marshal_gen true.

Definition out_unmarshal (r : res value * st) : sx :=
  let '(o, s) := r in
  match o with
  | Ok v => SL [sx_of_value v; sx_nat (length (inp s))]
  | Err _ => SA "err"
  | Panic _ => SA "panic"
  end.

(* c10.unmarshal: ('Type bytes) -> (value, number of unread bytes) *)
Definition unmarshal_gen (strict : bool) (a : sx) : sx :=
  match a with
  | SL [SA name; SBytes bs] =>
      let r := go_unmarshal tl_bindings (GNamed name) bs in
      match spec_dec name bs with
      | Some (v, rest) =>
          match r with
          | (Ok v', s) =>
              if value_eqb v v' && bytes_eqb rest (inp s) then out_unmarshal r else SA "specdiff"
          | _ => SA "specdiff"
          end
      | None => if strict then SA "nonspec" else out_unmarshal r
      end
  | _ => sx_err "unmarshal"
  end.
Definition run_unmarshal_any : sx -> sx := unmarshal_gen false.
Definition run_unmarshal_canon : sx -> sx := unmarshal_gen true.

Fixpoint string_of_bytes (l : bytes) : string :=
  match l with [] => EmptyString | b :: t => String (ascii_of_N b) (string_of_bytes t) end.
Fixpoint bytes_of_string (s : string) : bytes :=
  match s with EmptyString => [] | String c t => N_of_ascii c :: bytes_of_string t end.

(* c10.reqdecode: bytes -> LiteapiRequestDecoder: (tag, TL name, request) or (tag 'unknown) *)
Definition run_reqdecode (a : sx) : sx :=
  match a with
  | SBytes bs =>
      if short 4 bs then SA "err" else
      let tag := le_num (firstn 4 bs) in
      let unknown := SL [SN tag; SA "unknown"] in
      match find (fun row => N.eqb (fst (fst (fst row))) tag) tl_request_table with
      | Some (_, tag2, gt, tlname) =>
          if N.eqb tag2 tag then
            let '(o, s) := go_unmarshal tl_bindings (GNamed gt) (skipn 4 bs) in
            match o with
            | Ok v => SL [SN tag; SBytes (bytes_of_string tlname); sx_of_value v]
            | Err _ => unknown
            | Panic _ => SA "panic"
            end
          else unknown
      | None => unknown
      end
  | _ => sx_err "reqdecode"
  end.

(* c10.request: ('Method value|'none response) -> (payload handed to
   liteServerRequest, what the method makes of the response) *)
Definition out_response (r : res response) : sx :=
  match r with
  | Ok (RResult v) => SL [SA "result"; sx_of_value v]
  | Ok (RError v) => SL [SA "lserror"; sx_of_value v]
  | Err _ => SA "err"
  | Panic _ => SA "panic"
  end.

(* the schema's view of the same call: the request bytes, and the result if the
   response is a boxed value of the declared result type *)
Definition spec_function (mname : string) : option decl :=
  find (fun f => String.eqb (camel (dname f)) mname) tl_functions.
Definition spec_request_ok (mname : string) (rq : option value) (payload : bytes) : bool :=
  match spec_function mname with
  | Some f =>
      match tl_request gonm tl_types f (match rq with Some v => v | None => VRec "" [] end) with
      | Some e => bytes_eqb e payload
      | None => true
      end
  | None => false
  end.
Definition spec_response_ok (mname : string) (resp : bytes) (r : res response) : bool :=
  match spec_function mname with
  | Some f =>
      match tl_decode gonm tl_types (TBoxed (dres f)) resp with
      | Some (v, _) => match r with Ok (RResult v') => value_eqb v v' | _ => false end
      | None => true
      end
  | None => false
  end.

Definition run_request (a : sx) : sx :=
  match a with
  | SL [SA mname; sv; SBytes resp] =>
      match find (fun m => String.eqb (m_name m) mname) tl_methods with
      | Some m =>
          let req := match sv with SA _ => Some None | _ => option_map Some (value_of_sx sv) end in
          match req with
          | Some rq =>
              match go_request tl_bindings m rq with
              | Ok payload =>
                  let r := go_response tl_bindings m resp in
                  if spec_request_ok mname rq payload && spec_response_ok mname resp r
                  then SL [SBytes payload; out_response r] else SA "specdiff"
              | Err _ => SA "err"
              | Panic _ => SA "panic"
              end
          | None => sx_err "value"
          end
      | None => sx_err "method"
      end
  | _ => sx_err "request"
  end.

(* c10.enclen: n -> tl.EncodeLength(n); below 2^24 it must be the TL length prefix *)
Definition run_enclen (a : sx) : sx :=
  match a with
  | SN n =>
      let g := go_encode_length n in
      if N.ltb n two24 && negb (bytes_eqb g (bytes_header n)) then SA "specdiff" else SBytes g
  | _ => sx_err "enclen"
  end.

(* c10.sizeof: 'Type -> unsafe.Sizeof *)
Definition run_sizeof (a : sx) : sx :=
  match a with
  | SA name => SN (gsize tl_bindings (GNamed name))
  | _ => sx_err "sizeof"
  end.

(* c10.camel: string -> utils.ToCamelCase *)
Definition run_camel (a : sx) : sx :=
  match a with
  | SBytes b => SBytes (bytes_of_string (camel (string_of_bytes b)))
  | _ => sx_err "camel"
  end.

(** basic Go kinds and vectors of them: descriptor 'u32 | 'u64 | 'bytes | 'string |
    'bool | 'int256 | ('vec d) | 'TypeName  ->  Go type and TL type *)
Fixpoint desc_of_sx (s : sx) : option (gty * ty) :=
  match s with
  | SA a =>
      if String.eqb a "u32" then Some (GU32, TInt)
      else if String.eqb a "u64" then Some (GU64, TLong)
      else if String.eqb a "bytes" then Some (GBytes, TBytes)
      else if String.eqb a "string" then Some (GString, TString)
      else if String.eqb a "bool" then Some (GBool, TBool)
      else if String.eqb a "int256" then Some (GInt256, TInt256)
      else match spec_target a with Some (TType t) => Some (GNamed a, t) | _ => None end
  | SL [SA _; d] => match desc_of_sx d with Some (g, t) => Some (GSlice g, TVector t) | None => None end
  | _ => None
  end.

(* c10.bmarshal: (desc value) -> tl.Marshal(value); the spec must agree where defined *)
Definition run_bmarshal (a : sx) : sx :=
  match a with
  | SL [d; sv] =>
      match desc_of_sx d, value_of_sx sv with
      | Some (g, t), Some v =>
          let r := go_marshal tl_bindings g v in
          match tl_encode gonm tl_types t v with
          | Some e => match r with
                      | Ok b => if bytes_eqb e b then SBytes b else SA "specdiff"
                      | _ => SA "specdiff"
                      end
          | None => SA "nonspec"
          end
      | _, _ => sx_err "bmarshal"
      end
  | _ => sx_err "bmarshal"
  end.

(* c10.bunmarshal: (desc bytes) -> (value, unread); the spec must agree where defined *)
Definition run_bunmarshal (a : sx) : sx :=
  match a with
  | SL [d; SBytes bs] =>
      match desc_of_sx d with
      | Some (g, t) =>
          let r := go_unmarshal tl_bindings g bs in
          match tl_decode gonm tl_types t bs with
          | Some (v, rest) =>
              match r with
              | (Ok v', s) =>
                  if value_eqb v v' && bytes_eqb rest (inp s) then out_unmarshal r else SA "specdiff"
              | _ => SA "specdiff"
              end
          | None => out_unmarshal r
          end
      | None => sx_err "bunmarshal"
      end
  | _ => sx_err "bunmarshal"
  end.

(** hand-written codecs (Model/TlHand.v); every marshal is compared with tl_encode of
    the lite_api.tl declaration, every unmarshal with tl_decode *)
Definition check_enc (c : string) (v : value) (b : bytes) : sx :=
  match tl_encode gonm tl_types (TBare c) v with
  | Some e => if bytes_eqb e b then SBytes b else SA "specdiff"
  | None => SA "nonspec"
  end.
Definition dec_agrees (c : string) (bs : bytes) (v : value) (rest : bytes) : bool :=
  match tl_decode gonm tl_types (TBare c) bs with
  | Some (v', rest') => value_eqb v v' && bytes_eqb rest rest'
  | None => false
  end.

Definition hand_account (rest : list sx) : sx :=
  match rest with
  | [SA _; SN w; SBytes ad] =>
      check_enc "liteServer.accountId" (val_account_id w ad) (hand_account_marshal w ad)
  | [SA _; SBytes bs] =>
      match hand_account_unmarshal bs with
      | Some (w, ad, rest) =>
          if dec_agrees "liteServer.accountId" bs (val_account_id w ad) rest
          then SL [SN w; SBytes ad; sx_nat (length rest)] else SA "specdiff"
      | None => SA "err"
      end
  | _ => sx_err "hand"
  end.
Definition hand_blockid (rest : list sx) : sx :=
  match rest with
  | [SA _; SN w; SN sh; SN sq] =>
      check_enc "tonNode.blockId" (val_block_id w sh sq) (hand_blockid_marshal w sh sq)
  | [SA _; SBytes bs] =>
      match hand_blockid_unmarshal bs with
      | Some (w, sh, sq, rest) =>
          if dec_agrees "tonNode.blockId" bs (val_block_id w sh sq) rest
          then SL [SN w; SN sh; SN sq; sx_nat (length rest)] else SA "specdiff"
      | None => SA "err"
      end
  | _ => sx_err "hand"
  end.
Definition hand_blockidext (rest : list sx) : sx :=
  match rest with
  | [SA _; SN w; SN sh; SN sq; SBytes rh; SBytes fh] =>
      check_enc "tonNode.blockIdExt" (val_block_id_ext w sh sq rh fh) (hand_blockidext_marshal w sh sq rh fh)
  | [SA _; SBytes bs] =>
      match hand_blockidext_unmarshal bs with
      | Some (w, sh, sq, rh, fh) =>
          if dec_agrees "tonNode.blockIdExt" bs (val_block_id_ext w sh sq rh fh) []
          then SL [SN w; SN sh; SN sq; SBytes rh; SBytes fh] else SA "specdiff"
      | None => SA "err"
      end
  | _ => sx_err "hand"
  end.
(* UnmarshalTL of (TL bytes of a valid stack's BOC ++ junk): how much is left unread *)
Definition hand_vmstack (rest : list sx) : sx :=
  match rest with
  | [SBytes boc; SBytes junk] =>
      match hand_vmstack_unframe (enc_bytes boc ++ junk) with
      | (Ok data, s) => if bytes_eqb data boc then sx_nat (length (inp s)) else SA "specdiff"
      | _ => SA "err"
      end
  | _ => sx_err "hand"
  end.

(* c10.hand: ('accountid|'blockid|'blockidext 'm fields.. | 'u bytes), ('vmstack boc junk) *)
Definition run_hand (a : sx) : sx :=
  match a with
  | SL (SA t :: rest) =>
      if String.eqb t "accountid" then hand_account rest
      else if String.eqb t "blockid" then hand_blockid rest
      else if String.eqb t "blockidext" then hand_blockidext rest
      else if String.eqb t "vmstack" then hand_vmstack rest
      else sx_err "hand"
  | _ => sx_err "hand"
  end.

(** liteclient's private framing helpers and hand-assembled query frames (Model/TlHand.v) *)
(* c10.lclen: n -> encodeLength(n); below 2^24 it must be the TL length prefix *)
Definition run_lclen (a : sx) : sx :=
  match a with
  | SN n =>
      let g := lc_encode_length n in
      if N.ltb n two24 && negb (bytes_eqb g (bytes_header n)) then SA "specdiff" else SBytes g
  | _ => sx_err "lclen"
  end.
(* c10.lcdec: bytes -> decodeLength: (n, bytes left) *)
Definition run_lcdec (a : sx) : sx :=
  match a with
  | SBytes b => match lc_decode_length b with
                | Ok (n, rest) => SL [SN n; sx_nat (length rest)]
                | _ => SA "err"
                end
  | _ => sx_err "lcdec"
  end.
Definition run_lcalign (a : sx) : sx :=
  match a with SBytes b => SBytes (lc_align b) | _ => sx_err "lcalign" end.

Definition zeros32 : bytes := repeat 0%N 32.
(* c10.adnlreq: (query answer) -> (Request's ADNL payload without the random query id,
   what Request returns when the server answers with the TL bytes of answer) *)
Definition run_adnlreq (a : sx) : sx :=
  match a with
  | SL [SBytes q; SBytes resp] =>
      let p := lc_request_payload zeros32 q in
      let frame := firstn 4 p ++ skipn 36 p in
      let spec := le_bytes 4 magic_adnl_query ++ enc_bytes q in
      if N.ltb (N.of_nat (length q)) two24 && negb (bytes_eqb frame spec) then SA "specdiff" else
      SL [SBytes frame;
          out_bytes (lc_process_answer (le_bytes 4 magic_adnl_answer ++ zeros32 ++ enc_bytes resp))]
  | _ => sx_err "adnlreq"
  end.

(* c10.wait: ('seqno|'block seqno timeout response) -> (query inside liteServer.query, outcome) *)
Definition wait_block_value (seqno : N) : value :=
  VRec "" [("Mode", VNum 1);
           ("Id", VRec "" [("Workchain", VNum 4294967295); ("Shard", VNum 9223372036854775808); ("Seqno", VNum seqno)])].
Definition run_wait (a : sx) : sx :=
  match a with
  | SL [SA k; SN seqno; SN tmo; SBytes resp] =>
      match find (fun m => String.eqb (m_name m) "LiteServerLookupBlock") tl_methods with
      | None => sx_err "wait-method"
      | Some m =>
          if String.eqb k "seqno" then
            let oc :=
              if short 4 resp then SA "err"
              else if N.eqb (le_num (firstn 4 resp)) (m_err_id m) then
                match go_unmarshal tl_bindings (GNamed "LiteServerErrorC") (skipn 4 resp) with
                | (Ok v, _) =>
                    match v with
                    | VRec _ fs => match assoc "Code" fs with
                                   | Some (VNum 0%N) => SA "ok"
                                   | _ => SL [SA "lserror"; sx_of_value v]
                                   end
                    | _ => SA "err"
                    end
                | _ => SA "err"
                end
              else SA "err" in
            SL [SBytes (lc_wait_prefix seqno tmo); oc]
          else
            match go_request tl_bindings m (Some (wait_block_value seqno)) with
            | Ok body => SL [SBytes (lc_wait_prefix seqno tmo ++ body); out_response (go_response tl_bindings m resp)]
            | _ => SA "err"
            end
      end
  | _ => sx_err "wait"
  end.

Definition run (name : string) (a : sx) : sx :=
  let is x := String.eqb name x in
  if is "c10.marshal" then run_marshal_any a
  else if is "c10.cmarshal" then run_marshal_canon a
  else if is "c10.unmarshal" then run_unmarshal_any a
  else if is "c10.cunmarshal" then run_unmarshal_canon a
  else if is "c10.reqdecode" then run_reqdecode a
  else if is "c10.request" then run_request a
  else if is "c10.sizeof" then run_sizeof a
  else if is "c10.camel" then run_camel a
  else if is "c10.enclen" then run_enclen a
  else if is "c10.bmarshal" then run_bmarshal a
  else if is "c10.bunmarshal" then run_bunmarshal a
  else if is "c10.hand" then run_hand a
  else if is "c10.lclen" then run_lclen a
  else if is "c10.lcdec" then run_lcdec a
  else if is "c10.lcalign" then run_lcalign a
  else if is "c10.adnlreq" then run_adnlreq a
  else if is "c10.wait" then run_wait a
  else sx_err "unknown case kind".
