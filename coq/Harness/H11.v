(** Entry points of the C11 model (ADNL transport) for the correspondence driver.
    H = Gallina SHA-256; a cipher state is the list of keystream bytes still to
    come (computed by Go: AES-CTR oracle column); X25519 results are oracle
    columns too. *)
From Coq Require Import List NArith String Bool.
From Tongo Require Import Lib.Bits Lib.Sx Spec.Sha256 Spec.AdnlSpec Model.AdnlT.
Import ListNotations.
Local Open Scope string_scope.
Local Open Scope list_scope.

Definition ks := list N.
Definition ks_next (s : ks) : N * ks :=
  match s with [] => (0%N, []) | k :: t => (k, t) end.

(* oracle table ((key iv keystream) ...) *)
Fixpoint ks_init (tab : list (list N * list N * list N)) (key iv : list N) : ks :=
  match tab with
  | [] => []
  | (k, i, s) :: t => if bytes_eqb k key && bytes_eqb i iv then s else ks_init t key iv
  end.

Definition segs_of (a : sx) : option reader :=
  match a with
  | SL l =>
      fold_right (fun x acc => match x, acc with
                               | SBytes b, Some r => Some (b :: r)
                               | _, _ => None end) (Some []) l
  | _ => None
  end.

Definition msgs_of (a : sx) : option (list (list N * list N)) :=
  match a with
  | SL l =>
      fold_right (fun x acc => match x, acc with
                               | SL [SBytes n; SBytes p], Some r => Some ((n, p) :: r)
                               | _, _ => None end) (Some []) l
  | _ => None
  end.

Definition tab_of (a : sx) : option (list (list N * list N * list N)) :=
  match a with
  | SL l =>
      fold_right (fun x acc => match x, acc with
                               | SL [SBytes k; SBytes i; SBytes s], Some r => Some ((k, i, s) :: r)
                               | _, _ => None end) (Some []) l
  | _ => None
  end.

Definition perr_sx (e : perr) : sx :=
  match e with
  | PEof => SA "eof" | PUnexp => SA "ueof" | PLen => SA "err" | PSum => SA "err"
  | PFuel => SA "model-fuel"
  end.

Definition total_len (r : reader) : N := fold_left (fun a s => (a + len s)%N) r 0%N.

(* c11.marshal (nonce payload) -> frame *)
Definition run_marshal (a : sx) : sx :=
  match a with
  | SL [SBytes nonce; SBytes payload] => SBytes (marshal sha256 nonce payload)
  | _ => sx_err "marshal"
  end.

(* c11.parse (keystream (seg ...)) -> ('ok nonce payload consumed) | ('eof|'ueof|'err consumed) *)
Definition run_parse (a : sx) : sx :=
  match a with
  | SL [SBytes k; segs] =>
      match segs_of segs with
      | Some r =>
          let tot := total_len r in
          match parse_packet sha256 ks ks_next r k with
          | POk _ nonce payload r' _ =>
              SL [SA "ok"; SBytes nonce; SBytes payload; SN (tot - total_len r')]
          | PErr _ e r' => SL [perr_sx e; SN (tot - total_len r')]
          end
      | None => sx_err "parse segs"
      end
  | _ => sx_err "parse"
  end.

(* c11.recv (keystream (seg ...)) -> (payload ...) : packets put on the channel *)
Definition run_recv (a : sx) : sx :=
  match a with
  | SL [SBytes k; segs] =>
      match segs_of segs with
      | Some r => let '(ps, _) := recv_all sha256 ks ks_next r k in SL (map SBytes ps)
      | None => sx_err "recv segs"
      end
  | _ => sx_err "recv"
  end.

(* c11.session
   (server_priv server_pub params client_seed client_pub shared_client shared_server
    ((key iv keystream) ...) ((nonce payload) ... client->server)
    ((nonce payload) ... server->client, the first one is the handshake reply)
    (seglen ...) how the server's bytes are cut into segments)
   -> (handshake accepted c2s_bytes s2c_bytes (payload ... delivered to the client)
       ((nonce payload) ... received by the server)) *)
Fixpoint cut (lens : list sx) (l : list N) : reader :=
  match lens with
  | SN n :: t => let '(a, rest, _) := take n l in a :: cut t rest
  | _ => match l with [] => [] | _ => [l] end
  end.

Definition run_session (a : sx) : sx :=
  match a with
  | SL [SBytes spriv; SBytes spub; SBytes params; SBytes _cseed; SBytes cpub; SBytes shc; SBytes shs;
        tab; c2s; s2c; SL lens] =>
      match tab_of tab, msgs_of c2s, msgs_of s2c with
      | Some tab, Some c2s, Some s2c =>
          let init := ks_init tab in
          let hs := handshake_bytes sha256 ks ks_next init spub params cpub shc in
          match server_accept sha256 ks ks_next init (fun _ _ => shs) spriv spub hs with
          | Some sv =>
              let '(s2c_bytes, _) := server_send_all sha256 ks ks_next sv s2c in
              let run := client_session sha256 ks ks_next init spub params cpub shc c2s
                                        (cut lens s2c_bytes) in
              let '(frames, _, _) := server_recv sha256 ks ks_next sv (cr_sent run) in
              SL [SBytes (cr_handshake run);
                  SB (bytes_eqb (sv_params _ sv) params);
                  SBytes (cr_sent run);
                  SBytes s2c_bytes;
                  SL (map SBytes (cr_delivered run));
                  SL (map (fun f => SL [SBytes (fst f); SBytes (snd f)]) frames)]
          | None => SL [SBytes hs; SA "server-rejects"]
          end
      | _, _, _ => sx_err "session args"
      end
  | _ => sx_err "session"
  end.

Definition run (name : string) (a : sx) : sx :=
  let is x := String.eqb name x in
  if is "c11.marshal" then run_marshal a
  else if is "c11.parse" then run_parse a
  else if is "c11.recv" then run_recv a
  else if is "c11.session" then run_session a
  else sx_err "unknown case kind".
