(** Entry points of the C11 model (ADNL transport) for the correspondence driver.
    H = Gallina SHA-256; a cipher state is the list of keystream bytes still to
    come (computed by Go: AES-CTR oracle column); X25519 results are oracle
    columns too. *)
From Coq Require Import List NArith String Bool.
From Tongo Require Import Lib.Bits Lib.Sx Spec.Sha256 Spec.AdnlSpec Model.AdnlT.
Import ListNotations.
Local Open Scope string_scope.
Local Open Scope list_scope.

Definition ks := list N.
Definition ks_next (s : ks) : N * ks :=
  match s with [] => (0%N, []) | k :: t => (k, t) end.

(* oracle table ((key iv keystream) ...) *)
Fixpoint ks_init (tab : list (list N * list N * list N)) (key iv : list N) : ks :=
  match tab with
  | [] => []
  | (k, i, s) :: t => if bytes_eqb k key && bytes_eqb i iv then s else ks_init t key iv
  end.

Definition segs_of (a : sx) : option reader :=
  match a with
  | SL l =>
      fold_right (fun x acc => match x, acc with
                               | SBytes b, Some r => Some (b :: r)
                               | _, _ => None end) (Some []) l
  | _ => None
  end.

Definition msgs_of (a : sx) : option (list (list N * list N)) :=
  match a with
  | SL l =>
      fold_right (fun x acc => match x, acc with
                               | SL [SBytes n; SBytes p], Some r => Some ((n, p) :: r)
                               | _, _ => None end) (Some []) l
  | _ => None
  end.

Definition tab_of (a : sx) : option (list (list N * list N * list N)) :=
  match a with
  | SL l =>
      fold_right (fun x acc => match x, acc with
                               | SL [SBytes k; SBytes i; SBytes s], Some r => Some ((k, i, s) :: r)
                               | _, _ => None end) (Some []) l
  | _ => None
  end.

Definition perr_sx (e : perr) : sx :=
  match e with
  | PEof => SA "eof" | PUnexp => SA "ueof" | PLen => SA "err" | PSum => SA "err"
  | PFuel => SA "model-fuel"
  end.

Definition total_len (r : reader) : N := fold_left (fun a s => (a + len s)%N) r 0%N.

(* c11.marshal (nonce payload) -> frame *)
Definition run_marshal (a : sx) : sx :=
  match a with
  | SL [SBytes nonce; SBytes payload] => SBytes (marshal sha256 nonce payload)
  | _ => sx_err "marshal"
  end.

(* c11.parse (keystream (seg ...)) -> ('ok nonce payload consumed) | ('eof|'ueof|'err consumed) *)
Definition run_parse (a : sx) : sx :=
  match a with
  | SL [SBytes k; segs] =>
      match segs_of segs with
      | Some r =>
          let tot := total_len r in
          match parse_packet sha256 ks ks_next r k with
          | POk _ nonce payload r' _ =>
              SL [SA "ok"; SBytes nonce; SBytes payload; SN (tot - total_len r')]
          | PErr _ e r' => SL [perr_sx e; SN (tot - total_len r')]
          end
      | None => sx_err "parse segs"
      end
  | _ => sx_err "parse"
  end.

(* c11.recv (keystream (seg ...)) -> (payload ...) : packets put on the channel *)
Definition run_recv (a : sx) : sx :=
  match a with
  | SL [SBytes k; segs] =>
      match segs_of segs with
      | Some r => let '(ps, _) := recv_all sha256 ks ks_next r k in SL (map SBytes ps)
      | None => sx_err "recv segs"
      end
  | _ => sx_err "recv"
  end.

(* c11.session
   (server_priv server_pub params client_seed client_pub shared_client shared_server
    ((key iv keystream) ...) ((nonce payload) ... client->server)
    ((nonce payload) ... server->client, the first one is the handshake reply)
    (seglen ...) how the server's bytes are cut into segments)
   -> (handshake accepted c2s_bytes s2c_bytes (payload ... delivered to the client)
       ((nonce payload) ... received by the server)) *)
Fixpoint cut (lens : list sx) (l : list N) : reader :=
  match lens with
  | SN n :: t => let '(a, rest, _) := take n l in a :: cut t rest
  | _ => match l with [] => [] | _ => [l] end
  end.

Definition run_session (a : sx) : sx :=
  match a with
  | SL [SBytes spriv; SBytes spub; SBytes params; SBytes _cseed; SBytes cpub; SBytes shc; SBytes shs;
        tab; c2s; s2c; SL lens] =>
      match tab_of tab, msgs_of c2s, msgs_of s2c with
      | Some tab, Some c2s, Some s2c =>
          let init := ks_init tab in
          let hs := handshake_bytes sha256 ks ks_next init spub params cpub shc in
          match server_accept sha256 ks ks_next init (fun _ _ => shs) spriv spub hs with
          | Some sv =>
              let '(s2c_bytes, _) := server_send_all sha256 ks ks_next sv s2c in
              let run := client_session sha256 ks ks_next init spub params cpub shc c2s
                                        (cut lens s2c_bytes) in
              let '(frames, _, _) := server_recv sha256 ks ks_next sv (cr_sent run) in
              SL [SBytes (cr_handshake run);
                  SB (bytes_eqb (sv_params _ sv) params);
                  SBytes (cr_sent run);
                  SBytes s2c_bytes;
                  SL (map SBytes (cr_delivered run));
                  SL (map (fun f => SL [SBytes (fst f); SBytes (snd f)]) frames)]
          | None => SL [SBytes hs; SA "server-rejects"]
          end
      | _, _, _ => sx_err "session args"
      end
  | _ => sx_err "session"
  end.

(* ---------- several senders on one connection ---------- *)

Definition sched_of (a : sx) : option (list (nat * action)) :=
  match a with
  | SL l =>
      fold_right (fun x acc => match x, acc with
                               | SL [SN i; SA act], Some r =>
                                   let a := if String.eqb act "L" then ALock
                                            else if String.eqb act "E" then AEncrypt
                                            else if String.eqb act "W" then AWrite else AUnlock in
                                   Some ((N.to_nat i, a) :: r)
                               | _, _ => None end) (Some []) l
  | _ => None
  end.

Definition queues_of (a : sx) : option (list (list (list N * list N))) :=
  match a with
  | SL l =>
      fold_right (fun x acc => match msgs_of x, acc with
                               | Some q, Some r => Some (q :: r)
                               | _, _ => None end) (Some []) l
  | _ => None
  end.

(* c11.csend (keystream (sender-queue ...) schedule) -> (wire ((is_encrypt size) ...))
   Connection.Send by several goroutines over one transport: bytes on the wire
   and the order of XORKeyStream / Write calls *)
Definition run_csend (a : sx) : sx :=
  match a with
  | SL [SBytes k; qs; sc] =>
      match queues_of qs, sched_of sc with
      | Some qs, Some sc =>
          let '(st, ev) := crun sha256 ks ks_next false sc (cinit ks k qs) [] in
          SL [SBytes (cs_wire st); SL (map (fun e => SL [SB (fst e); SN (snd e)]) ev)]
      | _, _ => sx_err "csend args"
      end
  | _ => sx_err "csend"
  end.

(* c11.conc: a session in which the client's packets are sent by several
   goroutines; every payload starts with (sender id, sequence number).
   -> (connected complete frames ((payload ...) per sender)) as decoded by the server *)
Definition group_by_sender (n : nat) (frames : list (list N * list N)) : list sx :=
  map (fun i => SL (map SBytes (filter (fun p => match p with b :: _ => N.eqb b (N.of_nat i) | [] => false end)
                                       (map snd frames))))
      (seq 0 n).

Definition run_conc (a : sx) : sx :=
  match a with
  | SL [SBytes spriv; SBytes spub; SBytes params; SBytes _cseed; SBytes cpub; SBytes shc; SBytes shs;
        tab; SL [SBytes rn; SBytes rp]; qs; sc] =>
      match tab_of tab, queues_of qs, sched_of sc with
      | Some tab, Some qs, Some sc =>
          let init := ks_init tab in
          let hs := handshake_bytes sha256 ks ks_next init spub params cpub shc in
          match server_accept sha256 ks ks_next init (fun _ _ => shs) spriv spub hs with
          | Some sv =>
              let '(reply, _) := server_send sha256 ks ks_next sv rn rp in
              let run := client_session sha256 ks ks_next init spub params cpub shc [] [reply] in
              let '(st, _) := crun sha256 ks ks_next false sc (cinit ks (client_tx0 ks init params) qs) [] in
              let '(frames, e, _) := server_recv sha256 ks ks_next sv (cs_wire st) in
              SL [SB (cr_connected run);
                  SB (match e with SDone => true | _ => false end);
                  sx_nat (List.length frames);
                  SL (group_by_sender (List.length qs) frames)]
          | None => SL [SBytes hs; SA "server-rejects"]
          end
      | _, _, _ => sx_err "conc args"
      end
  | _ => sx_err "conc"
  end.

(* c11.stress (seed senders per_sender size): implementation-only load run;
   by C11_lock_serialises + C11_server_receives the outcome is always this *)
Definition run_stress (a : sx) : sx :=
  match a with
  | SL [SN _; SN n; SN k; SN _] => SL [SB true; SB true; SN (n * k); SB true]
  | _ => sx_err "stress"
  end.

(* c11.multi (reuse_key_buffer (session ...)): several connections made one after
   the other by one process, possibly to different servers -> the c11.session
   outcome of each; every connection is a handshake of its own *)
Definition run_multi (a : sx) : sx :=
  match a with
  | SL [SB _; SL sess] => SL (map run_session sess)
  | _ => sx_err "multi"
  end.

(* c11.magic payload -> Packet.MagicType *)
Definition run_magic (a : sx) : sx :=
  match a with
  | SBytes p => SN (magic_type p)
  | _ => sx_err "magic"
  end.

(* ---------- Connection layer over time ---------- *)

(* c11.conn (server_seed ((drop ((gap payload) ...) (marked ...)) ...))
   drop = 'close (server closes the socket) | 'silence (server goes silent for
   more than reconnectTimeout) | 'end (last session).
   -> (sessions (payload ... received on the ONE Responses() channel)
       ((marked packets the server decoded) per session)) *)
Definition arrivals_of (drop : string) (pk : list sx) : list arrival :=
  flat_map (fun x => match x with
                     | SL [SN g; SBytes p] => [APacket g p]
                     | _ => [] end) pk
  ++ (if String.eqb drop "close" then [AClosed 100%N]
      else if String.eqb drop "silence" then [AClosed 11000%N] else []).

Definition run_conn (a : sx) : sx :=
  match a with
  | SL [SBytes _; SL sess] =>
      let parsed := map (fun s => match s with
                                  | SL [SA drop; SL pk; SL marked] => (arrivals_of drop pk, marked)
                                  | _ => ([], []) end) sess in
      let total := fold_left (fun acc a => match a with APacket g _ => (acc + g)%N | AClosed _ => acc end)
                             (List.concat (map fst parsed)) 0%N in
      SL [sx_nat (List.length parsed);
          SL (map SBytes (app_received (conn_run false false 0 (map fst parsed))));
          SL (map (fun s => SL (snd s)) parsed);
          SN 1 (* Status() = Connected at the end *);
          (* a ping was answered: AverageRoundTrip() > 0 (one long session only) *)
          (if Nat.eqb (List.length parsed) 1 && (6000 <=? total)%N then SB true else SA "na");
          SB true (* the ephemeral public keys of the handshakes are pairwise different *)]
  | _ => sx_err "conn"
  end.

Definition run (name : string) (a : sx) : sx :=
  let is x := String.eqb name x in
  if is "c11.marshal" then run_marshal a
  else if is "c11.parse" then run_parse a
  else if is "c11.recv" then run_recv a
  else if is "c11.session" then run_session a
  else if is "c11.csend" then run_csend a
  else if is "c11.conc" then run_conc a
  else if is "c11.stress" then run_stress a
  else if is "c11.conn" then run_conn a
  else if is "c11.magic" then run_magic a
  else if is "c11.multi" then run_multi a
  else sx_err "unknown case kind".
