(** Executable entry points of the C19 model (TON Connect) for the correspondence driver.
    Oracle columns (HMAC, base64, BOC parse + cell hashes, dictionary decodability,
    ed25519 verification results) arrive as data inside the case; SHA-256 is the
    Gallina one. *)
From Coq Require Import String List NArith ZArith Bool.
From Tongo Require Import Lib.Bits Lib.Res Lib.Sx Spec.Sha256 Model.TonConnect Generated.TonConnectConsts.
Import ListNotations.
Local Open Scope string_scope.
Local Open Scope list_scope.

Definition known_wallets : known_table := known_of gen_known_hashes.

Definition out_res {A} (f : A -> sx) (r : res A) : sx :=
  match r with Ok a => f a | Err _ => SA "err" | Panic _ => SA "panic" end.

(* ---- decoding of oracle columns ---- *)

Definition opt_bytes (a : sx) : option bytes :=
  match a with SBytes b => Some b | _ => None end.

(* table of (key value) byte pairs as a function with default *)
Fixpoint table_lookup (k : bytes) (t : list sx) (dflt : bytes) : bytes :=
  match t with
  | SL [SBytes k'; SBytes v] :: t' => if beqb k k' then v else table_lookup k t' dflt
  | _ :: t' => table_lookup k t' dflt
  | [] => dflt
  end.

Definition zeros32 : bytes := repeat 0%N 32.

(* hmac column: the secret is fixed per case, entries are (message mac) *)
Definition hmac_of (t : list sx) : bytes -> bytes -> bytes :=
  fun _ m => table_lookup m t zeros32.

(* verify column: entries (pk msg bool); signature fixed per case; default false *)
Fixpoint verify_of (t : list sx) (pk msg sig : bytes) : bool :=
  match t with
  | SL [SBytes pk'; SBytes msg'; SB b] :: t' =>
      if beqb pk pk' && beqb msg msg' then b else verify_of t' pk msg sig
  | _ :: t' => verify_of t' pk msg sig
  | [] => false
  end.

Fixpoint cell_of_sx (fuel : nat) (a : sx) : cell :=
  match fuel with
  | O => zero_cell
  | S f =>
      match a with
      | SL [SN ty; SBits b; SL refs; h] => Cell ty b (map (cell_of_sx f) refs) (opt_bytes h)
      | _ => zero_cell
      end
  end.

Definition boc_of (a : sx) : bytes -> res (list cell) :=
  fun _ => match a with SL cells => Ok (map (cell_of_sx 8) cells) | _ => Err EOther end.

Definition stk_of (a : sx) : stk :=
  match a with
  | SL [SA k; SZ z] => if String.eqb k "tiny" then StTiny z else if String.eqb k "int" then StInt z else StOther
  | _ => StOther
  end.

Definition exec_of (a : sx) : exec_result :=
  match a with
  | SL [SN code; SL st] => ExRet code (map stk_of st)
  | _ => ExErr
  end.

Definition bool_of (a : sx) : bool := match a with SB b => b | _ => false end.

(* ---- entry points ---- *)

(* c19.msg: (wc addr ts domain payload) -> message hash *)
Definition run_msg (a : sx) : sx :=
  match a with
  | SL [SZ wc; SBytes addr; SZ ts; SBytes dom; SBytes pl] =>
      SBytes (create_message sha256 (mkParsed wc addr ts dom [] pl))
  | _ => sx_err "c19.msg"
  end.

Definition sx_acc (x : Z * bytes) : sx := SL [SZ (fst x); SBytes (snd x)].

(* c19.conv: (address sigtext b64) -> (conv acc) *)
Definition run_conv (a : sx) : sx :=
  match a with
  | SL [SBytes addr; SBytes sigt; b64o] =>
      let tp := mkProof addr 0 [] sigt [] [] in
      SL [out_res (fun p => SL [SZ (m_wc p); SBytes (m_addr p); SBytes (m_sig p)])
                  (convert (fun _ => opt_bytes b64o) tp);
          match index_colon addr with
          | None => SA "nocolon"      (* base64 form: C17; unreachable from CheckProof *)
          | Some _ => out_res sx_acc (parse_account_id addr)
          end]
  | _ => sx_err "c19.conv"
  end.

(* c19.payload: (secret lifetime now payload hmac-table) -> verified *)
Definition run_payload (a : sx) : sx :=
  match a with
  | SL [SBytes secret; SZ lt; SZ now; SBytes pl; SL ht] =>
      out_res SB (check_payload (hmac_of ht) secret (lifetime_or_default lt defaultLifeTimePayload) now pl)
  | _ => sx_err "c19.payload"
  end.

(* c19.pubkey: exec -> key | 'err *)
Definition run_pubkey (a : sx) : sx :=
  match get_wallet_pubkey (exec_of a) with Some k => SBytes k | None => SA "err" end.

(* c19.stateinit: (addr si boc lib_ok ext_ok) -> (cmp key) *)
Definition run_stateinit (a : sx) : sx :=
  match a with
  | SL [SBytes addr; SBytes si; bo; lo; eo] =>
      let boc := boc_of bo in
      SL [out_res SB (compare_state_init boc addr si);
          out_res SBytes (parse_state_init_key boc (fun _ => bool_of lo) (fun _ => bool_of eo) known_wallets si)]
  | _ => sx_err "c19.stateinit"
  end.

Definition proof_of_sx (a : sx) : option proof :=
  match a with
  | SL [SBytes addr; SZ ts; SBytes dom; SBytes sig; SBytes pl; SBytes si] => Some (mkProof addr ts dom sig pl si)
  | _ => None
  end.

(* the checkDomain argument: a byte string d is StaticDomain d; ('allow) ('deny) ('error)
   ('suffix x) are caller-written policies *)
Fixpoint is_suffix_rev (rs rl : bytes) : bool :=
  match rs, rl with
  | [], _ => true
  | x :: rs', y :: rl' => N.eqb x y && is_suffix_rev rs' rl'
  | _ :: _, [] => false
  end.
Definition cd_of (a : sx) : bytes -> res bool :=
  match a with
  | SBytes d => static_domain d
  | SL [SA k] =>
      if String.eqb k "allow" then fun _ => Ok true
      else if String.eqb k "deny" then fun _ => Ok false
      else fun _ => Err EOther
  | SL [SA _; SBytes suf] => fun s => Ok (is_suffix_rev (rev suf) (rev s))
  | _ => fun _ => Err EOther
  end.

(* c19.check: (secret ltproof ltpayload domain exec proof now hmac b64 boc lib ext verify) *)
Definition run_check (a : sx) : sx :=
  match a with
  | SL [SBytes secret; SZ ltp; SZ ltpl; dom; ex; pr; SZ now; SL ht; b64o; bo; lo; eo; SL vt] =>
      match proof_of_sx pr with
      | None => sx_err "c19.check proof"
      | Some tp =>
          let r := check_proof sha256 (verify_of vt) (fun _ => opt_bytes b64o) (boc_of bo)
                     (fun _ => bool_of lo) (fun _ => bool_of eo) known_wallets (fun _ => exec_of ex)
                     (check_payload (hmac_of ht) secret (lifetime_or_default ltpl defaultLifeTimePayload) now)
                     (cd_of dom)
                     (lifetime_or_default ltp defaultLifeTimeProof) now tp in
          out_res (fun k => SL [SB true; SBytes k]) r
      end
  | _ => sx_err "c19.check"
  end.

(* c19.hist: (secret ltproof ltpayload domain now concurrent (call ...)) with
   call = (exec proof hmac b64 boc lib ext verify): the calls are made on ONE Server value by
   the implementation; the model's answer for each call is the answer for that call alone
   (Model.TonConnect.run_history; C19_history_independent) *)
Definition run_hist (a : sx) : sx :=
  match a with
  | SL [secret; ltp; ltpl; dom; now; SB conc; SL calls] =>
      let one (c : sx) : sx :=
        match c with
        | SL [ex; pr; ht; b64o; bo; lo; eo; vt] =>
            run_check (SL [secret; ltp; ltpl; dom; ex; pr; now; ht; b64o; bo; lo; eo; vt])
        | _ => sx_err "c19.hist call"
        end in
      let rs := snd (run_history (fun (st : unit) c => (st, one c)) tt calls) in
      SL (if conc then rs ++ rs else rs)
  | _ => sx_err "c19.hist"
  end.

Definition nominal_now : Z := 1700000000500000000%Z.

(* c19.genpayload: (secret ltpayload other): a payload from GeneratePayload under [secret] is well
   formed, carries the MAC under the full secret, is accepted by a server with the same secret
   and by a server with [other] only if other = secret.  The model runs generate_payload and
   check_payload with a MAC that depends on every byte of the key. *)
Definition run_genpayload (a : sx) : sx :=
  match a with
  | SL [SBytes secret; SZ lt; SBytes other] =>
      (* a MAC keyed the way HMAC keys are laid out (RFC 2104): zero-padded to the block size,
         hashed first when longer than the block *)
      let eff (k : bytes) : bytes :=
        let k1 := if (64 <? List.length k)%nat then sha256 k else k in
        k1 ++ repeat 0%N (64 - List.length k1) in
      let hm : bytes -> bytes -> bytes := fun k m => sha256 (eff k ++ m) in
      let lp := lifetime_or_default lt defaultLifeTimePayload in
      let p := generate_payload hm secret (repeat 7%N 8) lp nominal_now in
      let ok s := match check_payload hm s lp nominal_now p with Ok true => true | _ => false end in
      (* the time field read back from the payload: acceptance ends lp seconds after it *)
      let stored := match hex_decode p with Some b => to_int64 (be_val (firstn 8 (skipn 8 b))) | None => 0%Z end in
      let until := ((stored + lp) * giga)%Z in
      SL [SB (Nat.eqb (List.length p) 64); SB true; SB (ok secret); SB (ok other);
          SB (until <=? nominal_now + lp * giga + lp)%Z; SB (nominal_now + lp * giga - giga <? until)%Z]
  | _ => sx_err "c19.genpayload"
  end.

(* c19.expire: (lifetime wait_ms): GeneratePayload at the nominal clock, CheckPayload and CheckProof
   (fresh honest proof over that payload) wait_ms later *)
Definition run_expire (a : sx) : sx :=
  match a with
  | SL [SZ lt; SZ wait] =>
      let hm : bytes -> bytes -> bytes := fun _ m => firstn 32 (m ++ m ++ m) in
      let secret := [1%N] in
      let lp := lifetime_or_default lt defaultLifeTimePayload in
      let payload := generate_payload hm secret (repeat 7%N 8) lp nominal_now in
      let nowc := (nominal_now + wait * 1000000)%Z in
      let key := repeat 9%N 32 in
      let tp := mkProof (to_raw 0 (repeat 5%N 32)) (nowc / giga)%Z [100%N] [] payload [] in
      let okp := match check_payload hm secret lp nowc payload with Ok true => true | _ => false end in
      let r := check_proof (fun x => x) (fun _ _ _ => true) (fun _ => Some []) (fun _ => Err EOther)
                 (fun _ => false) (fun _ => false) [] (fun _ => ExRet 0 [StInt (be_val key)])
                 (check_payload hm secret lp nowc) (static_domain [100%N])
                 defaultLifeTimeProof nowc tp in
      SL [SB okp; SB (match r with Ok _ => true | _ => false end)]
  | _ => sx_err "c19.expire"
  end.

(* c19.clock: (ltproof ltpayload dproof dpayload usegen): everything is built by the model at
   a nominal clock; the implementation does the same at the real clock.  The signature is
   honest by construction (verify = true), the HMAC is any fixed function. *)

Definition run_clock (a : sx) : sx :=
  match a with
  | SL [SZ ltp; SZ ltpl; SZ dproof; SZ dpayload; SB usegen] =>
      let hm : bytes -> bytes -> bytes := fun _ m => firstn 32 (m ++ m ++ m) in
      let secret := [1%N] in
      let lp := lifetime_or_default ltpl defaultLifeTimePayload in
      let now_s := (nominal_now / giga)%Z in
      let payload :=
        if usegen then generate_payload hm secret (repeat 7%N 8) lp nominal_now
        else generate_payload hm secret (repeat 7%N 8) 0 ((now_s + dpayload) * giga)%Z in
      let key := repeat 9%N 32 in
      let tp := mkProof (to_raw 0 (repeat 5%N 32)) (now_s + dproof)%Z [100%N] [] payload [] in
      let r := check_proof (fun x => x) (fun _ _ _ => true) (fun _ => Some []) (fun _ => Err EOther)
                 (fun _ => false) (fun _ => false) [] (fun _ => ExRet 0 [StInt (be_val key)])
                 (check_payload hm secret lp nominal_now) (static_domain [100%N])
                 (lifetime_or_default ltp defaultLifeTimeProof) nominal_now tp in
      out_res (fun _ => SB true) r
  | _ => sx_err "c19.clock"
  end.

Definition run (name : string) (a : sx) : sx :=
  let is x := String.eqb name x in
  if is "c19.msg" then run_msg a
  else if is "c19.conv" then run_conv a
  else if is "c19.payload" then run_payload a
  else if is "c19.pubkey" then run_pubkey a
  else if is "c19.stateinit" then run_stateinit a
  else if is "c19.check" then run_check a
  else if is "c19.hist" then run_hist a
  else if is "c19.genpayload" then run_genpayload a
  else if is "c19.expire" then run_expire a
  else if is "c19.clock" then run_clock a
  else sx_err "unknown case kind".
