(** Executable entry points of the C13 model for the correspondence driver. *)
From Coq Require Import List NArith ZArith String Bool.
From Tongo Require Import Lib.Bits Lib.Sx Model.Pool Model.PoolWait.
Import ListNotations.
Local Open Scope string_scope.
Local Open Scope list_scope.

(** ---- selection rule ---- *)

Definition strat_of (n : N) : strategy :=
  if (n =? 0)%N then BestPing else if (n =? 1)%N then FirstWorking else OtherStrategy.

Definition conn_of (a : sx) : option conn :=
  match a with
  | SL [SB al; SN sq; SZ r] => Some (mkConn al sq r)
  | _ => None
  end.

Fixpoint conns_of (l : list sx) : option (list conn) :=
  match l with
  | [] => Some []
  | a :: t => match conn_of a, conns_of t with
              | Some c, Some cs => Some (c :: cs)
              | _, _ => None
              end
  end.

Definition prev_of (a : sx) : option (option nat) :=
  match a with
  | SA _ => Some None
  | SN i => Some (Some (N.to_nat (N.min i 1000)))    (* indices are tiny *)
  | _ => None
  end.

Definition out_choice (r : option nat) : sx :=
  match r with None => SA "none" | Some i => sx_nat i end.

(* (strategy prev (conn ...)) -> chosen index | 'none *)
Definition run_ub (a : sx) : sx :=
  match a with
  | SL [SN st; pv; SL cl] =>
      match prev_of pv, conns_of cl with
      | Some prev, Some cs => out_choice (update_best (strat_of st) cs prev)
      | _, _ => sx_err "ub args"
      end
  | _ => sx_err "ub"
  end.

(** the bounded grid of the property's quantifier, enumerated identically on the
    Go side: alive x seqno in {0,1,2,3,2^32-2,2^32-1} x rtt in {1,2,3} *)
Definition grid_seqnos : list N := [0; 1; 2; 3; 4294967294; 4294967295]%N.
Definition grid_rtts : list Z := [1; 2; 3]%Z.
Definition grid_conns : list conn :=
  flat_map (fun al => flat_map (fun sq => map (fun r => mkConn al sq r) grid_rtts) grid_seqnos)
           [true; false].

Definition in_wrap_class (cs : list conn) : bool :=
  existsb (fun c => c_alive c && (seq32 c =? wrap_seqno)%N) cs.

Fixpoint prevs (n : nat) : list (option nat) :=
  match n with O => [None] | S k => prevs k ++ [Some k] end.

(* (strategy (conn ...)) -> for every last connection of the grid and every previous
   choice (none, 0..n-1): the result; 'skip for configurations of the known-finding
   class (an alive connection at 2^32-1), which are not compared *)
Definition run_ubx (a : sx) : sx :=
  match a with
  | SL [SN st; SL cl] =>
      match conns_of cl with
      | Some pre =>
          SL (flat_map (fun last =>
                let cs := pre ++ [last] in
                if in_wrap_class cs then [SA "skip"]
                else map (fun pv => out_choice (update_best (strat_of st) cs pv))
                         (prevs (List.length cs)))
              grid_conns)
      | None => sx_err "ubx args"
      end
  | _ => sx_err "ubx"
  end.
