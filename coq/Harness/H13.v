(** Executable entry points of the C13 model for the correspondence driver. *)
From Coq Require Import List NArith ZArith String Bool.
From Tongo Require Import Lib.Bits Lib.Sx Model.Pool Model.PoolWait.
Import ListNotations.
Local Open Scope string_scope.
Local Open Scope list_scope.

(** ---- selection rule ---- *)

Definition strat_of (n : N) : strategy :=
  if (n =? 0)%N then BestPing else if (n =? 1)%N then FirstWorking else OtherStrategy.

Definition conn_of (a : sx) : option conn :=
  match a with
  | SL [SB al; SN sq; SZ r] => Some (mkConn al sq r)
  | SL [SB al; SN _; SN sq2; SZ r] => Some (mkConn al sq2 r)     (* what the second read sees *)
  | _ => None
  end.

(* what the first read of updateBest sees: (alive seqno1 seqno2 rtt) is a connection whose
   head rises from seqno1 to seqno2 between the two reads *)
Definition conn1_of (a : sx) : option conn :=
  match a with
  | SL [SB al; SN sq; SZ r] => Some (mkConn al sq r)
  | SL [SB al; SN sq1; SN _; SZ r] => Some (mkConn al sq1 r)
  | _ => None
  end.

Fixpoint conns_of (l : list sx) : option (list conn) :=
  match l with
  | [] => Some []
  | a :: t => match conn_of a, conns_of t with
              | Some c, Some cs => Some (c :: cs)
              | _, _ => None
              end
  end.

Fixpoint conns1_of (l : list sx) : option (list conn) :=
  match l with
  | [] => Some []
  | a :: t => match conn1_of a, conns1_of t with
              | Some c, Some cs => Some (c :: cs)
              | _, _ => None
              end
  end.

Definition prev_of (a : sx) : option (option nat) :=
  match a with
  | SA _ => Some None
  | SN i => Some (Some (N.to_nat (N.min i 1000)))    (* indices are tiny *)
  | _ => None
  end.

Definition out_choice (r : option nat) : sx :=
  match r with None => SA "none" | Some i => sx_nat i end.

(* (strategy prev (conn ...)) -> chosen index | 'none *)
Definition run_ub (a : sx) : sx :=
  match a with
  | SL [SN st; pv; SL cl] =>
      match prev_of pv, conns1_of cl, conns_of cl with
      | Some prev, Some cs1, Some cs2 => out_choice (update_best2 (strat_of st) cs1 cs2 prev)
      | _, _, _ => sx_err "ub args"
      end
  | _ => sx_err "ub"
  end.

(** the bounded grid of the property's quantifier, enumerated identically on the
    Go side: alive x seqno in {0,1,2,3,2^32-2,2^32-1} x rtt in {1,2,3} *)
Definition grid_seqnos : list N := [0; 1; 2; 3; 4294967294; 4294967295]%N.
Definition grid_rtts : list Z := [1; 2; 3]%Z.
Definition grid_conns : list conn :=
  flat_map (fun al => flat_map (fun sq => map (fun r => mkConn al sq r) grid_rtts) grid_seqnos)
           [true; false].

Fixpoint prevs (n : nat) : list (option nat) :=
  match n with O => [None] | S k => prevs k ++ [Some k] end.

(* (strategy (conn ...)) -> for every last connection of the grid and every previous
   choice (none, 0..n-1): the result *)
Definition run_ubx (a : sx) : sx :=
  match a with
  | SL [SN st; SL cl] =>
      match conns_of cl with
      | Some pre =>
          SL (flat_map (fun last =>
                let cs := pre ++ [last] in
                map (fun pv => out_choice (update_best (strat_of st) cs pv))
                    (prevs (List.length cs)))
              grid_conns)
      | None => sx_err "ubx args"
      end
  | _ => sx_err "ubx"
  end.

(** ---- wait-list protocol: coarse operations replayed on the LTS ----
    The Go side runs every operation of a walk in its own goroutine on the real
    pool and observes whether it returned; an operation that has not returned
    stays pending and may return after a later operation.  Here the same coarse
    operations are scripts of LTS labels; a script that reaches a disabled label
    is pending, and after every operation all pending scripts are advanced until
    nothing moves.  On the repaired code the only operation that can stay pending
    is SetMasterHead on a full update buffer (holding no lock). *)

Inductive mop :=
| MLabel (l : label)
| MPublish (m : msg)      (* the send of SetMasterHead, if the head was stored *)
| MRLock                  (* LRLock with the wait list in registration order *)
| MSendAll.               (* LSend until the remaining list is empty *)

Inductive agent_id := GConn (c : nat) | GRun | GWaiter (w : nat).
Inductive okind := KDone | KSub (w : nat) | KBest.

Record pend_op := mkPend { p_op : nat; p_agent : agent_id; p_script : list mop; p_kind : okind }.

Definition msg_eqb (a b : msg) : bool := Nat.eqb (fst a) (fst b) && N.eqb (snd a) (snd b).

Fixpoint index_of (m : msg) (l : list msg) (i : nat) : option nat :=
  match l with
  | [] => None
  | x :: t => if msg_eqb x m then Some i else index_of m t (S i)
  end.

Section Walk.
  Variable strat : strategy.
  Variable nconns : nat.
  Variable tgt : nat -> N.
  Notation step := (step strat false false nconns tgt).   (* the real code *)

  Fixpoint send_all (fuel : nat) (s : state) : state * bool :=   (* bool: finished *)
    match rpc s with
    | RNotify _ _ [] => (s, true)
    | RNotify _ _ (_ :: _) =>
        match fuel with
        | O => (s, false)
        | S f => match step s LSend with Some s' => send_all f s' | None => (s, false) end
        end
    | _ => (s, true)
    end.

  (* one micro-operation: new state and whether it is complete *)
  Definition exec_mop (s : state) (m : mop) : state * bool :=
    match m with
    | MLabel l => match step s l with Some s' => (s', true) | None => (s, false) end
    | MPublish u =>
        match index_of u (pend s) 0 with
        | None => (s, true)
        | Some k => match step s (LPublish k) with Some s' => (s', true) | None => (s, false) end
        end
    | MRLock => match step s (LRLock (map snd (wl s))) with Some s' => (s', true) | None => (s, false) end
    | MSendAll => send_all (S (List.length (wl s))) s
    end.

  Fixpoint advance (s : state) (script : list mop) : state * list mop :=
    match script with
    | [] => (s, [])
    | m :: t => let '(s', fin) := exec_mop s m in
                if fin then advance s' t else (s', script)
    end.

  Definition finish (k : okind) (s : state) : sx :=
    match k with
    | KDone => SA "done"
    | KSub w => SL [SA "sub"; SB (match wch s w with Some _ => true | None => false end)]
    | KBest => SL [SA "best"; out_choice (best s)]
    end.

  (* one pass over the pending operations: (state, still pending, completions, progress) *)
  Fixpoint settle_pass (s : state) (ps : list pend_op) : state * list pend_op * list sx * bool :=
    match ps with
    | [] => (s, [], [], false)
    | p :: t =>
        let '(s1, rest) := advance s (p_script p) in
        let moved := negb (Nat.eqb (List.length rest) (List.length (p_script p))) in
        let '(s2, ps', outs, prog) := settle_pass s1 t in
        match rest with
        | [] => (s2, ps', SL [sx_nat (p_op p); finish (p_kind p) s1] :: outs, true)
        | _ => (s2, mkPend (p_op p) (p_agent p) rest (p_kind p) :: ps', outs, moved || prog)
        end
    end.

  Fixpoint settle (fuel : nat) (s : state) (ps : list pend_op) : state * list pend_op * list sx :=
    match fuel with
    | O => (s, ps, [])
    | S f =>
        let '(s1, ps1, outs, prog) := settle_pass s ps in
        if prog then let '(s2, ps2, outs2) := settle f s1 ps1 in (s2, ps2, outs ++ outs2)
        else (s1, ps1, outs)
    end.

  Definition agent_eqb (a b : agent_id) : bool :=
    match a, b with
    | GConn x, GConn y => Nat.eqb x y
    | GRun, GRun => true
    | GWaiter x, GWaiter y => Nat.eqb x y
    | _, _ => false
    end.

  Definition busy (ps : list pend_op) (a : agent_id) : bool :=
    existsb (fun p => agent_eqb (p_agent p) a) ps.

  Definition wants_lock (p : pend_op) : bool :=
    match p_script p with
    | MLabel (LSubWant _) :: _ | MLabel (LSubLock _) :: _ | MLabel (LUnsubWant _) :: _ | MLabel (LUnsub _) :: _
    | MLabel LTick :: _ | MLabel LUpdLock :: _ => true
    | _ => false
    end.

  (* start a script: result of the operation itself, new state, new pending list *)
  Definition launch (i : nat) (a : agent_id) (script : list mop) (k : okind)
             (blocked : sx) (s : state) (ps : list pend_op) : sx * state * list pend_op :=
    let '(s1, rest) := advance s script in
    match rest with
    | [] => (finish k s1, s1, ps)
    | _ => (blocked, s1, ps ++ [mkPend i a rest k])
    end.

  Definition small (n : N) : nat := N.to_nat (N.min n 64).

  Fixpoint set_nth_obs (i : nat) (v : bool * Z) (l : list (bool * Z)) : list (bool * Z) :=
    match i, l with
    | O, _ :: t => v :: t
    | O, [] => [v]
    | S k, x :: t => x :: set_nth_obs k v t
    | S k, [] => (false, 0%Z) :: set_nth_obs k v []
    end.

  (* obs: what IsOK() / AverageRoundTrip() of the connections currently answer *)
  (* the real Run loop left alone until the update buffer is empty: every queued update is
     taken and notified in turn; a publisher waiting for buffer space gets in meanwhile *)
  Fixpoint drain_loop (fuel : nat) (s : state) (ps : list pend_op) (acc : list sx)
    : state * list pend_op * list sx :=
    match fuel with
    | O => (s, ps, acc)
    | S f =>
        match step s LTake with
        | None => (s, ps, acc)
        | Some s1 =>
            let '(s2, _) := advance s1 [MRLock; MSendAll; MLabel LRUnlock] in
            let '(s3, ps3, outs) := settle (S (S (List.length ps))) s2 ps in
            drain_loop f s3 ps3 (acc ++ outs)
        end
    end.

  Definition do_op (i : nat) (nw : nat) (o : sx) (obs : list (bool * Z)) (s : state) (ps : list pend_op)
    : sx * list (bool * Z) * state * list pend_op * list sx :=
    let ret (x : sx * state * list pend_op) := let '(r, s1, ps1) := x in (r, obs, s1, ps1, @nil sx) in
    match o with
    | SL (SA nm :: args) =>
      let is x := String.eqb nm x in
      match args with
      | [] =>
          if is "notify" then
            if busy ps GRun then ret (SA "busy", s, ps) else
            match step s LTake with
            | None => ret (SA "empty", s, ps)
            | Some s1 =>
                let u := match rpc s1 with RWantR u => u | _ => (0, 0%N) end in
                let '(r, s2, ps2) := launch i GRun [MRLock; MSendAll; MLabel LRUnlock] KDone (SA "blocked") s1 ps in
                (SL [r; sx_nat (fst u); SN (snd u)], obs, s2, ps2, [])
            end
          else if is "drain" then
            if busy ps GRun then ret (SA "busy", s, ps) else
            let '(s1, ps1, outs) := drain_loop 64 s ps [] in
            (SA "done", obs, s1, ps1, outs)
          else if is "tick" then
            if busy ps GRun then ret (SA "busy", s, ps) else
            ret (launch i GRun [MLabel LTick; MLabel LUpdLock; MLabel (LUpdDone obs [])] KBest (SA "blocked") s ps)
          else if is "status" || is "count" then
            (* Status() / ConnectionsNumber(): a critical section on p.mu without blocking operation *)
            if match writer s with Some _ => true | None => false end || existsb wants_lock ps
            then ret (SA "blocked", s, ps)
            else ret (SL [SA nm; sx_nat nconns], s, ps)
          else if is "info" then
            (* BestMasterchainInfoClient(): reads bestConn under RLock; never nil *)
            ret (SA "done", s, ps)
          else if is "state" then
            let locked := match writer s with Some _ => true | None => false end || existsb wants_lock ps in
            ret (SL [sx_nat (List.length (updq s));
                     (if locked then SA "locked" else sx_nat (List.length (wl s)));
                     SL (map (fun w => SB (match wch s w with Some _ => true | None => false end)) (seq 0 nw));
                     out_choice (best s)],
                 s, ps)
          else ret (sx_err "op0", s, ps)
      | [SN a1] =>
          let w := small a1 in
          if is "sub" then
            if busy ps (GWaiter w) then ret (SA "busy", s, ps) else
            match wpc s w with
            | WNew => ret (launch i (GWaiter w) [MLabel (LSubWant w); MLabel (LSubLock w); MLabel (LSubBody w)] (KSub w) (SA "blocked") s ps)
            | _ => ret (SA "bad", s, ps)
            end
          else if is "recv" then
            if busy ps (GWaiter w) then ret (SA "bad", s, ps) else
            match wpc s w, wch s w with
            | WWait, Some m =>
                match step s (LRecv w) with
                | Some s1 => ret (SL [SA "head"; SN (snd m)], s1, ps)
                | None => ret (sx_err "recv", s, ps)
                end
            | WWait, None => ret (SA "empty", s, ps)
            | _, _ => ret (SA "bad", s, ps)
            end
          else if is "unsub" then
            if busy ps (GWaiter w) then ret (SA "busy", s, ps) else
            match wpc s w with
            | WWait => ret (launch i (GWaiter w) [MLabel (LLeave w RTimeout); MLabel (LUnsubWant w); MLabel (LUnsub w)] KDone (SA "blocked") s ps)
            | WUnsub _ => ret (launch i (GWaiter w) [MLabel (LUnsubWant w); MLabel (LUnsub w)] KDone (SA "blocked") s ps)
            | _ => ret (SA "bad", s, ps)
            end
          else ret (sx_err "op1", s, ps)
      | [SN a1; SN h] =>
          let c := small a1 in
          if is "sethead" then
            if busy ps (GConn c) then ret (SA "busy", s, ps) else
            ret (launch i (GConn c) [MLabel (LSetHead c h); MPublish (c, h)] KDone (SA "blocked") s ps)
          else ret (sx_err "op2", s, ps)
      | [SN a1; SB al; SZ r] =>
          if is "conn" then (SA "done", set_nth_obs (small a1) (al, r) obs, s, ps, [])
          else ret (sx_err "op3", s, ps)
      | _ => ret (sx_err "op args", s, ps)
      end
    | _ => ret (sx_err "op", s, ps)
    end.

  (* completions are reported in the order of the operation index *)
  Definition op_index (x : sx) : nat :=
    match x with SL (SN i :: _) => N.to_nat (N.min i 100000) | _ => 0 end.
  Fixpoint ins_by_index (x : sx) (l : list sx) : list sx :=
    match l with
    | [] => [x]
    | y :: t => if Nat.leb (op_index x) (op_index y) then x :: l else y :: ins_by_index x t
    end.
  Definition sort_by_index (l : list sx) : list sx := fold_right ins_by_index [] l.

  Fixpoint run_ops (i : nat) (nw : nat) (ops : list sx) (obs : list (bool * Z)) (s : state) (ps : list pend_op)
    : list sx :=
    match ops with
    | [] => []
    | o :: t =>
        let '(r, obs1, s1, ps1, extra) := do_op i nw o obs s ps in
        let '(s2, ps2, outs) := settle (S (S (List.length ps1))) s1 ps1 in
        SL [r; SL (sort_by_index (extra ++ outs))] :: run_ops (S i) nw t obs1 s2 ps2
    end.

  (** the real WaitMasterchainSeqno under the real Run loop, one waiter (index 0):
      subscribe, then every head in turn is stored, published, taken by Run,
      notified and received; at the end the timeout / cancellation fires *)
  Definition try_step (s : state) (l : label) : state :=
    match step s l with Some s' => s' | None => s end.

  Definition steps (s : state) (ls : list label) : state := fold_left try_step ls s.

  (* one head travels from SetMasterHead through Run to the waiters' channels; every
     waiter in its loop receives what is in its channel *)
  Definition deliver (nw : nat) (s : state) (c : nat) (h : N) : state :=
    let s3 := steps s [LSetHead c h; LPublish 0; LTake] in
    let s4 := try_step s3 (LRLock (map snd (wl s3))) in
    let s5 := fst (send_all 8 s4) in
    let s6 := try_step s5 LRUnlock in
    steps s6 (map LRecv (seq 0 nw)).

  Definition subscribe_steps (w : nat) : list label := [LSubWant w; LSubLock w; LSubBody w; LRecv w].
  Definition return_steps (w : nat) (fin : wres) : list label := [LLeave w fin; LUnsubWant w; LUnsub w].

  Definition verdict (s : state) (w : nat) : sx :=
    match wpc s w with
    | WDone ROk => SA "nil"
    | WDone RTimeout => SA "timeout"
    | WDone RCancel => SA "cancel"
    | _ => sx_err "wait"
    end.

  Definition wait_scenario (s0 : state) (heads : list (nat * N)) (fin : wres) : sx :=
    let s2 := steps s0 (subscribe_steps 0) in
    let s3 := fold_left (fun s ch => deliver 1 s (fst ch) (snd ch)) heads s2 in
    verdict (steps s3 (return_steps 0 fin)) 0.

  (* all heads are published while Run is not scheduled; then Run handles the queue *)
  Definition handle_one (nw : nat) (s : state) : state :=
    let s3 := try_step s LTake in
    let s4 := try_step s3 (LRLock (map snd (wl s3))) in
    let s5 := fst (send_all 8 s4) in
    let s6 := try_step s5 LRUnlock in
    steps s6 (map LRecv (seq 0 nw)).

  Definition wait_batch_scenario (s0 : state) (heads : list (nat * N)) (fin : wres) : sx :=
    let s2 := steps s0 (subscribe_steps 0) in
    let s3 := fold_left (fun s ch => steps s [LSetHead (fst ch) (snd ch); LPublish 0]) heads s2 in
    let s4 := fold_left (fun s _ => handle_one 1 s) heads s3 in
    verdict (steps s4 (return_steps 0 fin)) 0.

  (* caller 0 first; then caller 1 (if it is satisfied at once it returns - running its
     deferred unsubscribe - before anything else happens); then the heads; then timeouts *)
  Definition wait2_scenario (s0 : state) (heads : list (nat * N)) : sx :=
    let s1 := steps s0 (subscribe_steps 0) in
    let s2 := steps s1 (subscribe_steps 1) in
    let s3 := steps s2 [LUnsubWant 1; LUnsub 1] in          (* enabled only if caller 1 has left its loop *)
    let s4 := fold_left (fun s ch =>
                let s' := deliver 2 s (fst ch) (snd ch) in
                steps s' [LUnsubWant 0; LUnsub 0; LUnsubWant 1; LUnsub 1]) heads s3 in
    let s5 := steps s4 (return_steps 0 RTimeout ++ return_steps 1 RTimeout) in
    SL [verdict s5 0; verdict s5 1].
End Walk.

Fixpoint nth_tgt (l : list sx) (w : nat) : N :=
  match l, w with
  | SN t :: _, O => t
  | _ :: r, S k => nth_tgt r k
  | _, _ => 0%N
  end.

(* (strategy nconns (tgt ...) (op ...)): connection 0 is the best one, all heads 0,
   no connection is alive until a 'conn operation says so *)
Definition run_walk (a : sx) : sx :=
  match a with
  | SL [SN st; SN nc; SL tgts; SL ops] =>
      let nconns := small nc in
      SL (run_ops (strat_of st) nconns (nth_tgt tgts) 0 (List.length tgts) ops []
                  (init_state (fun _ => 0%N) (if Nat.eqb nconns 0 then None else Some 0)) [])
  | _ => sx_err "walk"
  end.

Fixpoint heads_of (l : list sx) : list (nat * N) :=
  match l with
  | SL [SN c; SN h] :: t => (small c, h) :: heads_of t
  | _ => []
  end.

(* (tgt0 tgt1 h0 ((conn head) ...)): two callers of WaitMasterchainSeqno on a fresh pool *)
Definition run_wait2 (a : sx) : sx :=
  match a with
  | SL [SN t0; SN t1; SN h0; SL hs] =>
      wait2_scenario BestPing 2 (fun w => if Nat.eqb w 0 then t0 else t1)
        (init_state (fun c => if Nat.eqb c 0 then h0 else 0%N) (Some 0))
        (heads_of hs)
  | _ => sx_err "wait2 args"
  end.

(* (tgt h0 ((conn head) ...) cancel?): two connections, 0 is the best one with head h0;
   the four-number shape is the two-caller scenario above *)
Definition run_wait (a : sx) : sx :=
  match a with
  | SL [SN tg; SN h0; SN hs; SN arr; SN tmo; SN dl] =>
      (* WaitMasterchainSeqno(ctx with deadline dl, tgt, timeout tmo) (times in ms): a head hs of the
         best connection arrives at time arr.  The wait ends at min(timeout, deadline): the timer
         (LLeave RTimeout) or the context (LLeave RCancel, here 'deadline), whichever is first *)
      if (tg <=? h0)%N then SA "nil"
      else if (tg <=? hs)%N && (arr <? N.min tmo dl)%N then SA "nil"
      else if (tmo <=? dl)%N then SA "timeout" else SA "deadline"
  | SL [SN _; SN _; SN _; SL _] => run_wait2 a
  | SL [SN tg; SN h0; SL hs; SB cancel; SA _] =>
      wait_batch_scenario BestPing 2 (fun _ => tg)
        (init_state (fun c => if Nat.eqb c 0 then h0 else 0%N) (Some 0))
        (heads_of hs) (if cancel then RCancel else RTimeout)
  | SL [SN tg; SN h0; SL hs; SB cancel] =>
      wait_scenario BestPing 2 (fun _ => tg)
        (init_state (fun c => if Nat.eqb c 0 then h0 else 0%N) (Some 0))
        (heads_of hs) (if cancel then RCancel else RTimeout)
  | _ => sx_err "wait args"
  end.

(* (strategy (arrival id ...) ((alive seqno rtt) per id 0,1,2,...)): the pool built by addConnection
   in that arrival order -> ((pool order) bestConn-after-init choice-after-updateBest), all as ids *)
Fixpoint ids_of (l : list sx) : list nat :=
  match l with SN i :: t => N.to_nat (N.min i 64) :: ids_of t | _ => [] end.
Fixpoint index_in (x : nat) (l : list nat) (i : nat) : option nat :=
  match l with [] => None | y :: t => if Nat.eqb x y then Some i else index_in x t (S i) end.
Definition run_add (a : sx) : sx :=
  match a with
  | SL [SN st; SL arr; SL obs] =>
      match conns_of obs with
      | Some ob =>
          let arrival := ids_of arr in
          let ids := add_all arrival in
          let cs := map (fun id => nth id ob (mkConn false 0 0)) ids in
          let prev := match best_after_add arrival with Some b => index_in b ids 0 | None => None end in
          let id_of (r : option nat) := match r with Some i => sx_nat (nth i ids 0) | None => SA "none" end in
          SL [SL (map sx_nat ids); id_of prev; id_of (update_best (strat_of st) cs prev)]
      | None => sx_err "add args"
      end
  | _ => sx_err "add"
  end.

(* ---- the exported entry points that wait, under best-connection switches ----
   (strategy nconns entry tgt (pre-event ...) (event ...)): a fresh pool (all heads 0, connection 0 is the
   choice, nobody alive); the pre-events happen before the call, the events while it waits.
   entry 0 = BestMasterchainClient, 1 = BestClientByAccountID (no archive), 2 = BestClientByBlockID,
   3 = WaitMasterchainSeqno(tgt).  Events: ('sethead c h) ('conn c alive rtt) ('tick).
   Result: (status head conn): the head handed to the caller is the head it RECEIVED (at or beyond what
   it waits for, reported by the connection that was the best one then), the client is the one of the
   connection that was the choice when the call started. *)
Section Entry.
  Variable strat : strategy.
  Variable nconns : nat.
  Variable tgt : nat -> N.

  Definition ev_step (sa : state * list (bool * Z)) (e : sx) : state * list (bool * Z) :=
    let '(s, obs) := sa in
    match e with
    | SL [SA nm; SN c; SN h] =>
        if String.eqb nm "sethead" then (deliver strat nconns tgt 1 s (small c) h, obs) else sa
    | SL [SA nm; SN c; SB al; SZ r] =>
        if String.eqb nm "conn" then (s, set_nth_obs (small c) (al, r) obs) else sa
    | SL [SA nm] =>
        if String.eqb nm "tick"
        then (steps strat nconns tgt s [LTick; LUpdLock; LUpdDone obs []; LRecv 0], obs) else sa
    | _ => sa
    end.

  Definition entry_result (waits_for_head : bool) (returns_head : bool) (pre evs : list sx) : sx :=
    let '(s1, obs1) := fold_left ev_step pre (init_state (fun _ => 0%N) (if Nat.eqb nconns 0 then None else Some 0), []) in
    match best s1 with
    | None => SL [SA "noconn"; SA "none"; SA "none"]
    | Some cap =>
        let hd (h : N) := if returns_head then SN h else SA "none" in
        if waits_for_head && (0 <? head s1 cap)%N
        then SL [SA "nil"; hd (head s1 cap); sx_nat cap]             (* initialised: no wait *)
        else
          let s2 := steps strat nconns tgt s1 (subscribe_steps 0) in
          let '(s3, _) := fold_left ev_step evs (s2, obs1) in
          let s4 := steps strat nconns tgt s3 (return_steps 0 (if waits_for_head then RCancel else RTimeout)) in
          match wpc s4 0, wgot s4 0 with
          | WDone ROk, Some m => SL [SA "nil"; hd (snd m); if waits_for_head then sx_nat cap else SA "none"]
          | WDone RTimeout, _ => SL [SA "timeout"; SA "none"; SA "none"]
          | WDone RCancel, _ => SL [SA "cancel"; SA "none"; SA "none"]
          | _, _ => sx_err "entry"
          end
    end.
End Entry.

Definition run_entry (a : sx) : sx :=
  match a with
  | SL [SN st; SN nc; SN en; SN tg; SL pre; SL evs] =>
      let e := small en in
      if Nat.eqb e 3
      then entry_result (strat_of st) (small nc) (fun _ => tg) false false pre evs
      else entry_result (strat_of st) (small nc) (fun _ => 1%N) true (negb (Nat.eqb e 2)) pre evs
  | _ => sx_err "entry args"
  end.

(* deterministic reproductions of the repaired defects: the model has none *)
Definition run_repro (a : sx) : sx := SA "ok".

Definition run (name : string) (a : sx) : sx :=
  let is x := String.eqb name x in
  if is "c13.ub" then run_ub a
  else if is "c13.ubx" then run_ubx a
  else if is "c13.walk" then run_walk a
  else if is "c13.wait" then run_wait a
  else if is "c13.add" then run_add a
  else if is "c13.entry" then run_entry a
  else if is "c13.repro" then run_repro a
  else sx_err "unknown case kind".
