(** Single entry point of the extracted model: name of the case kind -> function. *)
From Coq Require Import List NArith ZArith String.
From Tongo Require Import Lib.Bits Lib.Sx Harness.H06 Harness.H07 Harness.H01 Harness.H18
  Harness.H05 Harness.H13 Harness.H19 Harness.H12 Harness.H03 Harness.H04
  Harness.H11 Harness.H16 Harness.H17 Harness.H20 Harness.H08 Harness.H10
  Harness.H07p Harness.H09 Harness.H14 Harness.H15 Harness.H02 Harness.H01h.
Import ListNotations.
Local Open Scope string_scope.

Definition run (name : string) (a : sx) : sx :=
  let is x := String.eqb name x in
  if is "c06.seq" then H06.run_seq a
  else if is "c06.fromfift" then H06.run_from_fift a
  else if is "c06.tofift" then H06.run_to_fift a
  else if is "c06.minbits" then H06.run_minbits a
  else if is "c07.parse" then H07.run_parse a
  else if is "c02.hashes" then H07.run_hashes a
  else if is "c01.ser" then H01.run_ser a
  else if is "c18.proof" then H18.run_proof a
  else if is "c18.key" then H18.run_key a
  else if is "c05.encode" then H05.run_encode a
  else if is "c05.raw" then H05.run_raw a
  else if is "c05.decode" then H05.run_decode a
  else if is "c05.cells" then H05.run_cells a
  else if is "c05.ops" then H05.run_ops a
  else if is "c05.addr" then H05.run_addr a
  else if is "c13.ub" then H13.run_ub a
  else if is "c13.ubx" then H13.run_ubx a
  else if is "c13.walk" then H13.run_walk a
  else if is "c13.wait" then H13.run_wait a
  else if is "c13.repro" then H13.run_repro a
  else if is "c19.msg" then H19.run_msg a
  else if is "c19.conv" then H19.run_conv a
  else if is "c19.payload" then H19.run_payload a
  else if is "c19.pubkey" then H19.run_pubkey a
  else if is "c19.stateinit" then H19.run_stateinit a
  else if is "c19.check" then H19.run_check a
  else if is "c19.clock" then H19.run_clock a
  else if is "c12.script" then H12.run_script a
  else if is "c12.race" then H12.run_race a
  else if is "c12.seq" then H12.run_seq a
  else if is "c03.rt" then H03.run_rt a
  else if is "c03.dec" then H03.run_dec a
  else if is "c03.stack" then H03.run_stack a
  else if is "c04.spec" then H04.run_spec a
  else if is "c04.extmsg" then H04.run_extmsg a
  else if is "c11.marshal" then H11.run_marshal a
  else if is "c11.parse" then H11.run_parse a
  else if is "c11.recv" then H11.run_recv a
  else if is "c11.session" then H11.run_session a
  else if is "c16.msg" then H16.run_msg a
  else if is "c16.tx" then H16.run_tx a
  else if is "c17.crc16" then H17.run_crc16 a
  else if is "c17.human" then H17.run_human a
  else if is "c17.parsehuman" then H17.run_parse_human a
  else if is "c17.parseaddr" then H17.run_parse_address a
  else if is "c17.raw" then H17.run_raw a
  else if is "c17.parseraw" then H17.run_parse_raw a
  else if is "c17.parseacc" then H17.run_parse_account a
  else if is "c17.tl" then H17.run_tl a
  else if is "c17.untl" then H17.run_untl a
  else if is "c17.shard.parse" then H17.run_shard_parse a
  else if is "c17.shard.match" then H17.run_shard_match a
  else if is "c17.shard.matchblock" then H17.run_shard_match_block a
  else if is "c17.shard.child" then H17.run_shard_child a
  else if is "c17.shard.parent" then H17.run_shard_parent a
  else if is "c17.shard.ident" then H17.run_shard_ident a
  else if is "c17.parents" then H17.run_parents a
  else if is "c17.adnl" then H17.run_adnl a
  else if is "c17.parseadnl" then H17.run_parse_adnl a
  else if is "c17.tlb" then H17.run_tlb a
  else if is "c17.tlbany" then H17.run_tlb_any a
  else if is "c17.untlb" then H17.run_untlb a
  else if is "c17.fromtlb" then H17.run_from_tlb a
  else if is "c17.json" then H17.run_json a
  else if is "c17.unjson" then H17.run_unjson a
  else if is "c20.print" then H20.run_print a
  else if is "c20.parse" then H20.run_parse a
  else if is "c20.method" then H20.run_method a
  else if is "c20.valid" then H20.run_valid a
  else if is "c20.unquote" then H20.run_unquote a
  else if is "c08.tl" then H08.run_tl a
  else if is "c08.tlb" then H08.run_tlb a
  else if is "c08.declen" then H08.run_declen a
  else if is "c08.answer" then H08.run_answer a
  else if is "c08.packet" then H08.run_packet a
  else if is "c08.vmstack" then H08.run_vmstack a
  else if is "c08.methods" then H08.run_methods a
  else if is "c08.accproof" then H08.run_accproof a
  else if is "c10.marshal" then H10.run_marshal_any a
  else if is "c10.cmarshal" then H10.run_marshal_canon a
  else if is "c10.unmarshal" then H10.run_unmarshal_any a
  else if is "c10.cunmarshal" then H10.run_unmarshal_canon a
  else if is "c10.reqdecode" then H10.run_reqdecode a
  else if is "c10.request" then H10.run_request a
  else if is "c10.sizeof" then H10.run_sizeof a
  else if is "c10.camel" then H10.run_camel a
  else if is "c10.enclen" then H10.run_enclen a
  else if is "c03.cur" then H03.run_cur a
  else if is "c04.cur" then H04.run_cur4 a
  else if is "c06.derived" then H06.run_derived a
  else if is "c18.multi" then H18.run_multi a
  else if is "c07.lines" then H07p.run_lines a
  else if is "c09.tl" then H09.run_tl a
  else if is "c09.tlreq" then H09.run_tlreq a
  else if is "c09.tlb" then H09.run_tlb a
  else if is "c14.send" then H14.run_send a
  else if is "c14.body" then H14.run_body a
  else if is "c14.verify" then H14.run_verify a
  else if is "c14.v5verify" then H14.run_v5verify a
  else if is "c14.decode" then H14.run_decode a
  else if is "c15.addr" then H15.run_addr a
  else if is "c15.next" then H15.run_next a
  else if is "c15.send" then H15.run_send15 a
  else if is "c08.answer2" then H08.run_answer2 a
  else if is "c19.hist" then H19.run_hist a
  else if is "c10.bmarshal" then H10.run_bmarshal a
  else if is "c10.bunmarshal" then H10.run_bunmarshal a
  else if is "c10.hand" then H10.run_hand a
  else if is "c02.history" then H02.run_history a
  else if is "c02.built" then H02.run_built a
  else if is "c02.builtkey" then H02.run_built_key a
  else if is "c11.csend" then H11.run_csend a
  else if is "c11.conc" then H11.run_conc a
  else if is "c11.stress" then H11.run_stress a
  else if is "c16.htx" then H16.run_htx a
  else if is "c16.hmsg" then H16.run_hmsg a
  else if is "c05.hist" then H05.run_hist a
  else if is "c16.lib" then H16.run_lib a
  else if is "c01.hist" then H01h.run_hist a
  else if is "c02.parsed" then H02.run_parsed a
  else if is "c05.dec" then H05.run_dec a
  else if is "c08.mapint" then H08.run_mapint a
  else if is "c19.genpayload" then H19.run_genpayload a
  else if is "c13.add" then H13.run_add a
  else sx_err "unknown case kind".
