(** Single entry point of the extracted model: name of the case kind -> function. *)
From Coq Require Import List NArith ZArith String.
From Tongo Require Import Lib.Bits Lib.Sx Harness.H06 Harness.H07 Harness.H01 Harness.H18.
Import ListNotations.
Local Open Scope string_scope.

Definition run (name : string) (a : sx) : sx :=
  let is x := String.eqb name x in
  if is "c06.seq" then H06.run_seq a
  else if is "c06.fromfift" then H06.run_from_fift a
  else if is "c06.tofift" then H06.run_to_fift a
  else if is "c06.minbits" then H06.run_minbits a
  else if is "c07.parse" then H07.run_parse a
  else if is "c02.hashes" then H07.run_hashes a
  else if is "c01.ser" then H01.run_ser a
  else if is "c18.proof" then H18.run_proof a
  else if is "c18.key" then H18.run_key a
  else sx_err "unknown case kind".
