(** Entry points for the wallet address / send model (C15). *)
From Coq Require Import List NArith ZArith String Bool.
From Tongo Require Import Lib.Bits Lib.Res Lib.Sx Spec.Sha256 Model.BocParse Model.CellHash
  Spec.ReprHash Proofs.CellHashP Model.Wallet Model.WalletCode Model.WalletSend Harness.H14.
From Tongo Require Model.TlbCore.
Import ListNotations.
Local Open Scope string_scope.
Local Open Scope list_scope.

Definition addr_sx (a : Z * bytes) : sx := SL [SZ (fst a); SBytes (snd a)].

(* c15.addr: (ver pk opts seed) -> ((wc hash) | 'err  for New;
                                     (wc hash) | 'err  for GenerateWalletAddress;
                                     state-init hash   for GenerateStateInit) *)
Definition run_addr (a : sx) : sx :=
  match a with
  | SL (SN ver :: SBytes pk :: opts :: SBytes seed :: _) =>
      let has_seed := Nat.eqb (List.length seed) 32 in
      match ver_of_N ver with
      | None => SL [(if has_seed then SA "err" else SA "skipped"); SA "err"; out_res SBytes (xhash (ocell (zeros 5) []));
                    match o_wc (opts_of_sx opts), o_sub (opts_of_sx opts), o_net (opts_of_sx opts) with
                    | None, None, None => SA "none" | _, _, _ => SA "skip" end]
      | Some v =>
          let o := opts_of_sx opts in
          let pkb := bytes_to_bits pk in
          let wc := match o_wc o with Some z => z | None => 0%Z end in
          SL [match a with
              | SL [_; _; _; _; SL [SBytes mnemonic; SN vbyte]] =>
                  (* DefaultWalletFromSeed: pk is the independently derived key *)
                  out_res addr_sx (api_from_seed code_of xhash mnemonic vbyte pkb)
              | _ => if has_seed then out_res addr_sx (api_new code_of xhash pkb v o) else SA "skipped"
              end;
              out_res addr_sx (api_generate_address code_of xhash pkb v (o_net o) wc (o_sub o));
              out_res SBytes (do si <- api_generate_state_init code_of pkb v (o_net o) wc (o_sub o);
                              xhash si);
              (* GetCodeHashByVer *)
              match o_wc o, o_sub o, o_net o with
              | None, None, None =>
                  match code_opt v with Some c => out_res SBytes (xhash c) | None => SA "none" end
              | _, _, _ => SA "skip"       (* once per version is enough *)
              end]
      end
  | _ => sx_err "addr"
  end.

Definition acct_of_sx (a : sx) : option (option acct) :=
  match a with
  | SA s =>
      if String.eqb s "none" then Some (Some ANone)
      else if String.eqb s "uninit" then Some (Some AUninit)
      else if String.eqb s "frozen" then Some (Some AFrozen)
      else if String.eqb s "staterr" then Some None
      else None
  | SL [SA _; c] => match cell_of_sx c with Some d => Some (Some (AActive d)) | None => None end
  | _ => None
  end.

(* the decoded data struct of an active account: (seqno id pk flag extra (key ...)) | 'err *)
Definition data_sx (v : version) (st : acct) : sx :=
  match st with
  | AActive d =>
      out_res (fun x => SL [SN (wd_seqno x); SN (wd_id x); SBits (wd_pk x); SB (wd_flag x); SN (wd_extra x);
                            SL (map SBits (wd_keys x))])
              (decode_data v d)
  | _ => SL []
  end.

(* c15.next: (ver pk opts acct) -> (seqno () | (init-hash)  decoded-data) | 'err | 'panic *)
Definition run_next (a : sx) : sx :=
  match a with
  | SL (SN ver :: SBytes pk :: opts :: st :: _) =>
      match ver_of_N ver, acct_of_sx st with
      | None, _ => SA "err"
      | Some v, Some (Some ac) =>
          out_res (fun p => SL [SN (fst p);
                                match snd p with
                                | None => SL []
                                | Some i => SL [hash_sx i]
                                end;
                                data_sx v ac])
                  (do w <- new_wallet (bytes_to_bits pk) v (opts_of_sx opts);
                   next_params code_of w ac)
      | _, _ => sx_err "next args"
      end
  | _ => sx_err "next"
  end.

Fixpoint hist_of_sx (wait : Z) (k : nat) (i : Z) (script : list sx) (last : option N) : list poll :=
  match k with
  | O => []
  | S k' =>
      let t := (i * (wait / 10))%Z in
      match script with
      | [] => (t, last) :: hist_of_sx wait k' (i + 1) [] last
      | SL [SN s] :: rest => (t, Some s) :: hist_of_sx wait k' (i + 1) rest last
      | _ :: rest => (t, None) :: hist_of_sx wait k' (i + 1) rest last
      end
  end.

(* what the harness projects out of the message handed to SendMessage:
   (dest-wc8 dest-addr (init-hash)|() seqno-in-body message-count) *)
Definition sent_sx (v : version) (e : cell) : sx :=
  match parse_ext xhash e, decode_msg xhash v e with
  | Ok x, Ok d =>
      SL [match e_info x with
          | IExtIn _ (TlbCore.AStd _ wc _) _ => SN (Z.to_N (wc mod 256))
          | _ => SA "other"
          end;
          match e_info x with
          | IExtIn _ (TlbCore.AStd _ _ ad) _ => SBits ad
          | _ => SA "other"
          end;
          match e_init x with Some i => SL [hash_sx i] | None => SL [] end;
          SN (d_seqno d); sx_nat (List.length (d_msgs d)); SN (d_valid d)]
  | _, _ => SA "undecodable"
  end.

(* c15.send: (ver pk opts acct msgs wait send_err script last seed) ->
   (ok|err|panic  sent-projection|()) ; the clock of poll i is i * wait/10 *)
Definition run_send15 (a : sx) : sx :=
  match a with
  | SL (SN ver :: SBytes pk :: opts :: st :: SL msgs :: SZ wait :: SB send_err :: SL script :: last :: _ :: life :: _) =>
      match ver_of_N ver, acct_of_sx st, msgs_of_sx msgs with
      | None, _, _ => SL [SA "err"; SL []]
      | Some v, Some ac, Some ms =>
          match new_wallet (bytes_to_bits pk) v (opts_of_sx opts) with
          | Ok w =>
              let sign (_ : unit) (_ : bytes) := zeros 512 in
              let hist := hist_of_sx wait 10 0 script (optN last) in
              (* the model's clock reads 0: the expiry in the message is the configured lifetime in seconds *)
              let r := api_send_v2 code_of xhash unit sign w tt (lifetime_of (optZ life)) 0 ac ms 0 wait send_err hist in
              SL [match snd r with Ok _ => SA "ok" | Err _ => SA "err" | Panic _ => SA "panic" end;
                  match fst r with Some e => sent_sx v e | None => SL [] end]
          | _ => SL [SA "err"; SL []]
          end
      | _, _, _ => sx_err "send15 args"
      end
  | _ => sx_err "send15"
  end.

(* c15.history: one Wallet object, a sequence of calls; (ver pk opts seed (op ...)) -> (answer ...)
   op: 'stateinit | ('mutate kind cell) | 'address | ('next acct) *)
Definition op_of_sx (a : sx) : option wop :=
  match a with
  | SA s => if String.eqb s "stateinit" then Some OStateInit
            else if String.eqb s "address" then Some OAddress else None
  | SL [SA s; x] => match acct_of_sx x with Some (Some ac) => Some (ONext ac) | _ => None end
  | SL [SA _; _; c] => match cell_of_sx c with Some c' => Some (OMutate c') | None => None end
  | SL [SA _; _; _; SBytes k] => Some (ORekey (bytes_to_bits (skipn 32 k)))
  | _ => None
  end.
Definition ans_sx (x : wans) : sx :=
  match x with
  | AInit r => out_res hash_sx r
  | ADone => SA "ok"
  | AAddr r => out_res addr_sx r
  | ANextP r => out_res (fun p => SL [SN (fst p); match snd p with None => SL [] | Some i => SL [hash_sx i] end]) r
  end.
Definition run_history15 (a : sx) : sx :=
  match a with
  | SL (SN ver :: SBytes pk :: opts :: _ :: SL ops :: _) =>
      match ver_of_N ver with
      | None => SA "err"
      | Some v =>
          match new_wallet (bytes_to_bits pk) v (opts_of_sx opts) with
          | Ok w =>
              let os := flat_map (fun o => match op_of_sx o with Some x => [x] | None => [] end) ops in
              SL (map ans_sx (run_history code_of xhash w os))
          | _ => SA "err"
          end
      end
  | _ => sx_err "history"
  end.

Definition run (name : string) (a : sx) : sx :=
  let is x := String.eqb name x in
  if is "c15.addr" then run_addr a
  else if is "c15.next" then run_next a
  else if is "c15.send" then run_send15 a
  else if is "c15.history" then run_history15 a
  else sx_err "unknown case kind".
