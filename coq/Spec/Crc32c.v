(** CRC-32C (Castagnoli), bitwise reflected form, over N. *)
From Coq Require Import List NArith.
Import ListNotations.
Local Open Scope N_scope.

Definition crc_poly : N := 0x82F63B78.

Fixpoint crc_bits (n : nat) (c : N) : N :=
  match n with
  | O => c
  | S n' =>
      let c' := if N.odd c then N.lxor (N.shiftr c 1) crc_poly else N.shiftr c 1 in
      crc_bits n' c'
  end.

Definition crc_byte (c b : N) : N := crc_bits 8 (N.lxor c b).

Definition crc32c (l : list N) : N :=
  N.lxor (fold_left crc_byte l 0xFFFFFFFF) 0xFFFFFFFF.

(* "123456789" -> 0xE3069283 *)
Example crc32c_check : crc32c [49; 50; 51; 52; 53; 54; 55; 56; 57] = 0xE3069283.
Proof. vm_compute. reflexivity. Qed.
