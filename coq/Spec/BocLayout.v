(** The bag-of-cells format, written from the TL-B scheme `serialized_boc` and
    the cell serialisation rules of the TON whitepaper, for an ARBITRARY
    producer: any of the three magics, with or without index / CRC / cache bits,
    any reference size and offset size that fit, optional stored hashes per
    cell, any root list, and any cell order in which references point forward.
    [layout] is the byte string such a producer emits. *)
From Coq Require Import List NArith Arith Bool.
From Tongo Require Import Lib.Bits Lib.Res Spec.Crc32c Model.BitString Model.BocParse.
Import ListNotations.

(* n-byte big-endian numeral *)
Fixpoint be (n : nat) (v : N) : bytes :=
  match n with
  | O => []
  | S k => be k (v / 256) ++ [(v mod 256)%N]
  end.

(* data bits -> bytes with the completion tag *)
Definition padded (b : bits) : bits :=
  if (length b mod 8 =? 0)%nat then b else b ++ true :: zeros (7 - length b mod 8).
Definition enc_data (b : bits) : bytes := bytes_of_bits (length (padded b) / 8) (padded b).
Definition d2_of (b : bits) : N := N.of_nat (length b / 8 + (length b + 7) / 8).

(* one cell; [stored] = the bytes of the stored hashes/depths ([] = none) *)
Definition enc_cell (size : nat) (c : node) (stored : bytes) : bytes :=
  let d1 := (N.of_nat (length (n_refs c)) + (if n_special c then 8 else 0)
             + (if Nat.eqb (length stored) 0 then 0 else 16) + 32 * n_mask c)%N in
  d1 :: d2_of (n_bits c) :: stored ++ enc_data (n_bits c)
  ++ flat_map (fun r => be size (N.of_nat r)) (n_refs c).

Record variant := mkvariant {
  v_magic : nat;            (* 0 generic b5ee9c72, 1 lean 68ff65f3, 2 lean with crc acc3a728 *)
  v_idx : bool; v_crc : bool; v_cache : bool;   (* generic magic only *)
  v_size : nat;             (* bytes per cell index *)
  v_off : nat;              (* bytes per offset *)
  v_absent : N;
  v_index : bytes;          (* the index table as written (its content is not used by readers of the cells) *)
  v_stored : list bytes     (* per cell: stored hashes or [] *)
}.

Definition has_idx (v : variant) : bool := if Nat.eqb (v_magic v) 0 then v_idx v else true.
Definition has_crc (v : variant) : bool :=
  match v_magic v with O => v_crc v | 1%nat => false | _ => true end.

Definition cells_data (v : variant) (cells : list node) : bytes :=
  concat (map (fun p => enc_cell (v_size v) (fst p) (snd p)) (combine cells (v_stored v))).

Definition layout (v : variant) (cells : list node) (roots : list nat) : bytes :=
  let prefix :=
    match v_magic v with
    | O => magic_reach ++ [((if v_idx v then 128 else 0) + (if v_crc v then 64 else 0)
                            + (if v_cache v then 32 else 0) + N.of_nat (v_size v))%N]
    | 1%nat => magic_lean ++ [N.of_nat (v_size v)]
    | _ => magic_lean_crc ++ [N.of_nat (v_size v)]
    end in
  let data := cells_data v cells in
  let body :=
    prefix ++ [N.of_nat (v_off v)]
    ++ be (v_size v) (N.of_nat (length cells)) ++ be (v_size v) (N.of_nat (length roots))
    ++ be (v_size v) (v_absent v) ++ be (v_off v) (N.of_nat (length data))
    ++ flat_map (fun r => be (v_size v) (N.of_nat r)) roots
    ++ (if has_idx v then v_index v else [])
    ++ data in
  if has_crc v then body ++ rev (be 4 (crc32c body)) else body.

(** what a conforming producer guarantees *)
Definition first_byte (b : bits) : N := N_of_bits (firstn 8 b).

Definition cell_ok (n i : nat) (size : nat) (c : node) (stored : bytes) : Prop :=
  (length (n_bits c) <= 1023)%nat /\ (length (n_refs c) <= 4)%nat /\
  Forall (fun r => i < r < n)%nat (n_refs c) /\
  (n_mask c < 8)%N /\
  (if n_special c
   then (8 <= length (n_bits c))%nat /\ n_type c = first_byte (n_bits c) /\ n_type c <> 0%N
   else n_type c = 0%N) /\
  (stored = [] \/ length stored = ((popcount3 (n_mask c) + 1) * 34)%nat) /\
  Forall (fun b => b < 256)%N stored.

Fixpoint cells_ok (n i size : nat) (cells : list node) (stored : list bytes) : Prop :=
  match cells, stored with
  | [], [] => True
  | c :: t, s :: ts => cell_ok n i size c s /\ cells_ok n (S i) size t ts
  | _, _ => False
  end.

Definition layout_ok (v : variant) (cells : list node) (roots : list nat) : Prop :=
  let n := length cells in
  let size := v_size v in
  (v_magic v <= 2)%nat /\
  (1 <= size)%nat /\ (if Nat.eqb (v_magic v) 0 then size <= 7 else size <= 255)%nat /\
  (v_off v <= 8)%nat /\
  (N.of_nat n < 256 ^ N.of_nat size)%N /\ (N.of_nat (length roots) < 256 ^ N.of_nat size)%N /\
  (v_absent v < 256 ^ N.of_nat size)%N /\
  (N.of_nat (length (cells_data v cells)) < 256 ^ N.of_nat (v_off v))%N /\
  Forall (fun r => r < n)%nat roots /\
  cells_ok n 0 size cells (v_stored v) /\
  (has_idx v = true -> length (v_index v) = (v_off v * n)%nat) /\
  Forall (fun b => b < 256)%N (v_index v).
