(** The canonical ("normalized") external-in message, written from the TL-B
    scheme (block.tlb: MsgAddress, Anycast, CommonMsgInfo, Message) and the
    normalisation rule: ext_in_msg_info$10, src = addr_none, the destination
    (an addr_std without its anycast), import_fee = 0, no init, body in a
    reference.  It does not follow the Go code. *)
From Coq Require Import List NArith ZArith Arith Bool.
From Tongo Require Import Lib.Bits Lib.Res Model.BocParse Model.CellHash Spec.ReprHash Proofs.CellHashP
  Model.MsgHash.
Import ListNotations.

(* anycast_info$_ depth:(#<= 30) { depth >= 1 } rewrite_pfx:(bits depth), under Maybe *)
Definition any_bits (a : option (N * N)) : bits :=
  match a with
  | None => [false]
  | Some (d, p) => true :: bits_of 5 d ++ bits_of (N.to_nat d) p
  end.

Definition addr_bits (a : addr) : bits :=
  match a with
  | ANone => [false; false]
  | AExt l => [false; true] ++ bits_of 9 (N.of_nat (length l)) ++ l
  | AStd any wc x => [true; false] ++ any_bits any ++ enc_int 8 wc ++ x
  | AVar any len wc x => [true; true] ++ any_bits any ++ bits_of 9 len ++ enc_int 32 wc ++ x
  end.

(* what a decoded address satisfies (5-bit depth: 31 is accepted by the decoder) *)
Definition any_wf (a : option (N * N)) : Prop :=
  match a with
  | None => True
  | Some (d, p) => (1 <= d < 32)%N /\ (p < 2 ^ d)%N
  end.
Definition addr_wf (a : addr) : Prop :=
  match a with
  | ANone => True
  | AExt l => (length l < 512)%nat
  | AStd any wc x => any_wf any /\ length x = 256%nat
  | AVar any len wc x =>
      any_wf any /\ (len < 512)%N /\ length x = N.to_nat len
  end.

(* the destination as it appears in the canonical message *)
Definition canon_dest (a : addr) : addr :=
  match a with AStd _ wc x => AStd None wc x | _ => a end.

Definition canonical_cell (dest : addr) (body : bits * list cell) : cell :=
  Cell false 0 0
       ([true; false]                       (* ext_in_msg_info$10 *)
        ++ [false; false]                   (* src: addr_none$00 *)
        ++ addr_bits (canon_dest dest)      (* dest *)
        ++ [false; false; false; false]     (* import_fee: Grams 0 *)
        ++ [false]                          (* init: nothing$0 *)
        ++ [true])                          (* body: right$1 *)
       [Cell false 0 0 (fst body) (snd body)].
