(** SHA-256 (FIPS 180-4) over N, executable; bytes are N < 256.
    Used only by executable models and the correspondence run; theorems never
    unfold it (they are parametric in the hash function). *)
From Coq Require Import List NArith.
Import ListNotations.
Local Open Scope N_scope.

Definition m32 : N := 4294967295.
Definition add32 (a b : N) : N := N.land (a + b) m32.
Definition rotr (x : N) (n : N) : N :=
  N.lor (N.shiftr x n) (N.land (N.shiftl x (32 - n)) m32).
Definition not32 (x : N) : N := N.lxor x m32.

Definition ch (x y z : N) := N.lxor (N.land x y) (N.land (not32 x) z).
Definition maj (x y z : N) := N.lxor (N.lxor (N.land x y) (N.land x z)) (N.land y z).
Definition bsig0 x := N.lxor (N.lxor (rotr x 2) (rotr x 13)) (rotr x 22).
Definition bsig1 x := N.lxor (N.lxor (rotr x 6) (rotr x 11)) (rotr x 25).
Definition ssig0 x := N.lxor (N.lxor (rotr x 7) (rotr x 18)) (N.shiftr x 3).
Definition ssig1 x := N.lxor (N.lxor (rotr x 17) (rotr x 19)) (N.shiftr x 10).

Definition K : list N := [
 0x428a2f98; 0x71374491; 0xb5c0fbcf; 0xe9b5dba5; 0x3956c25b; 0x59f111f1; 0x923f82a4; 0xab1c5ed5;
 0xd807aa98; 0x12835b01; 0x243185be; 0x550c7dc3; 0x72be5d74; 0x80deb1fe; 0x9bdc06a7; 0xc19bf174;
 0xe49b69c1; 0xefbe4786; 0x0fc19dc6; 0x240ca1cc; 0x2de92c6f; 0x4a7484aa; 0x5cb0a9dc; 0x76f988da;
 0x983e5152; 0xa831c66d; 0xb00327c8; 0xbf597fc7; 0xc6e00bf3; 0xd5a79147; 0x06ca6351; 0x14292967;
 0x27b70a85; 0x2e1b2138; 0x4d2c6dfc; 0x53380d13; 0x650a7354; 0x766a0abb; 0x81c2c92e; 0x92722c85;
 0xa2bfe8a1; 0xa81a664b; 0xc24b8b70; 0xc76c51a3; 0xd192e819; 0xd6990624; 0xf40e3585; 0x106aa070;
 0x19a4c116; 0x1e376c08; 0x2748774c; 0x34b0bcb5; 0x391c0cb3; 0x4ed8aa4a; 0x5b9cca4f; 0x682e6ff3;
 0x748f82ee; 0x78a5636f; 0x84c87814; 0x8cc70208; 0x90befffa; 0xa4506ceb; 0xbef9a3f7; 0xc67178f2].

Definition H0 : list N := [
 0x6a09e667; 0xbb67ae85; 0x3c6ef372; 0xa54ff53a; 0x510e527f; 0x9b05688c; 0x1f83d9ab; 0x5be0cd19].

(* message schedule: keep the last 16 words, newest first *)
Definition next_w (w : list N) : N :=
  match w with
  | w1 :: w2 :: _ :: _ :: _ :: _ :: w7 :: _ :: _ :: _ :: _ :: _ :: _ :: _ :: w15 :: w16 :: _ =>
      add32 (add32 (ssig1 w2) w7) (add32 (ssig0 w15) w16)
  | _ => 0
  end.

Definition round (st : list N) (k w : N) : list N :=
  match st with
  | [a; b; c; d; e; f; g; h] =>
      let t1 := add32 (add32 (add32 h (bsig1 e)) (add32 (ch e f g) k)) w in
      let t2 := add32 (bsig0 a) (maj a b c) in
      [add32 t1 t2; a; b; c; add32 d t1; e; f; g]
  | _ => st
  end.

(* rounds 0..15 consume the block words; 16..63 extend the schedule *)
Fixpoint rounds16 (st : list N) (ks ws : list N) (hist : list N) : list N * list N * list N :=
  match ws, ks with
  | w :: ws', k :: ks' => rounds16 (round st k w) ks' ws' (w :: hist)
  | _, _ => (st, ks, hist)
  end.

Fixpoint rounds48 (st : list N) (ks : list N) (hist : list N) : list N :=
  match ks with
  | [] => st
  | k :: ks' =>
      let w := next_w hist in
      rounds48 (round st k w) ks' (w :: firstn 15 hist)
  end.

Definition compress (h : list N) (block : list N) : list N :=
  let '(st, ks, hist) := rounds16 h K block [] in
  let st' := rounds48 st ks hist in
  map (fun p => add32 (fst p) (snd p)) (combine h st').

Fixpoint words_of_bytes (l : list N) : list N :=
  match l with
  | a :: b :: c :: d :: t => (a * 16777216 + b * 65536 + c * 256 + d) :: words_of_bytes t
  | _ => []
  end.

Fixpoint blocks (fuel : nat) (h : list N) (ws : list N) : list N :=
  match fuel with
  | O => h
  | S f =>
      match ws with
      | [] => h
      | _ => blocks f (compress h (firstn 16 ws)) (skipn 16 ws)
      end
  end.

Definition be_bytes (n : nat) (v : N) : list N :=
  rev (map (fun i => N.land (N.shiftr v (8 * N.of_nat i)) 255) (seq 0 n)).

Definition pad (len : nat) : list N :=
  let zeros := Nat.modulo (119 - Nat.modulo len 64) 64 in
  128 :: repeat 0 zeros ++ be_bytes 8 (8 * N.of_nat len).

Definition sha256 (msg : list N) : list N :=
  let len := length msg in
  let ws := words_of_bytes (msg ++ pad len) in
  let h := blocks (S (Nat.div len 64 + 2)) H0 ws in
  flat_map (be_bytes 4) h.

(* "abc" *)
Example sha256_abc :
  sha256 [97; 98; 99] =
  [0xba; 0x78; 0x16; 0xbf; 0x8f; 0x01; 0xcf; 0xea; 0x41; 0x41; 0x40; 0xde; 0x5d; 0xae; 0x22; 0x23;
   0xb0; 0x03; 0x61; 0xa3; 0x96; 0x17; 0x7a; 0x9c; 0xb4; 0x10; 0xff; 0x61; 0xf2; 0x00; 0x15; 0xad].
Proof. vm_compute. reflexivity. Qed.

Example sha256_empty :
  sha256 [] =
  [0xe3; 0xb0; 0xc4; 0x42; 0x98; 0xfc; 0x1c; 0x14; 0x9a; 0xfb; 0xf4; 0xc8; 0x99; 0x6f; 0xb9; 0x24;
   0x27; 0xae; 0x41; 0xe4; 0x64; 0x9b; 0x93; 0x4c; 0xa4; 0x95; 0x99; 0x1b; 0x78; 0x52; 0xb8; 0x55].
Proof. vm_compute. reflexivity. Qed.
