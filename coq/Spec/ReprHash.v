(** The TON cell representation hash, written declaratively on cell TREES from
    the TON whitepaper (3.1) and the level-mask rules of exotic cells; it
    does not follow the Go code (no hash index / offset bookkeeping, no cache).

    For a cell with level mask m, data d, references r_1..r_k the "own" hash at
    level i is defined by recursion on i:
      own 0     = H (d1(m & 0) d2 data+tag  depths_0  hashes_0)
      own (i+1) = if bit i of m is set
                  then H (d1(m & (2^(i+1)-1)) d2  own(i)  depths_{i+1}  hashes_{i+1})
                  else own i
    where depths_j / hashes_j are those of the children at level j (j+1 below a
    Merkle proof / update cell), and depth_j = 1 + max child depth (0 without
    children; more than 1024 is an error).  A pruned branch cell answers, for a
    level i below its own level, with the i-th stored hash and depth; at or
    above its level with the hash of its own representation. *)
From Coq Require Import List NArith Arith Bool.
From Tongo Require Import Lib.Bits Lib.Res Model.BocParse Model.CellHash.
Import ListNotations.

Inductive cell := Cell (special : bool) (ty : N) (mask : N) (data : bits) (refs : list cell).

Section Spec.
Variable H : bytes -> bytes.

(* stored hash / depth number k of a pruned branch with mask m *)
Definition stored_hash (m : N) (data : bits) (k : nat) : bytes :=
  firstn 32 (skipn (2 + 32 * k) (buf_bytes data)).
Definition stored_depth (m : N) (data : bits) (k : nat) : res N :=
  match skipn (2 + 32 * mask_popcount m + 2 * k) (buf_bytes data) with
  | a :: b :: _ => Ok (a * 256 + b)%N
  | _ => Panic PIndex
  end.

(* hash and depth of one level, given the previous significant hash (None at
   level 0) and the children's (hash, depth) at the child level *)
Definition level_repr (special : bool) (m : N) (data : bits) (nrefs : nat) (j : nat)
           (prev : option bytes) (kids : list (bytes * N)) : res (bytes * N) :=
  let d1 := d1_byte nrefs special (mask_apply m j) in
  let head := match prev with
              | None => d1 :: d2_byte (length data) :: data_with_tag data
              | Some h => d1 :: d2_byte (length data) :: h
              end in
  let maxd := fold_left N.max (map snd kids) 0%N in
  if negb (Nat.eqb nrefs 0) && (1024 <=? maxd)%N then Err EDepth else
  let depth := if Nat.eqb nrefs 0 then 0%N else (maxd + 1)%N in
  Ok (H (head ++ flat_map be16 (map snd kids) ++ concat (map fst kids)), depth).

(* own hash/depth at level i of a non-pruned cell, by recursion on the level;
   [kids j] are the children's (hash, depth) at the child level for level j *)
Fixpoint own_levels (special : bool) (m : N) (data : bits) (nrefs : nat)
         (kids : nat -> res (list (bytes * N))) (i : nat) : res (bytes * N) :=
  match i with
  | O => do ks <- kids 0%nat; level_repr special m data nrefs 0 None ks
  | S i' =>
      if N.testbit m (N.of_nat i') then
        do prev <- own_levels special m data nrefs kids i';
        do ks <- kids (S i');
        level_repr special m data nrefs (S i') (Some (fst prev)) ks
      else own_levels special m data nrefs kids i'
  end.

Fixpoint hd_at (c : cell) (i : nat) {struct c} : res (bytes * N) :=
  match c with
  | Cell special ty m data refs =>
      let merkle := is_merkle special ty in
      let kids (j : nat) : res (list (bytes * N)) :=
        (fix go (rs : list cell) : res (list (bytes * N)) :=
           match rs with
           | [] => Ok []
           | ch :: t =>
               match hd_at ch (if merkle then S j else j) with
               | Ok x => match go t with Ok xs => Ok (x :: xs) | Err e => Err e | Panic p => Panic p end
               | Err e => Err e
               | Panic p => Panic p
               end
           end) refs in
      if is_pruned special ty then
        if (i <? mask_level m)%nat then
          let k := mask_popcount (mask_apply m i) in
          do d <- stored_depth m data k; Ok (stored_hash m data k, d)
        else
          (* own representation: one hash over the full data, mask m *)
          do ks <- kids (mask_level m);
          level_repr special m data (length refs) (mask_level m) None ks
      else own_levels special m data (length refs) kids i
  end.

(* the representation hash of the API: level 3 *)
Definition repr_hash (c : cell) : res bytes := res_map fst (hd_at c 3).
Definition repr_depth (c : cell) : res N := res_map snd (hd_at c 3).

End Spec.
