(** Semantics of a TL-B schema subset, written from the TL-B documentation
    (not from the Go code): what bits and references a value of a schema type
    serialises to.

      ## n, uintN      n-bit big-endian numeral
      intN             n-bit two's complement
      bitsN            the n bits
      #<= b            numeral of ceil(log2(b+1)) bits
      VarUInteger n    len:(#< n) value:(uint (len * 8)), len minimal
      Bool             one bit
      Unary            unary_succ$1 ... unary_zero$0
      #xx / $bb        constructor tags as written
      Maybe X          nothing$0 | just$1 value:X
      Either X Y       left$0 value:X | right$1 value:Y
      ^X               a reference to a cell holding X
      HashmapE n X     hme_empty$0 | hme_root$1 root:^(Hashmap n X)
      MsgAddress       addr_none$00 | addr_extern$01 | addr_std$10 | addr_var$11 *)
From Coq Require Import List NArith ZArith Arith Bool.
From Tongo Require Import Lib.Bits Model.TlbCore.
Import ListNotations.

Inductive schema :=
| SUint (n : nat)
| SInt (n : nat)
| SBits (n : nat)
| SLe (bound : N)
| SVar (n : nat)
| SBool
| SUnary
| STag (len : nat) (val : N)
| SMaybe (s : schema)
| SEither (l r : schema)
| SRef (s : schema)
| SSeq (fs : list schema)
| SAlt (alts : list (nat * N * schema))
| SAny                      (* a type variable filling the rest of the cell *)
| SCell                     (* ^Cell *)
| SDictE (n : nat)          (* the dictionary body is an arbitrary cell here (property C05) *)
| SAddr.

(* n-bit big-endian numeral of x (mod 2^n): characterised by numeral_exact below *)
Definition numeral (n : nat) (x : N) : bits := bits_of n x.
(* n-bit two's complement of z *)
Definition twos (n : nat) (z : Z) : bits := numeral n (Z.to_N (z mod 2 ^ Z.of_nat n)).
(* minimal number of bytes holding x *)
Definition min_bytes (x : N) : nat := (N.to_nat (N.size x) + 7) / 8.
(* width of #<= b and of #< b *)
Definition le_width (b : N) : nat := N.to_nat (N.size b).

(* anycast_info$_ depth:(#<= 30) { depth >= 1 } rewrite_pfx:(bits depth) = Anycast *)
Definition s_anycast (a : option (N * N)) : bits :=
  match a with
  | None => [false]                                             (* nothing$0 *)
  | Some (depth, pfx) => [true] ++ numeral (le_width 30) depth ++ numeral (N.to_nat depth) pfx
  end.

Definition s_addr (a : addrv) : bits :=
  match a with
  | ANone => [false; false]
  | AExt ext => [false; true] ++ numeral 9 (N.of_nat (length ext)) ++ ext
  | AStd any wc addr => [true; false] ++ s_anycast any ++ twos 8 wc ++ addr
  | AVar any wc addr => [true; true] ++ s_anycast any ++ numeral 9 (N.of_nat (length addr)) ++ twos 32 wc ++ addr
  end.

Fixpoint spec_encode (s : schema) (v : value) {struct s} : option (bits * list ctree) :=
  match s, v with
  | SUint n, VN x => Some (numeral n x, [])
  | SInt n, VZ z => Some (twos n z, [])
  | SBits n, VBits l => Some (l, [])
  | SLe b, VN x => Some (numeral (le_width b) x, [])
  | SVar n, VN x =>
      Some (numeral (le_width (N.of_nat (n - 1))) (N.of_nat (min_bytes x)) ++ numeral (8 * min_bytes x) x, [])
  | SBool, VBool b => Some ([b], [])
  | SUnary, VN n => Some (repeat true (N.to_nat n) ++ [false], [])
  | STag len val, VUnit => Some (numeral len val, [])
  | SMaybe _, VMaybe None => Some ([false], [])
  | SMaybe s', VMaybe (Some x) =>
      match spec_encode s' x with Some (bs, rs) => Some (true :: bs, rs) | None => None end
  | SEither l _, VEither false x =>
      match spec_encode l x with Some (bs, rs) => Some (false :: bs, rs) | None => None end
  | SEither _ r, VEither true x =>
      match spec_encode r x with Some (bs, rs) => Some (true :: bs, rs) | None => None end
  | SRef s', x =>
      match spec_encode s' x with Some (bs, rs) => Some ([], [CT bs rs]) | None => None end
  | SSeq fs, VStruct vs =>
      (fix go (fs : list schema) (vs : list value) : option (bits * list ctree) :=
         match fs, vs with
         | [], [] => Some ([], [])
         | s1 :: ft, v1 :: vt =>
             match spec_encode s1 v1, go ft vt with
             | Some (b1, r1), Some (b2, r2) => Some (b1 ++ b2, r1 ++ r2)
             | _, _ => None
             end
         | _, _ => None
         end) fs vs
  | SAlt alts, VSum k x =>
      (fix go (alts : list (nat * N * schema)) (k : nat) : option (bits * list ctree) :=
         match alts, k with
         | [], _ => None
         | (len, val, s') :: _, O =>
             match spec_encode s' x with Some (bs, rs) => Some (numeral len val ++ bs, rs) | None => None end
         | _ :: rest, S k' => go rest k'
         end) alts k
  | SAny, VAny l r => Some (l, r)
  | SCell, VCell c => Some ([], [c])
  | SDictE _, VMaybe None => Some ([false], [])
  | SDictE _, VMaybe (Some (VAny l r)) => Some ([true], [CT l r])
  | SAddr, VAddr a => Some (s_addr a, [])
  | _, _ => None
  end.

(** *** the checker: does a descriptor (of a Go type) implement a schema? *)
Definition is_any (d : ty) : bool := match d with TAny => true | _ => false end.

Fixpoint refines (fuel : nat) (s : schema) (d : ty) {struct fuel} : bool :=
  match fuel with
  | O => false
  | S f =>
      match s, d with
      | SUint n, TUint w => Nat.eqb n w
      | SUint n, TBigUint w => Nat.eqb n w
      | SInt n, TInt w => Nat.eqb n w
      | SInt n, TBigInt w => Nat.eqb n w
      | SBits n, TBits w => Nat.eqb n w
      | SLe b, TUint w => Nat.eqb (le_width b) w
      | SVar n, TVarUInt m => Nat.eqb n m
      | SBool, TBool => true
      | SUnary, TUnary => true
      | STag l v, TMagic l' v' => Nat.eqb l l' && N.eqb v v'
      | SMaybe s', TMaybe d' => refines f s' d'
      | SMaybe s', TMaybeRef d' =>            (* Maybe ^X *)
          match s' with SRef s'' => refines f s'' d' | _ => false end
      | SEither l r, TEither dl dr => refines f l dl && refines f r dr
      | SEither l r, TEitherRef d' =>         (* Either X ^X *)
          match r with SRef r' => refines f l d' && refines f r' d' | _ => false end
      | SRef s', TRef d' => refines f s' d'
      | SSeq fs, TStruct ds =>
          (fix go (fs : list schema) (ds : list ty) : bool :=
             match fs, ds with
             | [], [] => true
             | s1 :: ft, d1 :: dt => refines f s1 d1 && go ft dt
             | _, _ => false
             end) fs ds
      | SAlt alts, TSum dalts =>
          (fix go (a : list (nat * N * schema)) (b : list (nat * N * ty)) : bool :=
             match a, b with
             | [], [] => true
             | (l, v, s1) :: at', (l', v', d1) :: bt =>
                 Nat.eqb l l' && N.eqb v v' && refines f s1 d1 && go at' bt
             | _, _ => false
             end) alts dalts
      | SAny, TAny => true
      | SCell, TCellRef => true
      | SDictE _, TMaybeRef d' => is_any d'
      | SAddr, TAddr => true
      | _, _ => false
      end
  end.
