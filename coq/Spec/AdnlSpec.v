(** C11 — ADNL over TCP, *server side*, written from the protocol description
    (TON documentation "ADNL TCP - liteserver"; ton/adnl/adnl-ext-connection.cpp),
    not from the Go client:

    * key id of an Ed25519 public key = SHA-256 of its TL serialisation
      pub.ed25519 key:int256, i.e. of  c6 b4 13 48 | key.
    * the client draws 160 random bytes (session parameters).  Two AES-CTR
      ciphers are derived from them:
          cipher A : key = bytes  0..31, iv = bytes 64..79   server -> client
          cipher B : key = bytes 32..63, iv = bytes 80..95   client -> server
      (bytes 96..159 are unused padding).
    * handshake packet (256 bytes):
          server key id (32) | client public key (32) | SHA-256(params) (32) |
          params encrypted with AES-CTR, key = secret[0..15] | hash[16..31],
                                         iv  = hash[0..3]  | secret[20..31]
      where secret is the X25519 shared secret and hash = SHA-256(params).
      The server identifies its key by the id, computes the secret with its
      private key, decrypts, checks the hash, and answers with an empty packet.
    * afterwards each direction is ONE continuous CTR stream; a packet is
          length (4, little endian, = 32 + |payload| + 32) | nonce (32) |
          payload | SHA-256(nonce | payload)
      and the whole packet including the length is encrypted.  Lengths outside
      64 .. 8 MiB are a protocol error.

    Cryptography is abstract: [H] = SHA-256, a stream cipher is a deterministic
    keystream generator ([cstate], [next], [init key iv]), [dh] = X25519 on
    (own private key, peer public key). *)
From Coq Require Import List NArith Bool.
Import ListNotations.
Local Open Scope N_scope.

(* ---------- byte-list helpers (shared with Model/AdnlT.v) ---------- *)

(* first n elements / rest / how many are still missing; counter in N so that
   a length field of 8 MiB never becomes a unary number *)
Fixpoint take {A} (n : N) (l : list A) : list A * list A * N :=
  match l with
  | [] => ([], [], n)
  | b :: t =>
      if n =? 0 then ([], l, 0)
      else let '(a, rest, m) := take (N.pred n) t in (b :: a, rest, m)
  end.

(* s[a:b] of a sequence that is long enough *)
Definition slice {A} (a b : nat) (l : list A) : list A := firstn (b - a) (skipn a l).

Fixpoint bytes_eqb (a b : list N) : bool :=
  match a, b with
  | [], [] => true
  | x :: a', y :: b' => (x =? y) && bytes_eqb a' b'
  | _, _ => false
  end.

Definition len {A} (l : list A) : N := N.of_nat (length l).

(* 32-bit little endian *)
Definition le32 (n : N) : list N :=
  [n mod 256; (n / 256) mod 256; (n / 65536) mod 256; (n / 16777216) mod 256].

Definition of_le32 (l : list N) : N :=
  match l with
  | [a; b; c; d] => a + 256 * b + 65536 * c + 16777216 * d
  | _ => 0
  end.

(* ---------- protocol constants ---------- *)

Definition pub_ed25519_tag : list N := [198; 180; 19; 72].   (* c6 b4 13 48 *)
Definition params_len : nat := 160.
Definition handshake_len : nat := 256.
Definition frame_min : N := 64.
Definition frame_max : N := 8388608.

(* (from, to) of: cipher A key, cipher B key, cipher A iv, cipher B iv, padding *)
Definition params_layout : list (nat * nat) :=
  [(0, 32); (32, 64); (64, 80); (80, 96); (96, 160)]%nat.

Section Spec.
  Variable H : list N -> list N.
  Variable cstate : Type.
  Variable next : cstate -> N * cstate.
  Variable init : list N -> list N -> cstate.
  Variable dh : list N -> list N -> list N.   (* own private key, peer public key *)

  (* CTR mode: output = input XOR keystream; the state advances by |input| *)
  Fixpoint keystream (s : cstate) (n : nat) : list N * cstate :=
    match n with
    | O => ([], s)
    | S m => let '(k, s1) := next s in
             let '(ks, s2) := keystream s1 m in (k :: ks, s2)
    end.

  Fixpoint xor_bytes (a b : list N) : list N :=
    match a, b with
    | x :: a', y :: b' => N.lxor x y :: xor_bytes a' b'
    | _, _ => []
    end.

  Definition ctr (s : cstate) (data : list N) : list N * cstate :=
    let '(ks, s') := keystream s (length data) in (xor_bytes data ks, s').

  Definition key_id (pub : list N) : list N := H (pub_ed25519_tag ++ pub).

  Definition cipherA (params : list N) : cstate := init (slice 0 32 params) (slice 64 80 params).
  Definition cipherB (params : list N) : cstate := init (slice 32 64 params) (slice 80 96 params).

  Record server := { sv_params : list N; sv_tx : cstate; sv_rx : cstate }.

  (* the server with key pair (spriv, spub) receives the first 256 bytes *)
  Definition server_accept (spriv spub hs : list N) : option server :=
    let id := slice 0 32 hs in
    let cpub := slice 32 64 hs in
    let hash := slice 64 96 hs in
    let enc := slice 96 256 hs in
    if Nat.eqb (length hs) handshake_len && bytes_eqb id (key_id spub) then
      let secret := dh spriv cpub in
      let key := slice 0 16 secret ++ slice 16 32 hash in
      let iv := slice 0 4 hash ++ slice 20 32 secret in
      let params := fst (ctr (init key iv) enc) in
      if bytes_eqb (H params) hash
      then Some {| sv_params := params; sv_tx := cipherA params; sv_rx := cipherB params |}
      else None
    else None.

  (* plaintext packet *)
  Definition frame (nonce payload : list N) : list N :=
    le32 (32 + len payload + 32) ++ nonce ++ payload ++ H (nonce ++ payload).

  (* the server sends one packet *)
  Definition server_send (sv : server) (nonce payload : list N) : list N * server :=
    let '(c, tx) := ctr (sv_tx sv) (frame nonce payload) in
    (c, {| sv_params := sv_params sv; sv_tx := tx; sv_rx := sv_rx sv |}).

  Fixpoint server_send_all (sv : server) (msgs : list (list N * list N)) : list N * server :=
    match msgs with
    | [] => ([], sv)
    | (nonce, payload) :: t =>
        let '(c, sv1) := server_send sv nonce payload in
        let '(cs, sv2) := server_send_all sv1 t in
        (c ++ cs, sv2)
    end.

  (* splitting a decrypted byte stream into packets *)
  Inductive split_end := SDone | SIncomplete | SBad | SFuel.

  Inductive split1 :=
  | Frame (nonce payload rest : list N)
  | Stop (e : split_end).

  Definition split_frame (p : list N) : split1 :=
    let '(lenb, body, miss) := take 4 p in
    if miss =? 4 then Stop SDone                     (* nothing left: packet boundary *)
    else if negb (miss =? 0) then Stop SIncomplete else
    let n := of_le32 lenb in
    if (n <? frame_min) || (frame_max <? n) then Stop SBad else
    let '(nonce, r1, _) := take 32 body in
    let '(payload, r2, _) := take (n - 64) r1 in
    let '(sum, rest, miss2) := take 32 r2 in
    if negb (miss2 =? 0) then Stop SIncomplete
    else if bytes_eqb sum (H (nonce ++ payload)) then Frame nonce payload rest
    else Stop SBad.

  Fixpoint split_frames (fuel : nat) (p : list N) : list (list N * list N) * split_end :=
    match fuel with
    | O => ([], SFuel)
    | S f =>
        match split_frame p with
        | Frame nonce payload rest =>
            let '(fs, e) := split_frames f rest in ((nonce, payload) :: fs, e)
        | Stop e => ([], e)
        end
    end.

  (* the server has received [stream] (all bytes after the handshake) *)
  Definition server_recv (sv : server) (stream : list N)
      : list (list N * list N) * split_end * server :=
    let '(plain, rx) := ctr (sv_rx sv) stream in
    let '(fs, e) := split_frames (S (length plain)) plain in
    (fs, e, {| sv_params := sv_params sv; sv_tx := sv_tx sv; sv_rx := rx |}).
End Spec.
