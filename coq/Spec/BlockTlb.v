(** Hand transcription of the core of block.tlb (TON, crypto/block/block.tlb)
    into the schema language of Spec/TlbSchema.v.  Field names are kept in
    comments; only the order, the widths, the tags and the combinators matter. *)
From Coq Require Import List NArith.
From Tongo Require Import Spec.TlbSchema.
Import ListNotations.
Local Open Scope N_scope.

(* unit-like constructors carry no fields *)
Definition s_unit : schema := SSeq [].

(* addr_none$00 | addr_extern$01 .. = MsgAddressExt; addr_std$10 .. | addr_var$11 .. = MsgAddressInt;
   anycast_info$_ depth:(#<= 30) { depth >= 1 } rewrite_pfx:(bits depth) = Anycast *)
Definition s_MsgAddress : schema := SAddr.

(* nanograms$_ amount:(VarUInteger 16) = Grams *)
Definition s_Grams : schema := SVar 16.

(* extra_currencies$_ dict:(HashmapE 32 (VarUInteger 32)) = ExtraCurrencyCollection *)
Definition s_ExtraCurrencyCollection : schema := SSeq [SDictE 32].

(* currencies$_ grams:Grams other:ExtraCurrencyCollection = CurrencyCollection *)
Definition s_CurrencyCollection : schema := SSeq [s_Grams; s_ExtraCurrencyCollection].

(* int_msg_info$0 ihr_disabled:Bool bounce:Bool bounced:Bool src:MsgAddressInt dest:MsgAddressInt
     value:CurrencyCollection ihr_fee:Grams fwd_fee:Grams created_lt:uint64 created_at:uint32
   ext_in_msg_info$10 src:MsgAddressExt dest:MsgAddressInt import_fee:Grams
   ext_out_msg_info$11 src:MsgAddressInt dest:MsgAddressExt created_lt:uint64 created_at:uint32 *)
Definition s_CommonMsgInfo : schema :=
  SAlt [(1%nat, 0, SSeq [SBool; SBool; SBool; s_MsgAddress; s_MsgAddress; s_CurrencyCollection;
                          s_Grams; s_Grams; SUint 64; SUint 32]);
        (2%nat, 2, SSeq [s_MsgAddress; s_MsgAddress; s_Grams]);
        (2%nat, 3, SSeq [s_MsgAddress; s_MsgAddress; SUint 64; SUint 32])].

(* tick_tock$_ tick:Bool tock:Bool = TickTock *)
Definition s_TickTock : schema := SSeq [SBool; SBool].

(* simple_lib$_ public:Bool root:^Cell = SimpleLib *)
Definition s_SimpleLib : schema := SSeq [SBool; SCell].

(* _ split_depth:(Maybe (## 5)) special:(Maybe TickTock) code:(Maybe ^Cell) data:(Maybe ^Cell)
     library:(HashmapE 256 SimpleLib) = StateInit *)
Definition s_StateInit : schema :=
  SSeq [SMaybe (SUint 5); SMaybe s_TickTock; SMaybe SCell; SMaybe SCell; SDictE 256].

(* message$_ {X:Type} info:CommonMsgInfo init:(Maybe (Either StateInit ^StateInit)) body:(Either X ^X) = Message X *)
Definition s_Message : schema :=
  SSeq [s_CommonMsgInfo; SMaybe (SEither s_StateInit (SRef s_StateInit)); SEither SAny (SRef SAny)].

(* acc_state_uninit$00 | acc_state_frozen$01 | acc_state_active$10 | acc_state_nonexist$11 = AccountStatus *)
Definition s_AccountStatus : schema :=
  SAlt [(2%nat, 0, s_unit); (2%nat, 1, s_unit); (2%nat, 2, s_unit); (2%nat, 3, s_unit)].

(* acst_unchanged$0 | acst_frozen$10 | acst_deleted$11 = AccStatusChange *)
Definition s_AccStatusChange : schema := SAlt [(1%nat, 0, s_unit); (2%nat, 2, s_unit); (2%nat, 3, s_unit)].

(* cskip_no_state$00 | cskip_bad_state$01 | cskip_no_gas$10 | cskip_suspended$110 = ComputeSkipReason *)
Definition s_ComputeSkipReason : schema :=
  SAlt [(2%nat, 0, s_unit); (2%nat, 1, s_unit); (2%nat, 2, s_unit); (3%nat, 6, s_unit)].

(* update_hashes#72 {X:Type} old_hash:bits256 new_hash:bits256 = HASH_UPDATE X *)
Definition s_HashUpdate : schema := SSeq [STag 8 0x72; SBits 256; SBits 256].

(* storage_used_short$_ cells:(VarUInteger 7) bits:(VarUInteger 7) = StorageUsedShort *)
Definition s_StorageUsedShort : schema := SSeq [SVar 7; SVar 7].

(* tr_phase_storage$_ storage_fees_collected:Grams storage_fees_due:(Maybe Grams) status_change:AccStatusChange *)
Definition s_TrStoragePhase : schema := SSeq [s_Grams; SMaybe s_Grams; s_AccStatusChange].

(* tr_phase_credit$_ due_fees_collected:(Maybe Grams) credit:CurrencyCollection *)
Definition s_TrCreditPhase : schema := SSeq [SMaybe s_Grams; s_CurrencyCollection].

(* tr_phase_compute_skipped$0 reason:ComputeSkipReason
   tr_phase_compute_vm$1 success:Bool msg_state_used:Bool account_activated:Bool gas_fees:Grams
     ^[ gas_used:(VarUInteger 7) gas_limit:(VarUInteger 7) gas_credit:(Maybe (VarUInteger 3))
        mode:int8 exit_code:int32 exit_arg:(Maybe int32) vm_steps:uint32
        vm_init_state_hash:bits256 vm_final_state_hash:bits256 ] *)
Definition s_TrComputePhase : schema :=
  SAlt [(1%nat, 0, SSeq [s_ComputeSkipReason]);
        (1%nat, 1, SSeq [SBool; SBool; SBool; s_Grams;
                          SRef (SSeq [SVar 7; SVar 7; SMaybe (SVar 3); SInt 8; SInt 32; SMaybe (SInt 32);
                                      SUint 32; SBits 256; SBits 256])])].

(* tr_phase_action$_ success:Bool valid:Bool no_funds:Bool status_change:AccStatusChange
     total_fwd_fees:(Maybe Grams) total_action_fees:(Maybe Grams) result_code:int32 result_arg:(Maybe int32)
     tot_actions:uint16 spec_actions:uint16 skipped_actions:uint16 msgs_created:uint16
     action_list_hash:bits256 tot_msg_size:StorageUsedShort *)
Definition s_TrActionPhase : schema :=
  SSeq [SBool; SBool; SBool; s_AccStatusChange; SMaybe s_Grams; SMaybe s_Grams; SInt 32; SMaybe (SInt 32);
        SUint 16; SUint 16; SUint 16; SUint 16; SBits 256; s_StorageUsedShort].

(* tr_phase_bounce_negfunds$00 | tr_phase_bounce_nofunds$01 msg_size:StorageUsedShort req_fwd_fees:Grams
   | tr_phase_bounce_ok$1 msg_size:StorageUsedShort msg_fees:Grams fwd_fees:Grams *)
Definition s_TrBouncePhase : schema :=
  SAlt [(2%nat, 0, s_unit); (2%nat, 1, SSeq [s_StorageUsedShort; s_Grams]);
        (1%nat, 1, SSeq [s_StorageUsedShort; s_Grams; s_Grams])].

(* split_merge_info$_ cur_shard_pfx_len:(## 6) acc_split_depth:(## 6) this_addr:bits256 sibling_addr:bits256 *)
Definition s_SplitMergeInfo : schema := SSeq [SUint 6; SUint 6; SBits 256; SBits 256].

(* trans_ord$0000 | trans_storage$0001 | trans_tick_tock$001 | trans_split_prepare$0100 |
   trans_split_install$0101 | trans_merge_prepare$0110 | trans_merge_install$0111 = TransactionDescr.
   prepare_transaction:^Transaction is carried as an uninterpreted cell. *)
Definition s_TransactionDescr : schema :=
  SAlt [(4%nat, 0, SSeq [SBool; SMaybe s_TrStoragePhase; SMaybe s_TrCreditPhase; s_TrComputePhase;
                          SMaybe (SRef s_TrActionPhase); SBool; SMaybe s_TrBouncePhase; SBool]);
        (4%nat, 1, SSeq [s_TrStoragePhase]);
        (3%nat, 1, SSeq [SBool; s_TrStoragePhase; s_TrComputePhase; SMaybe (SRef s_TrActionPhase); SBool; SBool]);
        (4%nat, 4, SSeq [s_SplitMergeInfo; SMaybe s_TrStoragePhase; s_TrComputePhase;
                          SMaybe (SRef s_TrActionPhase); SBool; SBool]);
        (4%nat, 5, SSeq [s_SplitMergeInfo; SRef SAny; SBool]);
        (4%nat, 6, SSeq [s_SplitMergeInfo; s_TrStoragePhase; SBool]);
        (4%nat, 7, SSeq [s_SplitMergeInfo; SRef SAny; SMaybe s_TrStoragePhase; SMaybe s_TrCreditPhase;
                          s_TrComputePhase; SMaybe (SRef s_TrActionPhase); SBool; SBool])].

(* transaction$0111 account_addr:bits256 lt:uint64 prev_trans_hash:bits256 prev_trans_lt:uint64 now:uint32
     outmsg_cnt:uint15 orig_status:AccountStatus end_status:AccountStatus
     ^[ in_msg:(Maybe ^(Message Any)) out_msgs:(HashmapE 15 ^(Message Any)) ]
     total_fees:CurrencyCollection state_update:^(HASH_UPDATE Account) description:^TransactionDescr *)
Definition s_Transaction : schema :=
  SSeq [STag 4 7; SBits 256; SUint 64; SBits 256; SUint 64; SUint 32; SUint 15; s_AccountStatus; s_AccountStatus;
        SRef (SSeq [SMaybe (SRef s_Message); SDictE 15]);
        s_CurrencyCollection; SRef s_HashUpdate; SRef s_TransactionDescr].

(* signed wallet message body: signature:bits512 then the signed payload fills the cell *)
Definition s_SignedMsgBody : schema := SSeq [SBits 512; SAny].
