(** Hand transcription of the core of block.tlb (TON, crypto/block/block.tlb)
    into the schema language of Spec/TlbSchema.v.  Field names are kept in
    comments; only the order, the widths, the tags and the combinators matter. *)
From Coq Require Import List NArith.
From Tongo Require Import Spec.TlbSchema.
Import ListNotations.
Local Open Scope N_scope.

(* unit-like constructors carry no fields *)
Definition s_unit : schema := SSeq [].

(* addr_none$00 | addr_extern$01 .. = MsgAddressExt; addr_std$10 .. | addr_var$11 .. = MsgAddressInt;
   anycast_info$_ depth:(#<= 30) { depth >= 1 } rewrite_pfx:(bits depth) = Anycast *)
Definition s_MsgAddress : schema := SAddr.

(* nanograms$_ amount:(VarUInteger 16) = Grams *)
Definition s_Grams : schema := SVar 16.

(* extra_currencies$_ dict:(HashmapE 32 (VarUInteger 32)) = ExtraCurrencyCollection *)
Definition s_ExtraCurrencyCollection : schema := SSeq [SDictE 32].

(* currencies$_ grams:Grams other:ExtraCurrencyCollection = CurrencyCollection *)
Definition s_CurrencyCollection : schema := SSeq [s_Grams; s_ExtraCurrencyCollection].

(* int_msg_info$0 ihr_disabled:Bool bounce:Bool bounced:Bool src:MsgAddressInt dest:MsgAddressInt
     value:CurrencyCollection ihr_fee:Grams fwd_fee:Grams created_lt:uint64 created_at:uint32
   ext_in_msg_info$10 src:MsgAddressExt dest:MsgAddressInt import_fee:Grams
   ext_out_msg_info$11 src:MsgAddressInt dest:MsgAddressExt created_lt:uint64 created_at:uint32 *)
Definition s_CommonMsgInfo : schema :=
  SAlt [(1%nat, 0, SSeq [SBool; SBool; SBool; s_MsgAddress; s_MsgAddress; s_CurrencyCollection;
                          s_Grams; s_Grams; SUint 64; SUint 32]);
        (2%nat, 2, SSeq [s_MsgAddress; s_MsgAddress; s_Grams]);
        (2%nat, 3, SSeq [s_MsgAddress; s_MsgAddress; SUint 64; SUint 32])].

(* tick_tock$_ tick:Bool tock:Bool = TickTock *)
Definition s_TickTock : schema := SSeq [SBool; SBool].

(* simple_lib$_ public:Bool root:^Cell = SimpleLib *)
Definition s_SimpleLib : schema := SSeq [SBool; SCell].

(* _ split_depth:(Maybe (## 5)) special:(Maybe TickTock) code:(Maybe ^Cell) data:(Maybe ^Cell)
     library:(HashmapE 256 SimpleLib) = StateInit *)
Definition s_StateInit : schema :=
  SSeq [SMaybe (SUint 5); SMaybe s_TickTock; SMaybe SCell; SMaybe SCell; SDictE 256].

(* message$_ {X:Type} info:CommonMsgInfo init:(Maybe (Either StateInit ^StateInit)) body:(Either X ^X) = Message X *)
Definition s_Message : schema :=
  SSeq [s_CommonMsgInfo; SMaybe (SEither s_StateInit (SRef s_StateInit)); SEither SAny (SRef SAny)].

(* acc_state_uninit$00 | acc_state_frozen$01 | acc_state_active$10 | acc_state_nonexist$11 = AccountStatus *)
Definition s_AccountStatus : schema :=
  SAlt [(2%nat, 0, s_unit); (2%nat, 1, s_unit); (2%nat, 2, s_unit); (2%nat, 3, s_unit)].

(* acst_unchanged$0 | acst_frozen$10 | acst_deleted$11 = AccStatusChange *)
Definition s_AccStatusChange : schema := SAlt [(1%nat, 0, s_unit); (2%nat, 2, s_unit); (2%nat, 3, s_unit)].

(* cskip_no_state$00 | cskip_bad_state$01 | cskip_no_gas$10 | cskip_suspended$110 = ComputeSkipReason *)
Definition s_ComputeSkipReason : schema :=
  SAlt [(2%nat, 0, s_unit); (2%nat, 1, s_unit); (2%nat, 2, s_unit); (3%nat, 6, s_unit)].

(* update_hashes#72 {X:Type} old_hash:bits256 new_hash:bits256 = HASH_UPDATE X *)
Definition s_HashUpdate : schema := SSeq [STag 8 0x72; SBits 256; SBits 256].

(* storage_used_short$_ cells:(VarUInteger 7) bits:(VarUInteger 7) = StorageUsedShort *)
Definition s_StorageUsedShort : schema := SSeq [SVar 7; SVar 7].

(* tr_phase_storage$_ storage_fees_collected:Grams storage_fees_due:(Maybe Grams) status_change:AccStatusChange *)
Definition s_TrStoragePhase : schema := SSeq [s_Grams; SMaybe s_Grams; s_AccStatusChange].

(* tr_phase_credit$_ due_fees_collected:(Maybe Grams) credit:CurrencyCollection *)
Definition s_TrCreditPhase : schema := SSeq [SMaybe s_Grams; s_CurrencyCollection].

(* tr_phase_compute_skipped$0 reason:ComputeSkipReason
   tr_phase_compute_vm$1 success:Bool msg_state_used:Bool account_activated:Bool gas_fees:Grams
     ^[ gas_used:(VarUInteger 7) gas_limit:(VarUInteger 7) gas_credit:(Maybe (VarUInteger 3))
        mode:int8 exit_code:int32 exit_arg:(Maybe int32) vm_steps:uint32
        vm_init_state_hash:bits256 vm_final_state_hash:bits256 ] *)
Definition s_TrComputePhase : schema :=
  SAlt [(1%nat, 0, SSeq [s_ComputeSkipReason]);
        (1%nat, 1, SSeq [SBool; SBool; SBool; s_Grams;
                          SRef (SSeq [SVar 7; SVar 7; SMaybe (SVar 3); SInt 8; SInt 32; SMaybe (SInt 32);
                                      SUint 32; SBits 256; SBits 256])])].

(* tr_phase_action$_ success:Bool valid:Bool no_funds:Bool status_change:AccStatusChange
     total_fwd_fees:(Maybe Grams) total_action_fees:(Maybe Grams) result_code:int32 result_arg:(Maybe int32)
     tot_actions:uint16 spec_actions:uint16 skipped_actions:uint16 msgs_created:uint16
     action_list_hash:bits256 tot_msg_size:StorageUsedShort *)
Definition s_TrActionPhase : schema :=
  SSeq [SBool; SBool; SBool; s_AccStatusChange; SMaybe s_Grams; SMaybe s_Grams; SInt 32; SMaybe (SInt 32);
        SUint 16; SUint 16; SUint 16; SUint 16; SBits 256; s_StorageUsedShort].

(* tr_phase_bounce_negfunds$00 | tr_phase_bounce_nofunds$01 msg_size:StorageUsedShort req_fwd_fees:Grams
   | tr_phase_bounce_ok$1 msg_size:StorageUsedShort msg_fees:Grams fwd_fees:Grams *)
Definition s_TrBouncePhase : schema :=
  SAlt [(2%nat, 0, s_unit); (2%nat, 1, SSeq [s_StorageUsedShort; s_Grams]);
        (1%nat, 1, SSeq [s_StorageUsedShort; s_Grams; s_Grams])].

(* split_merge_info$_ cur_shard_pfx_len:(## 6) acc_split_depth:(## 6) this_addr:bits256 sibling_addr:bits256 *)
Definition s_SplitMergeInfo : schema := SSeq [SUint 6; SUint 6; SBits 256; SBits 256].

(* trans_ord$0000 | trans_storage$0001 | trans_tick_tock$001 | trans_split_prepare$0100 |
   trans_split_install$0101 | trans_merge_prepare$0110 | trans_merge_install$0111 = TransactionDescr.
   prepare_transaction:^Transaction is carried as an uninterpreted cell. *)
Definition s_TransactionDescr : schema :=
  SAlt [(4%nat, 0, SSeq [SBool; SMaybe s_TrStoragePhase; SMaybe s_TrCreditPhase; s_TrComputePhase;
                          SMaybe (SRef s_TrActionPhase); SBool; SMaybe s_TrBouncePhase; SBool]);
        (4%nat, 1, SSeq [s_TrStoragePhase]);
        (3%nat, 1, SSeq [SBool; s_TrStoragePhase; s_TrComputePhase; SMaybe (SRef s_TrActionPhase); SBool; SBool]);
        (4%nat, 4, SSeq [s_SplitMergeInfo; SMaybe s_TrStoragePhase; s_TrComputePhase;
                          SMaybe (SRef s_TrActionPhase); SBool; SBool]);
        (4%nat, 5, SSeq [s_SplitMergeInfo; SRef SAny; SBool]);
        (4%nat, 6, SSeq [s_SplitMergeInfo; s_TrStoragePhase; SBool]);
        (4%nat, 7, SSeq [s_SplitMergeInfo; SRef SAny; SMaybe s_TrStoragePhase; SMaybe s_TrCreditPhase;
                          s_TrComputePhase; SMaybe (SRef s_TrActionPhase); SBool; SBool])].

(* transaction$0111 account_addr:bits256 lt:uint64 prev_trans_hash:bits256 prev_trans_lt:uint64 now:uint32
     outmsg_cnt:uint15 orig_status:AccountStatus end_status:AccountStatus
     ^[ in_msg:(Maybe ^(Message Any)) out_msgs:(HashmapE 15 ^(Message Any)) ]
     total_fees:CurrencyCollection state_update:^(HASH_UPDATE Account) description:^TransactionDescr *)
Definition s_Transaction : schema :=
  SSeq [STag 4 7; SBits 256; SUint 64; SBits 256; SUint 64; SUint 32; SUint 15; s_AccountStatus; s_AccountStatus;
        SRef (SSeq [SMaybe (SRef s_Message); SDictE 15]);
        s_CurrencyCollection; SRef s_HashUpdate; SRef s_TransactionDescr].

(* signed wallet message body: signature:bits512 then the signed payload fills the cell *)
Definition s_SignedMsgBody : schema := SSeq [SBits 512; SAny].

(** *** message envelopes and the in/out message descriptors of a block *)

(* interm_addr_regular$0 use_dest_bits:(#<= 96) | interm_addr_simple$10 workchain_id:int8 addr_pfx:uint64
   | interm_addr_ext$11 workchain_id:int32 addr_pfx:uint64 = IntermediateAddress *)
Definition s_IntermediateAddress : schema :=
  SAlt [(1%nat, 0, SSeq [SLe 96]); (2%nat, 2, SSeq [SInt 8; SUint 64]); (2%nat, 3, SSeq [SInt 32; SUint 64])].

(* msg_metadata#0 depth:uint32 initiator_addr:MsgAddressInt initiator_lt:uint64 = MsgMetadata *)
Definition s_MsgMetadata : schema := SSeq [STag 4 0; SUint 32; s_MsgAddress; SUint 64].

(* msg_envelope#4 cur_addr:IntermediateAddress next_addr:IntermediateAddress fwd_fee_remaining:Grams
     msg:^(Message Any)
   msg_envelope_v2#5 cur_addr next_addr fwd_fee_remaining msg:^(Message Any)
     emitted_lt:(Maybe uint64) metadata:(Maybe MsgMetadata) = MsgEnvelope *)
Definition s_MsgEnvelope : schema :=
  SAlt [(4%nat, 4, SSeq [s_IntermediateAddress; s_IntermediateAddress; s_Grams; SRef s_Message]);
        (4%nat, 5, SSeq [s_IntermediateAddress; s_IntermediateAddress; s_Grams; SRef s_Message;
                          SMaybe (SUint 64); SMaybe s_MsgMetadata])].

(* msg_import_ext$000 msg:^(Message Any) transaction:^Transaction
   msg_import_ihr$010 msg:^(Message Any) transaction:^Transaction ihr_fee:Grams proof_created:^Cell
   msg_import_imm$011 in_msg:^MsgEnvelope transaction:^Transaction fwd_fee:Grams
   msg_import_fin$100 in_msg:^MsgEnvelope transaction:^Transaction fwd_fee:Grams
   msg_import_tr$101  in_msg:^MsgEnvelope out_msg:^MsgEnvelope transit_fee:Grams
   msg_discard_fin$110 in_msg:^MsgEnvelope transaction_id:uint64 fwd_fee:Grams
   msg_discard_tr$111 in_msg:^MsgEnvelope transaction_id:uint64 fwd_fee:Grams proof_delivered:^Cell
   msg_import_deferred_fin$00100 in_msg:^MsgEnvelope transaction:^Transaction fwd_fee:Grams
   msg_import_deferred_tr$00101 in_msg:^MsgEnvelope out_msg:^MsgEnvelope = InMsg *)
Definition s_InMsg : schema :=
  SAlt [(3%nat, 0, SSeq [SRef s_Message; SRef s_Transaction]);
        (3%nat, 2, SSeq [SRef s_Message; SRef s_Transaction; s_Grams; SCell]);
        (3%nat, 3, SSeq [SRef s_MsgEnvelope; SRef s_Transaction; s_Grams]);
        (3%nat, 4, SSeq [SRef s_MsgEnvelope; SRef s_Transaction; s_Grams]);
        (3%nat, 5, SSeq [SRef s_MsgEnvelope; SRef s_MsgEnvelope; s_Grams]);
        (3%nat, 6, SSeq [SRef s_MsgEnvelope; SUint 64; s_Grams]);
        (3%nat, 7, SSeq [SRef s_MsgEnvelope; SUint 64; s_Grams; SCell]);
        (5%nat, 4, SSeq [SRef s_MsgEnvelope; SRef s_Transaction; s_Grams]);
        (5%nat, 5, SSeq [SRef s_MsgEnvelope; SRef s_MsgEnvelope])].

(* msg_export_ext$000 msg:^(Message Any) transaction:^Transaction
   msg_export_imm$010 out_msg:^MsgEnvelope transaction:^Transaction reimport:^InMsg
   msg_export_new$001 out_msg:^MsgEnvelope transaction:^Transaction
   msg_export_tr$011  out_msg:^MsgEnvelope imported:^InMsg
   msg_export_deq$1100 out_msg:^MsgEnvelope import_block_lt:uint63
   msg_export_deq_short$1101 msg_env_hash:bits256 next_workchain:int32 next_addr_pfx:uint64 import_block_lt:uint64
   msg_export_tr_req$111 out_msg:^MsgEnvelope imported:^InMsg
   msg_export_deq_imm$100 out_msg:^MsgEnvelope reimport:^InMsg
   msg_export_new_defer$10100 out_msg:^MsgEnvelope transaction:^Transaction
   msg_export_deferred_tr$10101 out_msg:^MsgEnvelope imported:^InMsg = OutMsg.
   Deviation recorded: block.tlb declares next_workchain:int32; the library holds the same 32 bits in a
   uint32 (workchain -1 reads as 4294967295).  The bits are those of the schema; the transcription uses
   the unsigned reading so that values can be compared. *)
Definition s_OutMsg : schema :=
  SAlt [(3%nat, 0, SSeq [SRef s_Message; SRef s_Transaction]);
        (3%nat, 2, SSeq [SRef s_MsgEnvelope; SRef s_Transaction; SRef s_InMsg]);
        (3%nat, 1, SSeq [SRef s_MsgEnvelope; SRef s_Transaction]);
        (3%nat, 3, SSeq [SRef s_MsgEnvelope; SRef s_InMsg]);
        (4%nat, 12, SSeq [SRef s_MsgEnvelope; SUint 63]);
        (4%nat, 13, SSeq [SBits 256; SUint 32; SUint 64; SUint 64]);
        (3%nat, 7, SSeq [SRef s_MsgEnvelope; SRef s_InMsg]);
        (3%nat, 4, SSeq [SRef s_MsgEnvelope; SRef s_InMsg]);
        (5%nat, 20, SSeq [SRef s_MsgEnvelope; SRef s_Transaction]);
        (5%nat, 21, SSeq [SRef s_MsgEnvelope; SRef s_InMsg])].

(* _ enqueued_lt:uint64 out_msg:^MsgEnvelope = EnqueuedMsg *)
Definition s_EnqueuedMsg : schema := SSeq [SUint 64; SRef s_MsgEnvelope].

(** *** accounts *)
(* account_uninit$00 | account_active$1 _:StateInit | account_frozen$01 state_hash:bits256 = AccountState *)
Definition s_AccountState : schema :=
  SAlt [(2%nat, 0, s_unit); (1%nat, 1, SSeq [s_StateInit]); (2%nat, 1, SSeq [SBits 256])].
(* account_storage$_ last_trans_lt:uint64 balance:CurrencyCollection state:AccountState = AccountStorage *)
Definition s_AccountStorage : schema := SSeq [SUint 64; s_CurrencyCollection; s_AccountState].
(* storage_extra_none$000 | storage_extra_info$001 dict_hash:uint256 = StorageExtraInfo
   (the library keeps the 256 bits as a byte array) *)
Definition s_StorageExtraInfo : schema := SAlt [(3%nat, 0, s_unit); (3%nat, 1, SSeq [SBits 256])].
(* storage_used$_ cells:(VarUInteger 7) bits:(VarUInteger 7) = StorageUsed *)
Definition s_StorageUsed : schema := SSeq [SVar 7; SVar 7].
(* storage_info$_ used:StorageUsed storage_extra:StorageExtraInfo last_paid:uint32 due_payment:(Maybe Grams) *)
Definition s_StorageInfo : schema := SSeq [s_StorageUsed; s_StorageExtraInfo; SUint 32; SMaybe s_Grams].
(* account_none$0 | account$1 addr:MsgAddressInt storage_stat:StorageInfo storage:AccountStorage = Account *)
Definition s_ExistedAccount : schema := SSeq [s_MsgAddress; s_StorageInfo; s_AccountStorage].
Definition s_Account : schema := SAlt [(1%nat, 0, s_unit); (1%nat, 1, s_ExistedAccount)].
(* account_descr$_ account:^Account last_trans_hash:bits256 last_trans_lt:uint64 = ShardAccount *)
Definition s_ShardAccount : schema := SSeq [SRef s_Account; SBits 256; SUint 64].
(* depth_balance$_ split_depth:(#<= 30) balance:CurrencyCollection = DepthBalanceInfo *)
Definition s_DepthBalanceInfo : schema := SSeq [SLe 30; s_CurrencyCollection].

(** *** block-level records *)
(* ext_blk_ref$_ end_lt:uint64 seq_no:uint32 root_hash:bits256 file_hash:bits256 = ExtBlkRef *)
Definition s_ExtBlkRef : schema := SSeq [SUint 64; SUint 32; SBits 256; SBits 256].
(* master_info$_ master:ExtBlkRef = BlkMasterInfo *)
Definition s_BlkMasterInfo : schema := SSeq [s_ExtBlkRef].
(* shard_ident$00 shard_pfx_bits:(#<= 60) workchain_id:int32 shard_prefix:uint64 = ShardIdent *)
Definition s_ShardIdent : schema := SSeq [STag 2 0; SLe 60; SInt 32; SUint 64].
(* block_id_ext$_ shard_id:ShardIdent seq_no:uint32 root_hash:bits256 file_hash:bits256 = BlockIdExt *)
Definition s_BlockIdExt : schema := SSeq [s_ShardIdent; SUint 32; SBits 256; SBits 256].
(* capabilities#c4 version:uint32 capabilities:uint64 = GlobalVersion *)
Definition s_GlobalVersion : schema := SSeq [STag 8 0xc4; SUint 32; SUint 64].
(* import_fees$_ fees_collected:Grams value_imported:CurrencyCollection = ImportFees *)
Definition s_ImportFees : schema := SSeq [s_Grams; s_CurrencyCollection].
(* _ fees:CurrencyCollection create:CurrencyCollection = ShardFeeCreated *)
Definition s_ShardFeeCreated : schema := SSeq [s_CurrencyCollection; s_CurrencyCollection].
(* _ key:Bool blk_ref:ExtBlkRef = KeyExtBlkRef;  _ key:Bool max_end_lt:uint64 = KeyMaxLt *)
Definition s_KeyExtBlkRef : schema := SSeq [SBool; s_ExtBlkRef].
Definition s_KeyMaxLt : schema := SSeq [SBool; SUint 64].
(* validator_info$_ validator_list_hash_short:uint32 catchain_seqno:uint32 nx_cc_updated:Bool = ValidatorInfo *)
Definition s_ValidatorInfo : schema := SSeq [SUint 32; SUint 32; SBool].
(* validator_base_info$_ validator_list_hash_short:uint32 catchain_seqno:uint32 = ValidatorBaseInfo *)
Definition s_ValidatorBaseInfo : schema := SSeq [SUint 32; SUint 32].
(* counters#_ last_updated:uint32 total:uint64 cnt2048:uint64 cnt65536:uint64 = Counters *)
Definition s_Counters : schema := SSeq [SUint 32; SUint 64; SUint 64; SUint 64].
(* creator_info#4 mc_blocks:Counters shard_blocks:Counters = CreatorStats *)
Definition s_CreatorStats : schema := SSeq [STag 4 4; s_Counters; s_Counters].
(* processed_upto$_ last_msg_lt:uint64 last_msg_hash:bits256 = ProcessedUpto *)
Definition s_ProcessedUpto : schema := SSeq [SUint 64; SBits 256].
(* ihr_pending$_ import_lt:uint64 = IhrPendingSince *)
Definition s_IhrPendingSince : schema := SSeq [SUint 64].

(** *** keys, signatures, validators *)
(* ed25519_pubkey#8e81278a pubkey:bits256 = SigPubKey *)
Definition s_SigPubKey : schema := SSeq [STag 32 0x8e81278a; SBits 256].
(* ed25519_signature#5 R:bits256 s:bits256 = CryptoSignatureSimple *)
Definition s_CryptoSignatureSimple : schema := SSeq [STag 4 5; SSeq [SBits 256; SBits 256]].
(* validator#53 public_key:SigPubKey weight:uint64 | validator_addr#73 public_key:SigPubKey weight:uint64 adnl_addr:bits256 *)
Definition s_ValidatorDescr : schema :=
  SAlt [(8%nat, 0x53, SSeq [s_SigPubKey; SUint 64]); (8%nat, 0x73, SSeq [s_SigPubKey; SUint 64; SBits 256])].
(* validator_temp_key#3 adnl_addr:bits256 temp_public_key:SigPubKey seqno:# valid_until:uint32 = ValidatorTempKey *)
Definition s_ValidatorTempKey : schema := SSeq [STag 4 3; SBits 256; s_SigPubKey; SUint 32; SUint 32].
(* certificate#4 temp_key:SigPubKey valid_since:uint32 valid_until:uint32 = Certificate *)
Definition s_Certificate : schema := SSeq [STag 4 4; s_SigPubKey; SUint 32; SUint 32].

(** *** configuration records *)
(* _#cc utime_since:uint32 bit_price_ps:uint64 cell_price_ps:uint64 mc_bit_price_ps:uint64 mc_cell_price_ps:uint64 = StoragePrices *)
Definition s_StoragePrices : schema := SSeq [STag 8 0xcc; SUint 32; SUint 64; SUint 64; SUint 64; SUint 64].
(* msg_forward_prices#ea lump_price:uint64 bit_price:uint64 cell_price:uint64 ihr_price_factor:uint32
     first_frac:uint16 next_frac:uint16 = MsgForwardPrices *)
Definition s_MsgForwardPrices : schema := SSeq [STag 8 0xea; SUint 64; SUint 64; SUint 64; SUint 32; SUint 16; SUint 16].
(* param_limits#c3 underload:# soft_limit:# hard_limit:# = ParamLimits *)
Definition s_ParamLimits : schema := SSeq [STag 8 0xc3; SUint 32; SUint 32; SUint 32].
(* block_limits#5d bytes:ParamLimits gas:ParamLimits lt_delta:ParamLimits = BlockLimits *)
Definition s_BlockLimits : schema := SSeq [STag 8 0x5d; s_ParamLimits; s_ParamLimits; s_ParamLimits].
(* block_grams_created#6b masterchain_block_fee:Grams basechain_block_fee:Grams = BlockCreateFees *)
Definition s_BlockCreateFees : schema := SSeq [STag 8 0x6b; s_Grams; s_Grams].
(* complaint_prices#1a deposit:Grams bit_price:Grams cell_price:Grams = ComplaintPricing *)
Definition s_ComplaintPricing : schema := SSeq [STag 8 0x1a; s_Grams; s_Grams; s_Grams].
(* wfmt_basic#1 vm_version:int32 vm_mode:uint64 = WorkchainFormat 1 *)
Definition s_WorkchainFormat1 : schema := SSeq [STag 4 1; SInt 32; SUint 64].
(* wfmt_ext#0 min_addr_len:(## 12) max_addr_len:(## 12) addr_len_step:(## 12) workchain_type_id:(## 32) = WorkchainFormat 0 *)
Definition s_WorkchainFormat0 : schema := SSeq [STag 4 0; SUint 12; SUint 12; SUint 12; SUint 32].
(* wc_split_merge_timings#0 split_merge_delay:uint32 split_merge_interval:uint32
     min_split_merge_interval:uint32 max_split_merge_delay:uint32 = WcSplitMergeTimings *)
Definition s_WcSplitMergeTimings : schema := SSeq [STag 4 0; SUint 32; SUint 32; SUint 32; SUint 32].
(* precompiled_smc#b0 gas_usage:uint64 = PrecompiledSmc *)
Definition s_PrecompiledSmc : schema := SSeq [STag 8 0xb0; SUint 64].
(* gas_prices#dd gas_price:uint64 gas_limit:uint64 gas_credit:uint64 block_gas_limit:uint64
     freeze_due_limit:uint64 delete_due_limit:uint64
   gas_prices_ext#de gas_price gas_limit special_gas_limit gas_credit block_gas_limit freeze_due_limit delete_due_limit
   (gas_flat_pfx#d1 is recursive and has no descriptor) *)
(* catchain_config#c1 mc_catchain_lifetime:uint32 shard_catchain_lifetime:uint32
     shard_validators_lifetime:uint32 shard_validators_num:uint32
   catchain_config_new#c2 flags:(## 7) { flags = 0 } shuffle_mc_validators:Bool mc_catchain_lifetime:uint32
     shard_catchain_lifetime:uint32 shard_validators_lifetime:uint32 shard_validators_num:uint32 = CatchainConfig *)
Definition s_CatchainConfig : schema :=
  SAlt [(8%nat, 0xc1, SSeq [SUint 32; SUint 32; SUint 32; SUint 32]);
        (8%nat, 0xc2, SSeq [SUint 7; SBool; SUint 32; SUint 32; SUint 32; SUint 32])].

(** *** configuration parameters (block.tlb: ConfigParam n) *)
(* _ config_addr:bits256 = ConfigParam 0; elector_addr = 1; minter_addr = 2; fee_collector_addr = 3; dns_root_addr = 4 *)
Definition s_ConfigParamAddr : schema := SSeq [SBits 256].
(* burning_config#01 blackhole_addr:(Maybe bits256) fee_burn_num:# fee_burn_denom:# = BurningConfig; _ BurningConfig = ConfigParam 5 *)
Definition s_BurningConfig : schema := SSeq [STag 8 1; SMaybe (SBits 256); SUint 32; SUint 32].
Definition s_ConfigParam5 : schema := SSeq [s_BurningConfig].
(* _ mint_new_price:Grams mint_add_price:Grams = ConfigParam 6 *)
Definition s_ConfigParam6 : schema := SSeq [s_Grams; s_Grams].
(* _ to_mint:ExtraCurrencyCollection = ConfigParam 7;  _ GlobalVersion = ConfigParam 8 *)
Definition s_ConfigParam7 : schema := SSeq [s_ExtraCurrencyCollection].
Definition s_ConfigParam8 : schema := SSeq [s_GlobalVersion].
(* cfg_vote_cfg#36 min_tot_rounds:uint8 max_tot_rounds:uint8 min_wins:uint8 max_losses:uint8
     min_store_sec:uint32 max_store_sec:uint32 bit_price:uint32 cell_price:uint32 = ConfigProposalSetup *)
Definition s_ConfigProposalSetup : schema :=
  SSeq [STag 8 0x36; SUint 8; SUint 8; SUint 8; SUint 8; SUint 32; SUint 32; SUint 32; SUint 32].
(* cfg_vote_setup#91 normal_params:^ConfigProposalSetup critical_params:^ConfigProposalSetup = ConfigVotingSetup *)
Definition s_ConfigVotingSetup : schema := SSeq [STag 8 0x91; SRef s_ConfigProposalSetup; SRef s_ConfigProposalSetup].
Definition s_ConfigParam11 : schema := SSeq [s_ConfigVotingSetup].
(* cfg_proposal#f3 param_id:int32 param_value:(Maybe ^Cell) if_hash_equal:(Maybe uint256) = ConfigProposal
   (the library holds param_value as an uninterpreted cell content behind the reference) *)
Definition s_ConfigProposal : schema := SSeq [STag 8 0xf3; SInt 32; SMaybe (SRef SAny); SMaybe (SUint 256)].
Definition s_ConfigParam13 : schema := SSeq [s_ComplaintPricing].
Definition s_ConfigParam14 : schema := SSeq [s_BlockCreateFees].
(* _ validators_elected_for:uint32 elections_start_before:uint32 elections_end_before:uint32 stake_held_for:uint32 = ConfigParam 15 *)
Definition s_ConfigParam15 : schema := SSeq [SUint 32; SUint 32; SUint 32; SUint 32].
(* _ max_validators:(## 16) max_main_validators:(## 16) min_validators:(## 16) = ConfigParam 16 *)
Definition s_ConfigParam16 : schema := SSeq [SUint 16; SUint 16; SUint 16].
(* _ min_stake:Grams max_stake:Grams min_total_stake:Grams max_stake_factor:uint32 = ConfigParam 17 *)
Definition s_ConfigParam17 : schema := SSeq [s_Grams; s_Grams; s_Grams; SUint 32].
(* config_mc_block_limits#_ BlockLimits = ConfigParam 22; config_block_limits = 23;
   config_mc_fwd_prices#_ MsgForwardPrices = ConfigParam 24; config_fwd_prices = 25; _ CatchainConfig = ConfigParam 28 *)
Definition s_ConfigParamBlockLimits : schema := SSeq [s_BlockLimits].
Definition s_ConfigParamFwdPrices : schema := SSeq [s_MsgForwardPrices].
Definition s_ConfigParam28 : schema := SSeq [s_CatchainConfig].
(* consensus_config#d6 round_candidates:# next_candidate_delay_ms:uint32 consensus_timeout_ms:uint32
     fast_attempts:uint32 attempt_duration:uint32 catchain_max_deps:uint32 max_block_bytes:uint32 max_collated_bytes:uint32
   consensus_config_new#d7 flags:(## 7) new_catchain_ids:Bool round_candidates:(## 8) + the same seven uint32
   consensus_config_v3#d8 ... proto_version:uint16
   consensus_config_v4#d9 ... proto_version:uint16 catchain_max_blocks_coeff:uint32 = ConsensusConfig *)
Definition s_cc7 : list schema := [SUint 32; SUint 32; SUint 32; SUint 32; SUint 32; SUint 32; SUint 32].
Definition s_ConsensusConfig : schema :=
  SAlt [(8%nat, 0xd6, SSeq (SUint 32 :: s_cc7));
        (8%nat, 0xd7, SSeq ([SUint 7; SBool; SUint 8] ++ s_cc7));
        (8%nat, 0xd8, SSeq ([SUint 7; SBool; SUint 8] ++ s_cc7 ++ [SUint 16]));
        (8%nat, 0xd9, SSeq ([SUint 7; SBool; SUint 8] ++ s_cc7 ++ [SUint 16; SUint 32]))].
Definition s_ConfigParam29 : schema := SSeq [s_ConsensusConfig].
(* misbehaviour_punishment_config_v1#01 default_flat_fine:Grams default_proportional_fine:uint32
     severity_flat_mult:uint16 severity_proportional_mult:uint16 unpunishable_interval:uint16 long_interval:uint16
     long_flat_mult:uint16 long_proportional_mult:uint16 medium_interval:uint16 medium_flat_mult:uint16
     medium_proportional_mult:uint16 = MisbehaviourPunishmentConfig; ConfigParam 40 *)
Definition s_MisbehaviourPunishmentConfig : schema :=
  SSeq [STag 8 1; s_Grams; SUint 32; SUint 16; SUint 16; SUint 16; SUint 16; SUint 16; SUint 16; SUint 16; SUint 16; SUint 16].
Definition s_ConfigParam40 : schema := SSeq [s_MisbehaviourPunishmentConfig].
(* size_limits_config#01 max_msg_bits:uint32 max_msg_cells:uint32 max_library_cells:uint32 max_vm_data_depth:uint16
     max_ext_msg_size:uint32 max_ext_msg_depth:uint16
   size_limits_config_v2#02 ... max_acc_state_cells:uint32 max_acc_state_bits:uint32 = SizeLimitsConfig; ConfigParam 43 *)
Definition s_SizeLimitsConfig : schema :=
  SAlt [(8%nat, 1, SSeq [SUint 32; SUint 32; SUint 32; SUint 16; SUint 32; SUint 16]);
        (8%nat, 2, SSeq [SUint 32; SUint 32; SUint 32; SUint 16; SUint 32; SUint 16; SUint 32; SUint 32])].
Definition s_ConfigParam43 : schema := SSeq [s_SizeLimitsConfig].
(* jetton_bridge_prices#_ bridge_burn_fee:Coins bridge_mint_fee:Coins wallet_min_tons_for_storage:Coins
     wallet_gas_consumption:Coins minter_min_tons_for_storage:Coins discover_gas_consumption:Coins = JettonBridgePrices *)
Definition s_JettonBridgePrices : schema := SSeq [s_Grams; s_Grams; s_Grams; s_Grams; s_Grams; s_Grams].
(* oracle_bridge_params#_ bridge_address:bits256 oracle_mutlisig_address:bits256 oracles:(HashmapE 256 uint256)
     external_chain_address:bits256 = OracleBridgeParams *)
Definition s_OracleBridgeParams : schema := SSeq [SBits 256; SBits 256; SDictE 256; SBits 256].
(* precompiled_contracts_config#c0 list:(HashmapE 256 PrecompiledSmc) = PrecompiledContractsConfig *)
Definition s_PrecompiledContractsConfig : schema := SSeq [STag 8 0xc0; SDictE 256].
(* suspended_address_list#00 addresses:(HashmapE 288 Unit) suspended_until:uint32 = SuspendedAddressList *)
Definition s_SuspendedAddressList : schema := SSeq [STag 8 0; SDictE 288; SUint 32].
(* _ messages:(HashmapE 64 EnqueuedMsg) count:uint48 = AccountDispatchQueue *)
Definition s_AccountDispatchQueue : schema := SSeq [SDictE 64; SUint 48].

(** *** the fixed part of block_info (after the #9bc7a987 tag):
    version:uint32 not_master:(## 1) after_merge:(## 1) before_split:(## 1) after_split:(## 1)
    want_split:Bool want_merge:Bool key_block:Bool vert_seqno_incr:(## 1) flags:(## 8) seq_no:# vert_seq_no:#
    shard:ShardIdent gen_utime:uint32 start_lt:uint64 end_lt:uint64 gen_validator_list_hash_short:uint32
    gen_catchain_seqno:uint32 min_ref_mc_seqno:uint32 prev_key_block_seqno:uint32
    (the library holds the five (## 1) flags as bools: same bit) *)
Definition s_BlockInfoPart : schema :=
  SSeq [SUint 32; SBool; SBool; SBool; SBool; SBool; SBool; SBool; SBool; SUint 8; SUint 32; SUint 32;
        s_ShardIdent; SUint 32; SUint 64; SUint 64; SUint 32; SUint 32; SUint 32; SUint 32].

(** *** wallet contracts: persistent data (the data cell of the state-init) and the fixed
    header of the signed external message body, from the wallet contracts' sources *)
(* v1/v2: seqno:uint32 public_key:bits256 *)
Definition s_WalletDataV1V2 : schema := SSeq [SUint 32; SBits 256].
(* v3: seqno:uint32 subwallet_id:uint32 public_key:bits256 *)
Definition s_WalletDataV3 : schema := SSeq [SUint 32; SUint 32; SBits 256].
(* v4: seqno:uint32 subwallet_id:uint32 public_key:bits256 plugins:(HashmapE 264 ...) *)
Definition s_WalletDataV4 : schema := SSeq [SUint 32; SUint 32; SBits 256; SDictE 264].
(* highload v2: subwallet_id:uint32 last_cleaned:uint64 public_key:bits256 old_queries:(HashmapE 64 ...) *)
Definition s_WalletDataHighloadV2 : schema := SSeq [SUint 32; SUint 64; SBits 256; SDictE 64].
(* v5r1: is_signature_allowed:Bool seqno:uint32 wallet_id:uint32 public_key:bits256 extensions:(HashmapE 256 ...) *)
Definition s_WalletDataV5R1 : schema := SSeq [SBool; SUint 32; SUint 32; SBits 256; SDictE 256].

(* the 288-bit key of suspended_address_list (ConfigParam 44): workchain:int32 address:bits256 *)
Definition s_AddressWithWorkchain : schema := SSeq [SInt 32; SBits 256].

(** *** further configuration parameters and records (added after round 7)
    Where the Go type implements only a PREFIX of the block.tlb constructor (the library's own
    "todo" comments say so) the schema below is that prefix and its name ends in [_prefix]: the
    obligation then pins order, widths and tags of the fields the library does encode, and says
    nothing about the fields it leaves out (a decode-side limitation recorded in DESIGN.md). *)
(* _ workchains:(HashmapE 32 WorkchainDescr) = ConfigParam 12 *)
Definition s_ConfigParam12 : schema := SSeq [SDictE 32].
(* _ fundamental_smc_addr:(HashmapE 256 True) = ConfigParam 31 *)
Definition s_ConfigParam31 : schema := SSeq [SDictE 256].
(* _ SuspendedAddressList = ConfigParam 44;  _ PrecompiledContractsConfig = ConfigParam 45 *)
Definition s_ConfigParam44 : schema := SSeq [s_SuspendedAddressList].
Definition s_ConfigParam45 : schema := SSeq [s_PrecompiledContractsConfig].
(* _ OracleBridgeParams = ConfigParam 71 (ETH), 72 (BSC), 73 (Polygon) *)
Definition s_ConfigParamOracleBridge : schema := SSeq [s_OracleBridgeParams].
(* jetton_bridge_params_v0#00 bridge_address:bits256 oracles_address:bits256 oracles:(HashmapE 256 uint256)
     state_flags:uint8 burn_bridge_fee:Coins
   jetton_bridge_params_v1#01 bridge_address:bits256 oracles_address:bits256 oracles:(HashmapE 256 uint256)
     state_flags:uint8 prices:^JettonBridgePrices external_chain_address:bits256 = JettonBridgeParams *)
Definition s_JettonBridgeParams : schema :=
  SAlt [(8%nat, 0, SSeq [SBits 256; SBits 256; SDictE 256; SUint 8; s_Grams]);
        (8%nat, 1, SSeq [SBits 256; SBits 256; SDictE 256; SUint 8; SRef s_JettonBridgePrices; SBits 256])].
(* _ JettonBridgeParams = ConfigParam 79 (ETH->TON), 81 (BSC->TON), 82 (Polygon->TON) *)
Definition s_ConfigParamJettonBridge : schema := SSeq [s_JettonBridgeParams].
(* cfg_proposal_status#ce expires:uint32 proposal:^ConfigProposal is_critical:Bool voters:(HashmapE 16 True)
     remaining_weight:int64 validator_set_id:uint256 rounds_remaining:uint8 wins:uint8 losses:uint8 = ConfigProposalStatus *)
Definition s_ConfigProposalStatus : schema :=
  SSeq [STag 8 0xce; SUint 32; SRef s_ConfigProposal; SBool; SDictE 16; SInt 64; SUint 256; SUint 8; SUint 8; SUint 8].
(* the payload of ed25519_signature#5: R:bits256 s:bits256 *)
Definition s_CryptoSignatureSimpleData : schema := SSeq [SBits 256; SBits 256].
(* the common head of validators#11 / validators_ext#12: utime_since:uint32 utime_until:uint32 total:(## 16) main:(## 16) *)
Definition s_ValidatorSetsCommon : schema := SSeq [SUint 32; SUint 32; SUint 16; SUint 16].
(* _ cell:^Cell st_bits:(## 10) end_bits:(## 10) st_ref:(#<= 4) end_ref:(#<= 4) = VmCellSlice *)
Definition s_VmCellSlice : schema := SSeq [SCell; SUint 10; SUint 10; SLe 4; SLe 4].
(* workchain#a6 / workchain_v2#a7 enabled_since:uint32 actual_min_split:(## 8) min_split:(## 8) max_split:(## 8)
     basic:(## 1) active:Bool accept_msgs:Bool flags:(## 13) zerostate_root_hash:bits256 zerostate_file_hash:bits256
     version:uint32 [format:(WorkchainFormat basic) and, for v2, split_merge_timings:WcSplitMergeTimings are NOT
     implemented by the library] = WorkchainDescr *)
Definition s_WorkchainDescr_fields_prefix : schema :=
  SSeq [SUint 32; SUint 8; SUint 8; SUint 8; SUint 1; SBool; SBool; SUint 13; SBits 256; SBits 256; SUint 32].
Definition s_WorkchainDescr_prefix : schema :=
  SAlt [(8%nat, 0xa6, s_WorkchainDescr_fields_prefix); (8%nat, 0xa7, s_WorkchainDescr_fields_prefix)].
(* shard_descr#b / shard_descr_new#a seq_no:uint32 reg_mc_seqno:uint32 start_lt:uint64 end_lt:uint64 root_hash:bits256
     file_hash:bits256 before_split:Bool before_merge:Bool want_split:Bool want_merge:Bool nx_cc_updated:Bool
     flags:(## 3) next_catchain_seqno:uint32 next_validator_shard:uint64 min_ref_mc_seqno:uint32 gen_utime:uint32
     [split_merge_at:FutureSplitMerge fees_collected funds_created are NOT implemented by the library] = ShardDescr.
   next_validator_shard is held in an int64: the same 64 bits. *)
Definition s_ShardDescr_fields_prefix : schema :=
  SSeq [SUint 32; SUint 32; SUint 64; SUint 64; SBits 256; SBits 256; SBool; SBool; SBool; SBool; SBool;
        SUint 3; SUint 32; SInt 64; SUint 32; SUint 32].
Definition s_ShardDescr_prefix : schema :=
  SAlt [(4%nat, 0xb, s_ShardDescr_fields_prefix); (4%nat, 0xa, s_ShardDescr_fields_prefix)].
