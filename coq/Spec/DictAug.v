(** Augmented dictionaries, from the TON TL-B schema:

      ahm_edge#_ {n:#} {X:Type} {Y:Type} {l:#} {m:#} label:(HmLabel ~l n) {n = (~m) + l}
                 node:(HashmapAugNode m X Y) = HashmapAug n X Y;
      ahmn_leaf#_ {X:Type} {Y:Type} extra:Y value:X = HashmapAugNode 0 X Y;
      ahmn_fork#_ {n:#} {X:Type} {Y:Type} left:^(HashmapAug n X Y) right:^(HashmapAug n X Y)
                 extra:Y = HashmapAugNode (n + 1) X Y;
      ahme_empty$0 {n:#} {X:Type} {Y:Type} extra:Y = HashmapAugE n X Y;
      ahme_root$1  {n:#} {X:Type} {Y:Type} root:^(HashmapAug n X Y) extra:Y = HashmapAugE n X Y;

    A tree with a label form and an extra per node; [erase_aug] forgets the
    extras and the forms, so [tree_to_list] / [wf_pt] of Spec/Dict.v apply. *)
From Coq Require Import List NArith Arith Lia Bool.
From Tongo Require Import Lib.Bits Lib.Res Spec.Dict.
Import ListNotations.

Section Aug.
Variables X V : Type.

Inductive aapt :=
| AALeaf (f : form) (lbl : bits) (x : X) (v : V)
| AAFork (f : form) (lbl : bits) (x : X) (l r : aapt).

Fixpoint erase_aug (t : aapt) : pt V :=
  match t with
  | AALeaf _ lbl _ v => Leaf lbl v
  | AAFork _ lbl _ l r => Fork lbl (erase_aug l) (erase_aug r)
  end.

Fixpoint forms_valid_aug (t : aapt) : Prop :=
  match t with
  | AALeaf f lbl _ _ => form_valid f lbl
  | AAFork f lbl _ l r => form_valid f lbl /\ forms_valid_aug l /\ forms_valid_aug r
  end.

(* an extra, like a value, is some bits and some references *)
Variable venc : V -> bits * list cell.
Variable xenc : X -> bits * list cell.

Fixpoint cells_of_aug (m : nat) (t : aapt) : res cell :=
  match t with
  | AALeaf f lbl x v =>
      mk_cell (enc_label f m lbl ++ fst (xenc x) ++ fst (venc v)) (snd (xenc x) ++ snd (venc v))
  | AAFork f lbl x l r =>
      do lc <- cells_of_aug (m - length lbl - 1) l;
      do rc <- cells_of_aug (m - length lbl - 1) r;
      mk_cell (enc_label f m lbl ++ fst (xenc x)) (lc :: rc :: snd (xenc x))
  end.

(* HashmapAugE: the root extra follows the Maybe ^ *)
Definition cells_of_aug_e (n : nat) (t : option aapt) (x : X) : res cell :=
  match t with
  | None => mk_cell (false :: fst (xenc x)) (snd (xenc x))
  | Some t => do c <- cells_of_aug n t; mk_cell (true :: fst (xenc x)) (c :: snd (xenc x))
  end.

End Aug.

Arguments AALeaf {X V}. Arguments AAFork {X V}.
Arguments erase_aug {X V}. Arguments forms_valid_aug {X V}.
Arguments cells_of_aug {X V}. Arguments cells_of_aug_e {X V}.
