(** The TL wire format (TON flavour), written from the TL specification and
    the comments at the head of lite_api.tl — not from the Go code.

    - [int], [#], [long]: 4 / 8 bytes little-endian (values are kept as the
      unsigned representative, the wire does not distinguish signedness);
    - [int256]: 32 raw bytes;
    - [bytes], [string]: length L < 254 as one byte, otherwise 0xfe followed by
      L as 3 bytes little-endian (L < 2^24); then the data; then zero bytes up
      to a multiple of 4;
    - [Bool]: the constructor id of boolTrue / boolFalse;
    - [vector T]: 32-bit count, then the elements (bare vector);
    - a lower-case name is the *bare* type of that constructor: its fields;
    - a capitalised name is the *boxed* type: 32-bit constructor id of the
      chosen constructor (little-endian), then its fields;
    - [m.N?T]: present exactly when bit N of the earlier [#] field [m] is set;
      [true] occupies zero bytes.

    Records carry labels; how schema names are rendered as labels is a
    parameter ([naming]) so that the same definition speaks about values
    labelled with schema names (the identity naming) and about values dumped
    from Go structs (Go field names). *)
From Coq Require Import String List NArith Arith Lia Bool.
From Tongo Require Import Lib.Bits.
Import ListNotations.
Local Open Scope N_scope.

Definition bytes := list N.

Notation "'opt' x <- r ; k" := (match r with Some x => k | None => None end)
  (at level 200, x pattern, r at level 100, k at level 200, right associativity).

(** * Schema *)
Inductive ty :=
| TInt | TNat | TLong | TInt256 | TBytes | TString | TBool | TTrue
| TVector (t : ty)
| TBare (c : string)
| TBoxed (T : string).

Record field := mkfield { fname : string; fcond : option (string * N); fty : ty }.
Record decl := mkdecl { dname : string; did : N; dfields : list field; dres : string }.
Definition schema := list decl.

(** * Values *)
Inductive value :=
| VNum (n : N)
| VBytes (b : bytes)
| VBool (b : bool)
| VVec (l : list value)
| VRec (c : string) (fs : list (string * value)).

Record naming := mknaming {
  lbl : string -> string;            (* label of a field *)
  blbl : decl -> string;             (* record name of a bare value *)
  xlbl : decl -> string              (* record name selecting a constructor of a boxed type *)
}.
Definition schema_naming : naming := mknaming (fun s => s) dname dname.

(** * Primitive layouts *)
Fixpoint le_bytes (k : nat) (n : N) : bytes :=
  match k with O => [] | S k' => n mod 256 :: le_bytes k' (n / 256) end.
Fixpoint le_num (l : bytes) : N :=
  match l with [] => 0 | b :: t => b + 256 * le_num t end.

Definition is_byte (b : N) : bool := b <? 256.
Definition all_bytes (l : bytes) : bool := forallb is_byte l.

Definition split_at (n : nat) (l : bytes) : option (bytes * bytes) :=
  if short n l then None else Some (firstn n l, skipn n l).
(* the count comes from the wire: compare before converting.  [shortN n l] =
   (length l < n) in time min(n, length l) (TlWireP.shortN_spec) *)
Fixpoint shortN {A} (n : N) (l : list A) : bool :=
  match n with
  | N0 => false
  | _ => match l with [] => true | _ :: t => shortN (N.pred n) t end
  end.
Definition split_atN (n : N) (l : bytes) : option (bytes * bytes) :=
  if shortN n l then None else split_at (N.to_nat n) l.

Definition pad_of (n : N) : nat := N.to_nat ((4 - n mod 4) mod 4).
Definition bytes_header (n : N) : bytes := if n <? 254 then [n] else 254 :: le_bytes 3 n.
Definition enc_bytes (b : bytes) : bytes :=
  let n := N.of_nat (length b) in
  let h := bytes_header n in
  h ++ b ++ repeat 0 (pad_of (N.of_nat (length h) + n)).

Definition all_zero (l : bytes) : bool := forallb (N.eqb 0) l.

(* strict: canonical length form and zero padding only *)
Definition dec_bytes (l : bytes) : option (bytes * bytes) :=
  match l with
  | [] => None
  | h :: t =>
      if h <? 254 then
        opt (b, r) <- split_atN h t;
        opt (p, r') <- split_at (pad_of (1 + h)) r;
        if all_zero p then Some (b, r') else None
      else if h =? 254 then
        opt (lb, r0) <- split_at 3 t;
        let n := le_num lb in
        if n <? 254 then None else
        opt (b, r) <- split_atN n r0;
        opt (p, r') <- split_at (pad_of (4 + n)) r;
        if all_zero p then Some (b, r') else None
      else None
  end.

Definition bool_true_id : N := 0x997275b5.
Definition bool_false_id : N := 0xbc799737.
Definition enc_bool (b : bool) : bytes := le_bytes 4 (if b then bool_true_id else bool_false_id).

(** * Generic combinators (parametric in the element codec) *)
Fixpoint assoc {A} (k : string) (l : list (string * A)) : option A :=
  match l with
  | [] => None
  | (k', a) :: t => if String.eqb k k' then Some a else assoc k t
  end.

Fixpoint enc_list (E : value -> option bytes) (vs : list value) : option bytes :=
  match vs with
  | [] => Some []
  | v :: t => opt a <- E v; opt b <- enc_list E t; Some (a ++ b)
  end.

(* decode exactly p elements; recursion on the binary representation so that a
   32-bit count never becomes a unary number; fails at the first bad element *)
Fixpoint dec_pos (D : bytes -> option (value * bytes)) (p : positive)
         (acc : list value) (bs : bytes) : option (list value * bytes) :=
  match p with
  | xH => opt (v, r) <- D bs; Some (v :: acc, r)
  | xO p' => opt (acc', r) <- dec_pos D p' acc bs; dec_pos D p' acc' r
  | xI p' => opt (v, r) <- D bs;
             opt (acc', r') <- dec_pos D p' (v :: acc) r; dec_pos D p' acc' r'
  end.
(* linear-time reversal (List.rev is quadratic); frev l = rev l (TlWireP.frev_eq) *)
Definition frev {A} (l : list A) : list A := rev_append l [].
Definition dec_count (D : bytes -> option (value * bytes)) (n : N) (bs : bytes)
  : option (list value * bytes) :=
  match n with
  | N0 => Some ([], bs)
  | Npos p => opt (acc, r) <- dec_pos D p [] bs; Some (frev acc, r)
  end.

(* is a field present, given the [#] fields seen so far *)
Definition present (env : list (string * N)) (f : field) : option bool :=
  match fcond f with
  | None => Some true
  | Some (m, n) => opt mv <- assoc m env; Some (N.testbit mv n)
  end.
Definition env_add (f : field) (v : value) (env : list (string * N)) : list (string * N) :=
  match fty f, v with TNat, VNum n => (fname f, n) :: env | _, _ => env end.
Definition is_true_ty (t : ty) : bool := match t with TTrue => true | _ => false end.

Section Fields.
  Variable nm : naming.

  Fixpoint enc_fields (E : ty -> value -> option bytes) (fields : list field)
           (fs : list (string * value)) (env : list (string * N)) : option bytes :=
    match fields with
    | [] => match fs with [] => Some [] | _ => None end
    | f :: fields' =>
        opt p <- present env f;
        if negb p || is_true_ty (fty f) then enc_fields E fields' fs env else
        match fs with
        | (l, v) :: fs' =>
            if String.eqb l (lbl nm (fname f)) then
              opt a <- E (fty f) v;
              opt b <- enc_fields E fields' fs' (env_add f v env);
              Some (a ++ b)
            else None
        | [] => None
        end
    end.

  Fixpoint dec_fields (D : ty -> bytes -> option (value * bytes)) (fields : list field)
           (env : list (string * N)) (bs : bytes) : option (list (string * value) * bytes) :=
    match fields with
    | [] => Some ([], bs)
    | f :: fields' =>
        opt p <- present env f;
        if negb p || is_true_ty (fty f) then dec_fields D fields' env bs else
        opt (v, r) <- D (fty f) bs;
        opt (fs', r') <- dec_fields D fields' (env_add f v env) r;
        Some ((lbl nm (fname f), v) :: fs', r')
    end.
End Fields.

(** * The codec of a schema *)
Section Codec.
  Variable nm : naming.
  Variable sch : schema.

  Definition find_ctor (c : string) : option decl :=
    find (fun d => String.eqb (dname d) c) sch.
  Definition ctors_of (T : string) : list decl :=
    filter (fun d => String.eqb (dres d) T) sch.

  Definition two32 : N := 4294967296.
  Definition two64 : N := 18446744073709551616.
  Definition two24 : N := 16777216.

  (* [fuel] bounds the nesting depth of the value; a result never depends on
     it (TlWireP.enc_fuel_mono / dec_fuel_mono) *)
  Fixpoint enc (fuel : nat) (t : ty) (v : value) {struct fuel} : option bytes :=
    match fuel with
    | O => None
    | S k =>
      match t, v with
      | TInt, VNum n | TNat, VNum n => if n <? two32 then Some (le_bytes 4 n) else None
      | TLong, VNum n => if n <? two64 then Some (le_bytes 8 n) else None
      | TInt256, VBytes b =>
          if Nat.eqb (length b) 32 && all_bytes b then Some b else None
      | TBytes, VBytes b | TString, VBytes b =>
          if all_bytes b && (N.of_nat (length b) <? two24) then Some (enc_bytes b) else None
      | TBool, VBool b => Some (enc_bool b)
      | TVector t', VVec vs =>
          if N.of_nat (length vs) <? two32 then
            opt e <- enc_list (enc k t') vs;
            Some (le_bytes 4 (N.of_nat (length vs)) ++ e)
          else None
      | TBare c, VRec c' fs =>
          opt d <- find_ctor c;
          if String.eqb c' (blbl nm d) then enc_fields nm (enc k) (dfields d) fs [] else None
      | TBoxed T, VRec c' fs =>
          opt d <- find (fun d => String.eqb c' (xlbl nm d)) (ctors_of T);
          if did d <? two32 then
            opt e <- enc_fields nm (enc k) (dfields d) fs [];
            Some (le_bytes 4 (did d) ++ e)
          else None
      | _, _ => None
      end
    end.

  Fixpoint dec (fuel : nat) (t : ty) (bs : bytes) {struct fuel} : option (value * bytes) :=
    match fuel with
    | O => None
    | S k =>
      match t with
      | TInt | TNat => opt (a, r) <- split_at 4 bs; Some (VNum (le_num a), r)
      | TLong => opt (a, r) <- split_at 8 bs; Some (VNum (le_num a), r)
      | TInt256 => opt (a, r) <- split_at 32 bs; Some (VBytes a, r)
      | TBytes | TString => opt (b, r) <- dec_bytes bs; Some (VBytes b, r)
      | TBool =>
          opt (a, r) <- split_at 4 bs;
          if le_num a =? bool_true_id then Some (VBool true, r)
          else if le_num a =? bool_false_id then Some (VBool false, r)
          else None
      | TTrue => None
      | TVector t' =>
          opt (a, r) <- split_at 4 bs;
          opt (vs, r') <- dec_count (dec k t') (le_num a) r;
          Some (VVec vs, r')
      | TBare c =>
          opt d <- find_ctor c;
          opt (fs, r) <- dec_fields nm (dec k) (dfields d) [] bs;
          Some (VRec (blbl nm d) fs, r)
      | TBoxed T =>
          opt (a, r) <- split_at 4 bs;
          opt d <- find (fun d => did d =? le_num a) (ctors_of T);
          opt (fs, r') <- dec_fields nm (dec k) (dfields d) [] r;
          Some (VRec (xlbl nm d) fs, r')
      end
    end.
End Codec.

(** nesting depth of a value: the fuel [enc]/[dec] need for it *)
Fixpoint value_depth (v : value) : nat :=
  match v with
  | VVec l => S (fold_right (fun x m => Nat.max (value_depth x) m) O l)
  | VRec _ fs => S ((fix go (l : list (string * value)) : nat :=
                       match l with
                       | [] => O
                       | (_, x) :: t => Nat.max (value_depth x) (go t)
                       end) fs)
  | _ => 1%nat
  end.

(** The two functions of the property's statement.  [tl_fuel] exceeds the depth
    of every value of an acyclic schema with fewer than 30 levels of nesting
    (lite_api.tl has 5); the theorems are stated for every fuel. *)
Definition tl_fuel : nat := 64.
Definition tl_encode (nm : naming) (sch : schema) (t : ty) (v : value) : option bytes :=
  enc nm sch tl_fuel t v.
Definition tl_decode (nm : naming) (sch : schema) (t : ty) (bs : bytes) : option (value * bytes) :=
  dec nm sch tl_fuel t bs.

(** Functions: a request is the 32-bit id of the function line followed by its
    arguments (laid out like the fields of a constructor); the answer is a boxed
    value of the result type. *)
Definition enc_args (nm : naming) (sch : schema) (fuel : nat) (f : decl) (v : value) : option bytes :=
  match v with
  | VRec c fs =>
      if String.eqb c (blbl nm f) then enc_fields nm (enc nm sch fuel) (dfields f) fs [] else None
  | _ => None
  end.
Definition dec_args (nm : naming) (sch : schema) (fuel : nat) (f : decl) (bs : bytes)
  : option (value * bytes) :=
  opt (fs, r) <- dec_fields nm (dec nm sch fuel) (dfields f) [] bs;
  Some (VRec (blbl nm f) fs, r).
Definition tl_request (nm : naming) (sch : schema) (f : decl) (v : value) : option bytes :=
  if did f <? two32 then
    opt a <- enc_args nm sch tl_fuel f v; Some (le_bytes 4 (did f) ++ a)
  else None.
Definition tl_request_decode (nm : naming) (sch : schema) (f : decl) (bs : bytes)
  : option (value * bytes) :=
  opt (a, r) <- split_at 4 bs;
  if le_num a =? did f then dec_args nm sch tl_fuel f r else None.

(** * Well-formedness of a schema (checked on the translated schema) *)
Fixpoint nodup_N (l : list N) : bool :=
  match l with [] => true | a :: t => negb (existsb (N.eqb a) t) && nodup_N t end.
Fixpoint nodup_str (l : list string) : bool :=
  match l with [] => true | a :: t => negb (existsb (String.eqb a) t) && nodup_str t end.

(* constructor ids pairwise distinct within each boxed type *)
Definition ids_distinct (sch : schema) : bool :=
  forallb (fun d => nodup_N (map did (ctors_of sch (dres d)))) sch.

(* every [m.N?] refers to an earlier unconditional [#] field, N <= 31 *)
Fixpoint conds_ok (seen : list string) (fields : list field) : bool :=
  match fields with
  | [] => true
  | f :: t =>
      match fcond f with
      | None => true
      | Some (m, n) => existsb (String.eqb m) seen && (n <=? 31)
      end &&
      conds_ok (match fty f, fcond f with TNat, None => fname f :: seen | _, _ => seen end) t
  end.
Definition decl_ok (d : decl) : bool :=
  conds_ok [] (dfields d) && nodup_str (map fname (dfields d)) && (did d <? two32).
