(** Specification side of C05, written from the TON TL-B schema, not from the Go code:

      hm_edge#_ {n:#} {X:Type} {l:#} {m:#} label:(HmLabel ~l n) {n = (~m) + l}
                node:(HashmapNode m X) = Hashmap n X;
      hmn_leaf#_ {X:Type} value:X = HashmapNode 0 X;
      hmn_fork#_ {n:#} {X:Type} left:^(Hashmap n X) right:^(Hashmap n X) = HashmapNode (n + 1) X;
      hml_short$0  {m:#} {n:#} len:(Unary ~n) {n <= m} s:(n * Bit) = HmLabel ~n m;
      hml_long$10  {m:#} n:(#<= m) s:(n * Bit) = HmLabel ~n m;
      hml_same$11  {m:#} v:Bit n:(#<= m) = HmLabel ~n m;
      hme_empty$0 / hme_root$1 root:^(Hashmap n X) = HashmapE n X;

    Keys are bit lists of a fixed length n.  The abstract dictionary is an
    association list strictly sorted by key in lexicographic bit order.  A
    Patricia tree [pt] is the shape of a serialised dictionary; [apt] is a
    Patricia tree in which every edge additionally carries the label form
    chosen by whoever serialised it; [cells_of] is the serialisation. *)
From Coq Require Import List NArith Arith Lia Bool Sorted.
From Tongo Require Import Lib.Bits Lib.Res.
Import ListNotations.

(** ** lexicographic bit order *)
Fixpoint bits_cmp (a b : bits) : comparison :=
  match a, b with
  | [], [] => Eq
  | [], _ :: _ => Lt
  | _ :: _, [] => Gt
  | x :: a', y :: b' =>
      match x, y with
      | false, true => Lt
      | true, false => Gt
      | _, _ => bits_cmp a' b'
      end
  end.

Definition bits_ltb (a b : bits) : bool :=
  match bits_cmp a b with Lt => true | _ => false end.
Definition bits_eqb (a b : bits) : bool :=
  match bits_cmp a b with Eq => true | _ => false end.
Definition bits_lt (a b : bits) : Prop := bits_cmp a b = Lt.

(** ** abstract cells: at most 1023 data bits and 4 references *)
Inductive cell := Cell (cbits : bits) (crefs : list cell).

Definition mk_cell (b : bits) (rs : list cell) : res cell :=
  if (1023 <? length b)%nat then Err EOverflow
  else if (4 <? length rs)%nat then Err ERefsOverflow
  else Ok (Cell b rs).

(** ** label forms *)
Inductive form := FShort | FLong | FSame (b : bool).

(** width of a [#<= m] field *)
Definition lim_width (m : nat) : nat := N.to_nat (N.size (N.of_nat m)).

Definition hml_short (lbl : bits) : bits := false :: ones (length lbl) ++ false :: lbl.
Definition hml_long (m : nat) (lbl : bits) : bits :=
  true :: false :: bits_of (lim_width m) (N.of_nat (length lbl)) ++ lbl.
Definition hml_same (m : nat) (b : bool) (len : nat) : bits :=
  true :: true :: b :: bits_of (lim_width m) (N.of_nat len).

Definition enc_label (f : form) (m : nat) (lbl : bits) : bits :=
  match f with
  | FShort => hml_short lbl
  | FLong => hml_long m lbl
  | FSame b => hml_same m b (length lbl)
  end.

(** the same-bit form can only express constant labels (the empty label with
    either bit); the other two express every label of length <= m *)
Definition form_valid (f : form) (lbl : bits) : Prop :=
  match f with FSame b => lbl = repeat b (length lbl) | _ => True end.

Definition form_validb (f : form) (lbl : bits) : bool :=
  match f with FSame b => forallb (Bool.eqb b) lbl | _ => true end.

Section Dict.
Variable V : Type.

Definition amap := list (bits * V).

Definition key_lt (p q : bits * V) : Prop := bits_lt (fst p) (fst q).
Definition sorted (m : amap) : Prop := StronglySorted key_lt m.
Definition keys_len (n : nat) (m : amap) : Prop := Forall (fun p => length (fst p) = n) m.

Fixpoint lookup (k : bits) (m : amap) : option V :=
  match m with
  | [] => None
  | (k', v) :: t => if bits_eqb k' k then Some v else lookup k t
  end.

(** update of the abstract map: sorted insertion / replacement *)
Fixpoint update (k : bits) (v : V) (m : amap) : amap :=
  match m with
  | [] => [(k, v)]
  | (k', v') :: t =>
      match bits_cmp k k' with
      | Lt => (k, v) :: m
      | Eq => (k, v) :: t
      | Gt => (k', v') :: update k v t
      end
  end.

(** prepend a prefix to every key *)
Definition addp (p : bits) (m : amap) : amap := map (fun kv => (p ++ fst kv, snd kv)) m.

(** ** Patricia trees *)
Inductive pt := Leaf (lbl : bits) (v : V) | Fork (lbl : bits) (l r : pt).

Fixpoint tree_to_list (p : bits) (t : pt) : amap :=
  match t with
  | Leaf lbl v => [(p ++ lbl, v)]
  | Fork lbl l r => tree_to_list (p ++ lbl ++ [false]) l ++ tree_to_list (p ++ lbl ++ [true]) r
  end.

(** [wf_pt n t]: every root-to-leaf path spells exactly n key bits *)
Fixpoint wf_pt (n : nat) (t : pt) : Prop :=
  match t with
  | Leaf lbl _ => length lbl = n
  | Fork lbl l r =>
      (length lbl < n)%nat /\ wf_pt (n - length lbl - 1) l /\ wf_pt (n - length lbl - 1) r
  end.

(** trees with a label form per edge *)
Inductive apt :=
| ALeaf (f : form) (lbl : bits) (v : V)
| AFork (f : form) (lbl : bits) (l r : apt).

Fixpoint erase (t : apt) : pt :=
  match t with
  | ALeaf _ lbl v => Leaf lbl v
  | AFork _ lbl l r => Fork lbl (erase l) (erase r)
  end.

Fixpoint forms_valid (t : apt) : Prop :=
  match t with
  | ALeaf f lbl _ => form_valid f lbl
  | AFork f lbl l r => form_valid f lbl /\ forms_valid l /\ forms_valid r
  end.

(** ** serialisation [Hashmap m X]: the value follows the label in the leaf cell;
    a value is some bits plus some references *)
Variable venc : V -> bits * list cell.

Fixpoint cells_of (m : nat) (t : apt) : res cell :=
  match t with
  | ALeaf f lbl v => mk_cell (enc_label f m lbl ++ fst (venc v)) (snd (venc v))
  | AFork f lbl l r =>
      do lc <- cells_of (m - length lbl - 1) l;
      do rc <- cells_of (m - length lbl - 1) r;
      mk_cell (enc_label f m lbl) [lc; rc]
  end.

(** [HashmapE n X] *)
Definition cells_of_e (n : nat) (t : option apt) : res cell :=
  match t with
  | None => mk_cell [false] []
  | Some t => do c <- cells_of n t; mk_cell [true] [c]
  end.

End Dict.

Arguments Leaf {V}. Arguments Fork {V}.
Arguments ALeaf {V}. Arguments AFork {V}.
Arguments tree_to_list {V}. Arguments wf_pt {V}. Arguments erase {V}.
Arguments forms_valid {V}. Arguments cells_of {V}. Arguments cells_of_e {V}.
Arguments addp {V}. Arguments lookup {V}. Arguments update {V}.
Arguments sorted {V}. Arguments keys_len {V}. Arguments key_lt {V}.
