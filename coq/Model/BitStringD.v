(** Derived bit strings of boc/bitString.go, byte-faithful about the buffer of
    the RESULT: ReadBits / ReadRemainingBits / Copy / Grow / Append /
    ToFiftHex / GetTopUppedArray.

    [Model.BitString.read_bits] returns the ideal bit list of the result.  Here
    the result is a [bs] with the buffer the Go code really builds.  The
    byte-aligned fast path of ReadBits copies whole bytes and then clears the
    bits of the last byte past n (repair "fix: ReadBits clears the bits past the
    requested length ..."; before it the last byte kept the source's following
    bits, see Proofs/C06History.v).  Bits past [len] can still be anything:
    On(n) / Off(n) are exported and write any position below cap without
    touching len ([set_bit]), Copy keeps them, Grow leaves them.  Every function
    that later writes into such a string (Append, WriteBitString, the
    completion tag and padding of ToFiftHex / GetTopUppedArray) goes through
    WriteBit, which must clear the bit when it writes [false].

    The functions are parameterised by the single-bit writer [wb] so that the
    same definitions can be instantiated with the real WriteBit
    ([Model.BitString.write_bit]) and, in Proofs/C06History.v, with a writer
    that does not clear. *)
From Coq Require Import List NArith Arith Bool.
From Tongo Require Import Lib.Bits Lib.Res Model.BitString.
Import ListNotations.

Section Writer.
  Variable wb : bool -> bs -> bs * res unit.     (* WriteBit *)

  Fixpoint write_bits_g (l : bits) (s : bs) : bs * res unit :=
    match l with
    | [] => (s, Ok tt)
    | b :: t =>
        match wb b s with
        | (s', Ok _) => write_bits_g t s'
        | r => r
        end
    end.

  (* WriteBitString(a): the first len bits of a *)
  Definition write_bitstring_g (a : bs) (s : bs) : bs * res unit :=
    if short (len a) (buf a) then (s, Panic PIndex)   (* unreachable under Inv *)
    else write_bits_g (firstn (len a) (buf a)) s.

  (* ReadBits(n), the returned BitString *)
  Definition read_bits_bs_g (n : nat) (s : bs) : bs * res bs :=
    if avail_read s <? n then (s, Err ENotEnoughBits)
    else if (rcur s mod 8 =? 0)%nat then
      (* bitString := NewBitString(n); copy(bitString.buf, s.buf[c : c+len(bitString.buf)]) *)
      if short (8 * (rcur s / 8 + nbytes n)) (buf s) then (s, Panic PSlice)
      else (set_rcur s (rcur s + n),
            (* ... and the bits of the last byte past n are cleared:
               buf[last] &= 0xFF << (8 - n%8) *)
            Ok (mkbs (firstn n (skipn (8 * (rcur s / 8)) (buf s)) ++ zeros (8 * nbytes n - n)) n n 0))
    else
      (* bit loop: ReadBit / bitString.WriteBit *)
      if short (rcur s + n) (buf s) then (s, Panic PIndex)
      else match write_bits_g (firstn n (skipn (rcur s) (buf s))) (new_bs n) with
           | (r, Ok _) => (set_rcur s (rcur s + n), Ok r)
           | (_, Err e) => (s, Err e)
           | (_, Panic p) => (s, Panic p)
           end.

  (* ReadRemainingBits: bs, _ := s.ReadBits(s.BitsAvailableForRead()) *)
  Definition read_remaining_bs_g (s : bs) : bs * bs :=
    match read_bits_bs_g (avail_read s) s with
    | (s', Ok r) => (s', r)
    | (s', _) => (s', mkbs [] 0 0 0)
    end.

  (* On(n) / Off(n): range check against cap, then the bit is set in place;
     len is not touched (n may lie before or after it) *)
  Definition set_bit (n : nat) (v : bool) (s : bs) : bs * res unit :=
    if cap s <=? n then (s, Err EOverflow)
    else match set_nth_opt n v (buf s) with
         | None => (s, Panic PIndex)
         | Some b' => (mkbs b' (cap s) (len s) (rcur s), Ok tt)
         end.

  (* Copy: same bytes, read cursor 0 *)
  Definition copy_bs (s : bs) : bs := mkbs (buf s) (cap s) (len s) 0.

  (* Grow(k): append(buf, make([]byte, k/8+1)...); cap += k *)
  Definition grow (k : nat) (s : bs) : bs :=
    mkbs (buf s ++ zeros (8 * (k / 8 + 1))) (cap s + k) (len s) (rcur s).

  (* s.Append(b): the error of WriteBitString is dropped, a panic is not *)
  Definition append_g (b : bs) (s : bs) : bs * res unit :=
    let need := (len b - avail_write s)%nat in
    let s1 := if (0 <? need)%nat then grow need s else s in
    match write_bitstring_g b s1 with
    | (s2, Err _) => (s2, Ok tt)
    | r => r
    end.

  (* strings.ToUpper(hex.EncodeToString(buf[0:(len+7)/8])), last digit dropped
     when len mod 8 = 4; only called with len mod 4 = 0 *)
  Definition hex_of_buf (s : bs) : res (list N) :=
    if short (8 * nbytes (len s)) (buf s) then Panic PSlice
    else Ok (nibbles (len s) (firstn (len s) (buf s))).

  (* ToFiftHex: (digits, has_underscore) *)
  Definition to_fift_bs_g (s : bs) : res (list N * bool) :=
    if (len s mod 4 =? 0)%nat then res_map (fun d => (d, false)) (hex_of_buf s)
    else
      let k := (4 - len s mod 4)%nat in
      let t := grow k (copy_bs s) in
      match wb true t with
      | (_, Panic p) => Panic p
      | (t1, _) =>
          match write_bits_g (zeros (k - 1)) t1 with
          | (_, Panic p) => Panic p
          | (t2, _) => res_map (fun d => (d, true)) (hex_of_buf t2)
          end
      end.

  (* GetTopUppedArray: completion tag 1 0* up to the byte boundary, written
     into a Copy WITHOUT growing it *)
  Definition top_upped_g (s : bs) : res (list N) :=
    let r := copy_bs s in
    let tu := (8 * nbytes (len s) - len s)%nat in
    match (if (0 <? tu)%nat then write_bits_g (true :: zeros (tu - 1)) r else (r, Ok tt)) with
    | (r', Ok _) =>
        if short (8 * nbytes (len r')) (buf r') then Panic PSlice
        else Ok (bytes_of_bits (nbytes (len r')) (buf r'))
    | (_, Err e) => Err e
    | (_, Panic p) => Panic p
    end.
End Writer.

(** the real code: WriteBit = On/Off + len++ *)
Definition read_bits_bs := read_bits_bs_g write_bit.
Definition read_remaining_bs := read_remaining_bs_g write_bit.
Definition append_bs := append_g write_bit.
Definition to_fift_bs := to_fift_bs_g write_bit.
Definition top_upped := top_upped_g write_bit.
