(** Model of the memoisation of cell hashing (C02): the map [cache] that
    boc/immutable_cell.go newImmutableCell consults on entry and writes at the
    very end, and boc/hasher.go (Hasher.Hash, Hasher.HashString with its second
    map [cacheHex]).  Cells are the indices of a cell array in BOC order (the
    pointer identity of the Go maps); what the code records is recorded here:
    - [cache[c] = imm] only after ALL hashes and depths of c are computed; the
      entries of the children built before a failure stay;
    - [cacheHex[c] = hex] only after a successful Hash.
    [early = true] is the register-before-build variant (the entry is written
    before descending into the references and completed in place at the end):
    it is NOT the code; Proofs/C02History.v shows why it must not be. *)
From Coq Require Import List NArith Arith Bool.
From Tongo Require Import Lib.Bits Lib.Res Model.BocParse Model.CellHash.
Import ListNotations.

Definition cache := list (nat * imm).

Fixpoint cache_get {A} (c : list (nat * A)) (i : nat) : option A :=
  match c with
  | [] => None
  | (k, v) :: t => if Nat.eqb k i then Some v else cache_get t i
  end.

(* the loop over c.refs: stops at the first failing reference; the cache keeps
   what the references built so far have recorded *)
Fixpoint refs_loop (rec : cache -> nat -> cache * res imm) (ch : cache) (rs : list nat)
  : cache * res (list imm) :=
  match rs with
  | [] => (ch, Ok [])
  | r :: t =>
      let '(ch1, x) := rec ch r in
      match x with
      | Ok im => let '(ch2, xs) := refs_loop rec ch1 t in (ch2, do l <- xs; Ok (im :: l))
      | Err e => (ch1, Err e)
      | Panic p => (ch1, Panic p)
      end
  end.

Section C.
Variable H : bytes -> bytes.
Variable early : bool.
Variable cells : list node.

(* the half-built value the early variant registers: no hashes, no depths *)
Definition half_built (nd : node) : imm :=
  mkimm (n_special nd) (n_type nd) (n_mask nd) (n_bits nd) 0 [] [].

(* newImmutableCell(c, cache).  Fuel: the recursion follows references, which
   point forward in a cell array; [S (length cells)] always suffices. *)
Fixpoint new_imm_gen (fuel : nat) (ch : cache) (i : nat) : cache * res imm :=
  match fuel with
  | O => (ch, Err EFuel)
  | S f =>
      match cache_get ch i with
      | Some im => (ch, Ok im)                                (* if imm, ok := cache[c]; ok *)
      | None =>
          match nth_error cells i with
          | None => (ch, Panic PNil)
          | Some nd =>
              let ch0 := if early then (i, half_built nd) :: ch else ch in
              let '(ch1, rr) := refs_loop (new_imm_gen f) ch0 (n_refs nd) in
              match rr with
              | Ok refs =>
                  match build_imm H (n_special nd) (n_type nd) (n_mask nd) (n_bits nd) refs with
                  | Ok im => ((i, im) :: ch1, Ok im)          (* cache[c] = imm; return imm, nil *)
                  | Err e => (ch1, Err e)                     (* return nil, ErrDepthIsTooBig *)
                  | Panic p => (ch1, Panic p)
                  end
              | Err e => (ch1, Err e)
              | Panic p => (ch1, Panic p)
              end
          end
      end
  end.

(** boc.Hasher *)
Record hasher := mkhasher { h_cache : cache; h_hex : list (nat * bytes) }.
Definition new_hasher : hasher := mkhasher [] [].

(* Hasher.Hash(c) = c.hash(h.cache): newImmutableCell, then Hash(maxLevel) *)
Definition hasher_hash (st : hasher) (i : nat) : hasher * res bytes :=
  let '(ch, r) := new_imm_gen (S (length cells)) (h_cache st) i in
  (mkhasher ch (h_hex st), do im <- r; cell_hash im).

(* Hasher.HashString(c); the hex string is modelled by the hash bytes *)
Definition hasher_hash_string (st : hasher) (i : nat) : hasher * res bytes :=
  match cache_get (h_hex st) i with
  | Some s => (st, Ok s)
  | None =>
      let '(st1, r) := hasher_hash st i in
      match r with
      | Ok s => (mkhasher (h_cache st1) ((i, s) :: h_hex st1), Ok s)
      | _ => (st1, r)
      end
  end.

Inductive hop := OpHash (i : nat) | OpHashString (i : nat).

Definition hasher_step (st : hasher) (o : hop) : hasher * res bytes :=
  match o with
  | OpHash i => hasher_hash st i
  | OpHashString i => hasher_hash_string st i
  end.

(* a history of requests on ONE hasher: the list of answers *)
Fixpoint hasher_run (st : hasher) (ops : list hop) : list (res bytes) :=
  match ops with
  | [] => []
  | o :: t => let '(st1, r) := hasher_step st o in r :: hasher_run st1 t
  end.

(** what a request answers when nothing was asked before: Cell.Hash() (a fresh
    map per call), i.e. the evaluation of CellHash.eval_dag *)
Definition fresh_imm (i : nat) : res imm :=
  match nth_error (eval_dag H 0 cells) i with Some r => r | None => Panic PNil end.
Definition fresh_hash (i : nat) : res bytes := do im <- fresh_imm i; cell_hash im.
Definition fresh_op (o : hop) : res bytes :=
  match o with OpHash i => fresh_hash i | OpHashString i => fresh_hash i end.

End C.
