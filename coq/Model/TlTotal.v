(** C08, TL side: panic / allocation / step annotated model of tl/decoder.go
    AFTER the F12 repairs (decodeVector pre-allocates at most maxPrealloc = 4096
    items, readByteSlice reads an announced length above 4096 through a growing
    buffer), run over the same type descriptors and mini-language of generated
    UnmarshalTL bodies as Model/Tl.v (types only are shared with that file).

    The reader is a *bytes.Reader.  Every Go operation that can panic carries
    its panic condition ([mk] = make / reflect.MakeSlice above maxAlloc).
    [t_alloc] adds up the bytes requested by every modelled allocation:
      - reflect.New(val.Type()) at the head of every tl.decode call,
      - the 4/8-byte scratch buffers, sizeBuf, the data buffer of a byte string
        (exactly n up to 4096; above that the doubling of bytes.Buffer, estimated
        from above by 4 x bytes actually read + 2048),
      - the item and the pre-allocated backing array of a vector, and for every
        reflect.Append an amortised 6 x element size (upper estimate of
        growslice's 1.25x policy incl. size-class rounding),
      - the heap copy of a temporary whose address is stored in an optional field.
    [t_steps] counts tl.decode invocations (each performs at most 7 reader
    calls and no loop other than the modelled ones). *)
From Coq Require Import String List NArith PArith Arith Lia Bool.
From Tongo Require Import Lib.Bits Lib.Res Spec.TlWire Model.Tl.
Import ListNotations.
Local Open Scope N_scope.

Record tst := mktst { t_inp : bytes; t_alloc : N; t_steps : N }.
Definition T (A : Type) := tst -> res A * tst.
Definition tret {A} (a : A) : T A := fun s => (Ok a, s).
Definition tfail {A} (e : N) : T A := fun s => (Err e, s).
Definition tbind {A B} (m : T A) (k : A -> T B) : T B :=
  fun s => match m s with
           | (Ok a, s') => k a s'
           | (Err e, s') => (Err e, s')
           | (Panic p, s') => (Panic p, s')
           end.
Notation "'dot' x <- m ; k" := (tbind m (fun x => k))
  (at level 200, x pattern, m at level 100, k at level 200, right associativity).

Definition tlen (s : tst) : N := N.of_nat (length (t_inp s)).

(* io.ReadFull(r, buf), len(buf) = n: all or error (the reader is drained) *)
Definition rd_full (n : nat) : T bytes :=
  fun s => if short n (t_inp s) then (Err EEof, mktst [] (t_alloc s) (t_steps s))
           else (Ok (firstn n (t_inp s)), mktst (skipn n (t_inp s)) (t_alloc s) (t_steps s)).
(* the count comes from the wire: compare before converting *)
Definition rd_fullN (n : N) : T bytes :=
  fun s => if tlen s <? n then (Err EEof, mktst [] (t_alloc s) (t_steps s))
           else rd_full (N.to_nat n) s.

Definition charge (n : N) : T unit :=
  fun s => (Ok tt, mktst (t_inp s) (t_alloc s + n) (t_steps s)).
Definition tick : T unit :=
  fun s => (Ok tt, mktst (t_inp s) (t_alloc s) (t_steps s + 1)).
(* make([]T, len, cap) / reflect.MakeSlice: panics above maxAlloc = 2^48 bytes *)
Definition mk (cap esz : N) : T unit :=
  fun s => if max_alloc <? cap * esz then (Panic PMakeSlice, s) else charge (cap * esz) s.

Definition max_prealloc : N := 4096.

(* readN (added by the repair) *)
(* data := make([]byte, n); io.ReadFull(r, data) *)
Definition mk_read (n : N) : T bytes := dot _ <- mk n 1; rd_fullN n.
Definition read_n (n : N) : T bytes :=
  if n <=? max_prealloc then mk_read n
  else
    (* bytes.Buffer + io.CopyN: grows with what arrives *)
    fun s => let (r, s') := rd_fullN n s in
             (r, mktst (t_inp s') (t_alloc s' + (4 * N.min n (tlen s) + 2048)) (t_steps s')).

(* readByteSlice *)
Definition read_byte_sliceT : T bytes :=
  dot fb <- rd_full 1;                                  (* readByte: var b [1]byte *)
  let first := le_num fb in
  if first <? 254 then
    dot data <- mk_read first;                          (* data = make([]byte, int(firstByte)); io.ReadFull *)
    dot _ <- rd_full (pad_of (1 + first));              (* for ; full%4 != 0; full++ { readByte } *)
    tret data
  else if first =? 254 then
    dot _ <- mk 4 1;                                    (* sizeBuf := make([]byte, 4) *)
    dot sz <- rd_full 3;                                (* io.ReadFull(r, sizeBuf[:3]) *)
    let n := le_num sz in
    dot data <- read_n n;
    dot _ <- rd_full (pad_of (4 + n));
    tret data
  else tfail EInvalid.

Definition append_charge (esz : N) : N := 6 * esz.

(* one iteration of the loop of decodeVector: decode(r, item), then
   reflect.Append — before the error is looked at *)
Definition vec_elem (D : T value) (esz : N) : T value :=
  fun s => let (r, s') := D s in
           (r, mktst (t_inp s') (t_alloc s' + append_charge esz) (t_steps s')).

(* [ln] iterations; binary recursion so that the 32-bit count from the wire
   never becomes a unary number *)
Fixpoint iter_posT (D : T value) (p : positive) (acc : list value) : T (list value) :=
  match p with
  | xH => dot v <- D; tret (v :: acc)
  | xO p' => dot acc' <- iter_posT D p' acc; iter_posT D p' acc'
  | xI p' => dot v <- D; dot acc' <- iter_posT D p' (v :: acc); iter_posT D p' acc'
  end.

(* decodeVector *)
Definition decode_vectorT (D : T value) (esz : N) : T value :=
  dot b <- rd_full 4;                                   (* var b [4]byte *)
  let ln := le_num b in
  dot _ <- charge esz;                                  (* item := reflect.New(elem) *)
  dot _ <- mk (N.min ln max_prealloc) esz;              (* reflect.MakeSlice(typ, 0, min(ln, maxPrealloc)) *)
  match ln with
  | N0 => tret (VVec [])
  | Npos p => dot acc <- iter_posT (vec_elem D esz) p []; tret (VVec (rev acc))
  end.

(* the Go type decoded by an access of a generated body *)
Definition acc_ty (sty : gty) (pre : list string) (a : access) : option (string * gty * bool) :=
  let '(path, tmp) := a in
  match last_of pre path with
  | None => None
  | Some f =>
      match tmp with
      | Some (tmpty, byptr) => Some (f, tmpty, byptr)
      | None => match field_ty sty path with Some ft => Some (f, ft, false) | None => None end
      end
  end.

Section UnmarshalT.
  Variable B : bindings.
  Variable D : gty -> T value.       (* tl.Unmarshal one level down *)

  Definition run_uaccessT (sty : gty) (pre : list string) (a : access) (r : record) : T record :=
    match acc_ty sty pre a with
    | None => tfail EModel
    | Some (f, ft, byptr) =>
        (* var tempF T ... t.F = &tempF: the temporary escapes to the heap *)
        dot _ <- charge (if byptr then gsize B ft else 0);
        dot v <- D ft; tret (r ++ [(f, v)])
    end.

  Fixpoint run_uaccessesT (sty : gty) (pre : list string) (l : list access) (r : record) : T record :=
    match l with
    | [] => tret r
    | a :: t => dot r' <- run_uaccessT sty pre a r; run_uaccessesT sty pre t r'
    end.

  Definition run_ustmtT (sty : gty) (pre : list string) (s : stmt) (r : record) : T record :=
    match s with
    | Field a => run_uaccessT sty pre a r
    | IfBit m n body =>
        if N.testbit (mode_of r m) n then run_uaccessesT sty pre body r else tret r
    | ReadTag id =>
        dot v <- D GU32;
        match v with VNum x => if x =? id then tret r else tfail EInvalid | _ => tfail EModel end
    | Self n =>
        dot v <- D (GNamed n);
        match v with VRec _ fs => tret fs | _ => tfail EModel end
    | WriteTag _ | Unrecognised _ => tfail EModel
    end.

  Fixpoint run_ustmtsT (sty : gty) (pre : list string) (ss : list stmt) (r : record) : T record :=
    match ss with
    | [] => tret r
    | s :: t => dot r' <- run_ustmtT sty pre s r; run_ustmtsT sty pre t r'
    end.

  Definition run_unmarshalT (b : binding) : T value :=
    match b_unmarshal b with
    | UPlain ss => dot r <- run_ustmtsT (b_type b) [] ss []; tret (VRec "" r)
    | USwitch cs =>
        dot tb <- rd_full 4;                            (* var b [4]byte; io.ReadFull(r, b[:]) *)
        match find_ucase (le_num tb) cs with
        | Some (c, ss) => dot r <- run_ustmtsT (b_type b) [c] ss []; tret (VRec c r)
        | None => tfail EInvalid
        end
    end.

  (* decodeBasicStruct: struct kinds without UnmarshalTL *)
  Fixpoint dec_structT (fs : list (string * gty)) (r : record) : T record :=
    match fs with
    | [] => tret r
    | (f, ft) :: t => dot v <- D ft; dec_structT t (r ++ [(f, v)])
    end.
End UnmarshalT.

(* tl.Unmarshal(r, &x) for x of Go type t *)
Fixpoint gdecT (B : bindings) (fuel : nat) (t : gty) {struct fuel} : T value :=
  match fuel with
  | O => tfail EFuel
  | S k =>
    dot _ <- tick;
    dot _ <- charge (gsize B t);                         (* reflect.New(val.Type()).Interface().(UnmarshalerTL) *)
    match t with
    | GU32 => dot _ <- mk 4 1; dot b <- rd_full 4; tret (VNum (le_num b))
    | GU64 => dot _ <- mk 8 1; dot b <- rd_full 8; tret (VNum (le_num b))
    | GBool =>
        dot _ <- mk 4 1; dot b <- rd_full 4;
        if le_num b =? 0x997275b5 then tret (VBool true)
        else if le_num b =? 0xbc799737 then tret (VBool false)
        else tfail EInvalid
    | GBytes | GString => dot b <- read_byte_sliceT; tret (VBytes b)
    | GInt256 => dot b <- rd_full 32; tret (VBytes b)    (* Int256.UnmarshalTL: var b [32]byte *)
    | GSlice e => decode_vectorT (gdecT B k e) (gsize B e)
    | GNamed n =>
        match find_binding B n with
        | Some b => run_unmarshalT B (gdecT B k) b
        | None => tfail EModel
        end
    | GStruct fs => dot r <- dec_structT (gdecT B k) fs []; tret (VRec "" r)
    | GPtr _ => tfail EOther     (* kind Pointer: "type ptr not implemented" *)
    | GSumTag | GOther _ => tfail EModel
    end
  end.

Definition tst0 (bs : bytes) : tst := mktst bs 0 0.
(* tl.Unmarshal(bytes.NewReader(bs), &x) *)
Definition tl_unmarshal (B : bindings) (fuel : nat) (t : gty) (bs : bytes) : res value * tst :=
  gdecT B fuel t (tst0 bs).

(** * Static cost of a type: what the theorems are stated with.
    [ww]: least number of wire bytes a successful decode consumes;
    [kk]: allocation + steps of a successful decode that is NOT proportional to
          the bytes consumed (fixed per occurrence of the type);
    [ee]: the same for a failing decode (includes the bounded pre-allocations);
    [sok rate]: the schema condition — every vector element pays for its fixed cost
          and backing-array share with its own wire bytes at [rate], element
          sizes keep 4096 items below maxAlloc, and the fuel suffices. *)
Section Static.
  Variable B : bindings.

  Definition own (t : gty) : N := 1 + gsize B t.
  Definition maxl (l : list N) : N := fold_right N.max 0 l.
  Definition suml (l : list N) : N := fold_right N.add 0 l.
  Definition minl (l : list N) : N :=
    match l with [] => 0 | x :: r => fold_right N.min x r end.

  Section Level.
    Variable F : gty -> N.      (* the quantity one level down *)
    Variable cond : bool.       (* count the fields under an if? *)
    Variable ptrw : bool.       (* count the heap copy of temporaries? *)

    Definition acc_q (sty : gty) (pre : list string) (a : access) : N :=
      match acc_ty sty pre a with
      | None => 0
      | Some (_, ft, byptr) => (if ptrw && byptr then gsize B ft else 0) + F ft
      end.
    Definition stmt_q (sty : gty) (pre : list string) (s : stmt) : N :=
      match s with
      | Field a => acc_q sty pre a
      | IfBit _ _ body => if cond then suml (map (acc_q sty pre) body) else 0
      | ReadTag _ => F GU32
      | Self n => F (GNamed n)
      | WriteTag _ | Unrecognised _ => 0
      end.
    Definition stmts_q (sty : gty) (pre : list string) (ss : list stmt) : N :=
      suml (map (stmt_q sty pre) ss).
  End Level.

  Fixpoint ww (fuel : nat) (t : gty) : N :=
    match fuel with
    | O => 0
    | S k =>
      match t with
      | GU32 | GBool | GBytes | GString | GSlice _ => 4
      | GU64 => 8
      | GInt256 => 32
      | GNamed n =>
          match find_binding B n with
          | Some b => match b_unmarshal b with
                      | UPlain ss => stmts_q (ww k) false false (b_type b) [] ss
                      | USwitch cs =>
                          4 + minl (map (fun c => stmts_q (ww k) false false (b_type b) [snd (fst c)] (snd c)) cs)
                      end
          | None => 0
          end
      | GStruct fs => suml (map (fun f => ww k (snd f)) fs)
      | _ => 0
      end
    end.

  Definition bytes_err : N := 4 + 4096.

  Fixpoint kk (fuel : nat) (t : gty) : N :=
    match fuel with
    | O => 0
    | S k =>
      own t +
      match t with
      | GU32 | GBool | GBytes | GString => 4
      | GU64 => 8
      | GSlice e => gsize B e
      | GNamed n =>
          match find_binding B n with
          | Some b => match b_unmarshal b with
                      | UPlain ss => stmts_q (kk k) true true (b_type b) [] ss
                      | USwitch cs => maxl (map (fun c => stmts_q (kk k) true true (b_type b) [snd (fst c)] (snd c)) cs)
                      end
          | None => 0
          end
      | GStruct fs => suml (map (fun f => kk k (snd f)) fs)
      | _ => 0
      end
    end.

  (* in a sequence the fields before the failing one have succeeded: k + e of
     every position is a simple upper bound of every prefix-then-fail sum *)
  Fixpoint ee (fuel : nat) (t : gty) : N :=
    match fuel with
    | O => 0
    | S k =>
      own t +
      match t with
      | GU32 | GBool => 4
      | GU64 => 8
      | GBytes | GString => bytes_err
      | GSlice e => gsize B e + max_prealloc * gsize B e + append_charge (gsize B e) + ee k e
      | GNamed n =>
          let q := fun x => kk k x + ee k x in
          match find_binding B n with
          | Some b => match b_unmarshal b with
                      | UPlain ss => stmts_q q true true (b_type b) [] ss
                      | USwitch cs => maxl (map (fun c => stmts_q q true true (b_type b) [snd (fst c)] (snd c)) cs)
                      end
          | None => 0
          end
      | GStruct fs => suml (map (fun f => kk k (snd f) + ee k (snd f)) fs)
      | _ => 0
      end
    end.

  Section Ok.
    Variable rate : N.
    Section OkLevel.
      Variable F : gty -> bool.
      Definition acc_ok (sty : gty) (pre : list string) (a : access) : bool :=
        match acc_ty sty pre a with None => true | Some (_, ft, _) => F ft end.
      Definition stmt_ok (sty : gty) (pre : list string) (s : stmt) : bool :=
        match s with
        | Field a => acc_ok sty pre a
        | IfBit _ _ body => forallb (acc_ok sty pre) body
        | ReadTag _ => F GU32
        | Self n => F (GNamed n)
        | WriteTag _ | Unrecognised _ => true
        end.
    End OkLevel.

    Fixpoint sok (fuel : nat) (t : gty) : bool :=
      match fuel with
      | O => false
      | S k =>
        match t with
        | GSlice e =>
            sok k e
            && (kk k e + (1 + append_charge 1) * gsize B e <=? rate * ww k e)
            && (max_prealloc * gsize B e <=? max_alloc)
        | GNamed n =>
            match find_binding B n with
            | Some b => match b_unmarshal b with
                        | UPlain ss => forallb (stmt_ok (sok k) (b_type b) []) ss
                        | USwitch cs => forallb (fun c => forallb (stmt_ok (sok k) (b_type b) [snd (fst c)]) (snd c)) cs
                        end
            | None => true
            end
        | GStruct fs => forallb (fun f => sok k (snd f)) fs
        | _ => true
        end
      end.
  End Ok.
End Static.

(* slope of the linear bounds at a given nesting budget *)
Definition base_slope : N := 5.
Definition slope (rate : N) (fuel : nat) : N := base_slope + rate * N.of_nat fuel.
