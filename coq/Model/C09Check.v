(** C09: the decidable check run on every (schema, generated program) pair.

    TL.  A program is what harness/tlx (the go/ast extractor of C10) reads off
    the Go source tl/parser produced: bindings B (type + MarshalTL/UnmarshalTL
    bodies in the mini-language of Model/Tl.v), request methods Ms, the request
    decoder table Tab.  [tl_check S F B Ms Tab] is the conjunction of the C10
    obligations, with one relaxation: a function whose result type has several
    constructors only has its name, request type, request id and error id
    checked (C10's [matches_method] covers the single-constructor shape only;
    the response path of such a function is covered by execution, kind
    c09.tlreq, not by a theorem).

    TL-B.  A program is the descriptor (harness/tlbdesc, reflection on the
    compiled Go type) of every generated type; the check is [refines] of
    Spec/TlbSchema.v against the meaning of the declaration.

    Definitions only; the statements are in Properties/C09.v. *)
From Coq Require Import String List NArith Arith Bool.
From Tongo Require Import Lib.Bits Lib.Res Spec.TlWire Model.Tl Model.TlMatch.
Import ListNotations.
Local Open Scope N_scope.

Definition single_result (S : schema) (f : decl) : bool :=
  Nat.eqb (length (ctors_of S (dres f))) 1.

(* what is checked of the method of a function returning a sum type *)
Definition matches_method_head (S : schema) (f : decl) (m : method) : bool :=
  String.eqb (m_name m) (camel (dname f))
  && match m_req m, dfields f with
     | None, [] => true
     | Some r, _ :: _ => String.eqb r ((camel (dname f) ++ "Request")%string)
     | _, _ => false
     end
  && (m_req_id m =? did f)
  && match find_ctor S "liteServer.error" with
     | Some e => (m_err_id m =? did e) && single S e
     | None => false
     end
  && (2 <=? length (ctors_of S (dres f)))%nat.

Definition methods_ok09 (S F : list decl) (ms : list method) : bool :=
  Nat.eqb (length F) (length ms)
  && forallb (fun f => if single_result S f then existsb (matches_method S f) ms
                       else existsb (matches_method_head S f) ms) F.

Definition error_declared (S : schema) : bool :=
  match find_ctor S "liteServer.error" with Some e => single S e | None => false end.

(* the components, in the order the harness names them *)
Definition tl_check_list (S F : list decl) (B : bindings) (Ms : list method)
           (Tab : list (N * N * string * string)) : list bool :=
  [ ids_distinct S;
    forallb decl_ok (S ++ F);
    matches_all S F B;
    forallb (fun d => ty_ok S B (decl_ty S d)) S;
    no_stray S F B;
    methods_ok09 S F Ms;
    table_ok F Tab;
    error_declared S || match F with [] => true | _ => false end ].

Definition tl_check (S F : list decl) (B : bindings) (Ms : list method)
           (Tab : list (N * N * string * string)) : bool :=
  forallb (fun b : bool => b) (tl_check_list S F B Ms Tab).
