(** Model of the bag-of-cells serialiser (boc/boc.go: importRoots, importCell,
    reorderCells, revisit, serializeBoc), a statement-by-statement functional
    transcription.  Input: a cell array in BOC order (references forward) with
    its per-cell level-3 hashes (what Hasher.HashString returns) and root
    indices.  Arrays are lists; pointer-shared cellInfo mutation becomes
    in-place list update. *)
From Coq Require Import List NArith ZArith Arith Bool.
From Tongo Require Import Lib.Bits Lib.Res Spec.Crc32c Model.BocParse Model.CellHash.
Import ListNotations.

Record cinfo := mkci {
  ci_node : nat;          (* index of the cell in the input array *)
  ci_cache : bool;        (* shouldCache *)
  ci_wt : nat;
  ci_refs : list nat;     (* refsIndex[0..refsNumber) *)
  ci_hashcount : nat;
  ci_new : Z;             (* newIndex: -1 fresh, -2 previsited, -3 visited, >= 0 allocated *)
  ci_root : bool
}.

Definition set_ci (l : list cinfo) (i : nat) (c : cinfo) : list cinfo := set_nth i c l.
Definition get_ci (l : list cinfo) (i : nat) : cinfo :=
  nth i l (mkci 0 false 0 [] 0 (-1) false).

Definition with_new (c : cinfo) (z : Z) : cinfo :=
  mkci (ci_node c) (ci_cache c) (ci_wt c) (ci_refs c) (ci_hashcount c) z (ci_root c).
Definition with_wt (c : cinfo) (w : nat) : cinfo :=
  mkci (ci_node c) (ci_cache c) w (ci_refs c) (ci_hashcount c) (ci_new c) (ci_root c).
Definition with_cache (c : cinfo) : cinfo :=
  mkci (ci_node c) true (ci_wt c) (ci_refs c) (ci_hashcount c) (ci_new c) (ci_root c).
Definition with_refs (c : cinfo) (r : list nat) : cinfo :=
  mkci (ci_node c) (ci_cache c) (ci_wt c) r (ci_hashcount c) (ci_new c) (ci_root c).
Definition with_root (c : cinfo) : cinfo :=
  mkci (ci_node c) (ci_cache c) (ci_wt c) (ci_refs c) (ci_hashcount c) (ci_new c) true.

Definition ESer : N := 30.

Section Ser.
Variable dag : list node.
Variable hashes : list (res bytes).       (* level-3 hash of every cell *)

Fixpoint find_hash (h : bytes) (m : list (bytes * nat)) : option nat :=
  match m with
  | [] => None
  | (k, v) :: t => if bytes_eqb k h then Some v else find_hash h t
  end.

(* importCell; fuel bounds the recursion depth (a forward-referencing array of
   n cells has depth < n) *)
Fixpoint import_cell (fuel : nat) (st : list cinfo) (m : list (bytes * nat)) (cell : nat) (depth : nat)
  : res (list cinfo * list (bytes * nat) * nat) :=
  match fuel with
  | O => Err EFuel
  | S f =>
      if (1024 <? depth)%nat then Err EDepth else
      match nth_error hashes cell, nth_error dag cell with
      | Some rh, Some nd =>
          do h <- rh;
          match find_hash h m with
          | Some pos => Ok (set_ci st pos (with_cache (get_ci st pos)), m, pos)
          | None =>
              let fix refs_loop (rs : list nat) (st : list cinfo) (m : list (bytes * nat))
                       (acc : list nat) (sum : nat)
                : res (list cinfo * list (bytes * nat) * list nat * nat) :=
                match rs with
                | [] => Ok (st, m, rev acc, sum)
                | r :: t =>
                    do x <- import_cell f st m r (S depth);
                    let '(st', m', pos) := x in
                    refs_loop t st' m' (pos :: acc) (sum + ci_wt (get_ci st' pos))%nat
                end in
              do y <- refs_loop (n_refs nd) st m [] 1%nat;
              let '(st', m', refs, sum) := y in
              let wt := if (255 <? sum)%nat then 255%nat else sum in
              let pos := length st' in
              Ok (st' ++ [mkci cell false wt refs (S (mask_popcount (n_mask nd))) (-1) false],
                  (h, pos) :: m', pos)
          end
      | _, _ => Panic PNil
      end
  end.

Definition maxCellWhs : nat := 64.

(* first pass of reorderCells, cell i (from the last to the first) *)
Definition pass1_cell (st : list cinfo) (i : nat) : list cinfo :=
  let dci := get_ci st i in
  let k := length (ci_refs dci) in
  (* c, sum, mask over j = 0..k-1 *)
  let step1 (acc : nat * nat * list bool) (jr : nat * nat) :=
    let '(c, sum, mask) := acc in
    let '(j, r) := jr in
    let wt := ci_wt (get_ci st r) in
    let limit := ((maxCellWhs - 1 + j) / k)%nat in
    if (wt <=? limit)%nat then ((c - 1)%nat, (sum - wt)%nat, mask ++ [true])
    else (c, sum, mask ++ [false]) in
  let idx := combine (seq 0 k) (ci_refs dci) in
  let '(c, sum, mask) := fold_left step1 idx (k, (maxCellWhs - 1)%nat, []) in
  if (0 <? c)%nat then
    let step2 (acc : list cinfo * nat) (jr : nat * nat) :=
      let '(st, sum) := acc in
      let '(j, r) := jr in
      if nth j mask false then (st, sum)
      else
        let sum' := S sum in
        let limit := (sum' / c)%nat in
        let dcj := get_ci st r in
        if (limit <? ci_wt dcj)%nat then (set_ci st r (with_wt dcj limit), sum')
        else (st, sum') in
    fst (fold_left step2 idx (st, sum))
  else st.

Definition pass2_cell (st : list cinfo) (i : nat) : list cinfo :=
  let dci := get_ci st i in
  let sum := fold_left (fun s r => (s + ci_wt (get_ci st r))%nat) (ci_refs dci) 1%nat in
  if (sum <=? ci_wt dci)%nat then set_ci st i (with_wt dci sum)
  else set_ci st i (with_wt dci 0).

Inductive force := Previsit | Visit | Allocate.

(* revisit: returns (state, newList (old indices in allocation order), result) *)
Fixpoint revisit (fuel : nat) (st : list cinfo) (nl : list nat) (idx : nat) (f : force)
  : res (list cinfo * list nat * Z) :=
  match fuel with
  | O => Err EFuel
  | S fu =>
      let dci := get_ci st idx in
      if (0 <=? ci_new dci)%Z then Ok (st, nl, ci_new dci) else
      match f with
      | Previsit =>
          if negb (Z.eqb (ci_new dci) (-1)) then Ok (st, nl, ci_new dci) else
          let fix loop (rs : list nat) (st : list cinfo) (nl : list nat) : res (list cinfo * list nat) :=
            match rs with
            | [] => Ok (st, nl)
            | r :: t =>
                let special := Nat.eqb (ci_wt (get_ci st r)) 0 in
                do x <- revisit fu st nl r (if special then Visit else Previsit);
                let '(st', nl', _) := x in loop t st' nl'
            end in
          do y <- loop (rev (ci_refs dci)) st nl;
          let '(st', nl') := y in
          Ok (set_ci st' idx (with_new (get_ci st' idx) (-2)), nl', (-2)%Z)
      | Allocate =>
          let k := Z.of_nat (length nl) in
          Ok (set_ci st idx (with_new dci k), nl ++ [idx], k)
      | Visit =>
          if Z.eqb (ci_new dci) (-3) then Ok (st, nl, (-3)%Z) else
          do x0 <- (if Nat.eqb (ci_wt dci) 0 then
                      do x <- revisit fu st nl idx Previsit; let '(s, n, _) := x in Ok (s, n)
                    else Ok (st, nl));
          let '(st0, nl0) := x0 in
          let fix vloop (rs : list nat) (st : list cinfo) (nl : list nat) : res (list cinfo * list nat) :=
            match rs with
            | [] => Ok (st, nl)
            | r :: t =>
                do x <- revisit fu st nl r Visit;
                let '(st', nl', _) := x in vloop t st' nl'
            end in
          do y <- vloop (rev (ci_refs (get_ci st0 idx))) st0 nl0;
          let '(st1, nl1) := y in
          (* allocate children j = k-1 .. 0, storing the new index in refsIndex[j] *)
          let fix aloop (js : list nat) (st : list cinfo) (nl : list nat) : res (list cinfo * list nat) :=
            match js with
            | [] => Ok (st, nl)
            | j :: t =>
                let r := nth j (ci_refs (get_ci st idx)) 0%nat in
                do x <- revisit fu st nl r Allocate;
                let '(st', nl', k) := x in
                let me := get_ci st' idx in
                aloop t (set_ci st' idx (with_refs me (set_nth j (Z.to_nat k) (ci_refs me)))) nl'
            end in
          do z <- aloop (rev (seq 0 (length (ci_refs (get_ci st1 idx))))) st1 nl1;
          let '(st2, nl2) := z in
          Ok (set_ci st2 idx (with_new (get_ci st2 idx) (-3)), nl2, (-3)%Z)
      end
  end.

Fixpoint for_roots {S} (f : S -> nat -> res S) (s : S) (roots : list nat) : res S :=
  match roots with
  | [] => Ok s
  | r :: t => do s' <- f s r; for_roots f s' t
  end.

Definition reorder (st : list cinfo) (roots : list nat) : res (list cinfo * list nat * list nat) :=
  let n := length st in
  let st1 := fold_left pass1_cell (rev (seq 0 n)) st in
  let st2 := fold_left pass2_cell (seq 0 n) st1 in
  let st3 := fold_left (fun s r => set_ci s r (with_root (get_ci s r))) roots st2 in
  if Nat.eqb n 0 then Ok (st3, [], roots) else
  let fuel := (4 * n + 8)%nat in
  do a <- for_roots (fun (s : list cinfo * list nat) r =>
                       do x <- revisit fuel (fst s) (snd s) r Previsit;
                       let '(s1, n1, _) := x in
                       do y <- revisit fuel s1 n1 r Visit;
                       let '(s2, n2, _) := y in Ok (s2, n2)) (st3, []) roots;
  do b <- for_roots (fun (s : list cinfo * list nat) r =>
                       do x <- revisit fuel (fst s) (snd s) r Allocate;
                       let '(s1, n1, _) := x in Ok (s1, n1)) a roots;
  let '(stf, nl) := b in
  Ok (stf, nl, map (fun r => Z.to_nat (ci_new (get_ci stf r))) roots).

(* importRoots *)
Definition import_roots (roots : list nat)
  : res (list cinfo * list nat * list nat) :=
  do a <- for_roots (fun (s : list cinfo * list (bytes * nat) * list nat) r =>
                       let '(st, m, acc) := s in
                       do x <- import_cell (S (length dag)) st m r 0;
                       let '(st', m', pos) := x in Ok (st', m', acc ++ [pos]))
                    ([], [], []) roots;
  let '(st, _, rootpos) := a in
  reorder st rootpos.

Definition be_n (n : nat) (v : N) : bytes :=
  rev (map (fun i => N.land (N.shiftr v (8 * N.of_nat i)) 255) (seq 0 n)).

Definition byte_len (v : N) : nat :=      (* max(ceil(bits.Len(v)/8), 1) *)
  Nat.max ((N.to_nat (N.size v) + 7) / 8) 1.

(* serializeBoc *)
Definition serialize (roots : list nat) (idx hasCrc cacheBits : bool) : res bytes :=
  do ir <- import_roots roots;
  let '(st, nl, rootidx) := ir in
  let infos := map (get_ci st) nl in
  let cellCount := length infos in
  let refSize := byte_len (N.of_nat cellCount) in
  (* representations, from the last cell to the first *)
  let repr_of (ci : cinfo) : bytes :=
    match nth_error dag (ci_node ci) with
    | Some nd =>
        repr_no_refs (length (ci_refs ci)) (n_special nd) (n_mask nd) (n_bits nd)
        ++ flat_map (fun r => be_n refSize (N.of_nat (cellCount - 1 - r))) (ci_refs ci)
    | None => []
    end in
  let reps := map repr_of infos in
  (* offsets accumulate from i = cellCount-1 down to 0 *)
  let step (acc : N * list N) (p : cinfo * bytes) :=
    let '(off, offs) := acc in
    let '(ci, rep) := p in
    let off' := (off + N.of_nat (length rep))%N in
    let fixed := if cacheBits then (2 * off' + (if ci_cache ci then 1 else 0))%N else off' in
    (off', fixed :: offs) in
  let '(total, offsets) := fold_left step (rev (combine infos reps)) (0%N, []) in
  (* offsets is now in order i = 0 .. cellCount-1 *)
  let offSize := byte_len total in
  let flags := ((if idx then 128 else 0) + (if hasCrc then 64 else 0) + (if cacheBits then 32 else 0))%N in
  (* WriteInt(refByteSize, 3): sign bit 0 + the two low bits, so 4 is written as 0 *)
  let sizeField := N.of_nat (refSize mod 4) in
  let header :=
    magic_reach ++ [(flags + sizeField)%N] ++ [N.of_nat (offSize mod 256)]
    ++ be_n refSize (N.of_nat cellCount) ++ be_n refSize (N.of_nat (length rootidx))
    ++ be_n refSize 0 ++ be_n offSize total
    ++ flat_map (fun r => be_n refSize (N.of_nat (cellCount - 1 - r))) rootidx in
  let index := if idx then flat_map (be_n offSize) (rev offsets) else [] in
  let body := header ++ index ++ concat (rev reps) in
  if (N.of_nat ((1023 + 32 * 4 + 32 * 3) * cellCount) <? 8 * N.of_nat (length body))%N then Err ESer else
  Ok (if hasCrc then body ++ rev (be_n 4 (crc32c body)) else body).

End Ser.
