(** Models of the hand-written TL codecs outside liteclient/generated.go
    (the generated ones and liteclient.LiteServerSignatureSet, tl.Int256 are in
    Model/Tl.v):
      ton/account.go  AccountID.MarshalTL / UnmarshalTL(io.Reader)
      ton/block.go    BlockIDExt.MarshalTL / UnmarshalTL([]byte);  BlockID has
                      no methods: tl.Marshal / tl.Unmarshal walk its three
                      fields by reflection (int32, uint64, uint32)
      tlb/stack.go    VmStack.MarshalTL / UnmarshalTL: the TL framing of the
                      BOC bytes only (the cell codec is C03/C01)
    Signed Go integers travel as their unsigned representative (the code
    converts with uint32(...) before writing). *)
From Coq Require Import String List NArith Arith Bool.
From Tongo Require Import Lib.Bits Lib.Res Spec.TlWire Model.Tl.
Import ListNotations.
Local Open Scope N_scope.

(* binary.LittleEndian.PutUint32(payload[:4], uint32(id.Workchain)); copy(payload[4:36], id.Address[:]) *)
Definition hand_account_marshal (wc : N) (addr : bytes) : bytes := le_bytes 4 wc ++ addr.

(* io.ReadFull(r, b[:4]); io.ReadFull(r, id.Address[:]) *)
Definition hand_account_unmarshal (bs : bytes) : option (N * bytes * bytes) :=
  opt (a, r) <- split_at 4 bs; opt (ad, r') <- split_at 32 r; Some (le_num a, ad, r').

(* payload := make([]byte, 80); PutUint32 / PutUint64 / PutUint32 / copy / copy *)
Definition hand_blockidext_marshal (wc shard seqno : N) (root file : bytes) : bytes :=
  le_bytes 4 wc ++ le_bytes 8 shard ++ le_bytes 4 seqno ++ root ++ file.

(* if len(data) != 80 { error }; fixed offsets *)
Definition hand_blockidext_unmarshal (data : bytes) : option (N * N * N * bytes * bytes) :=
  if Nat.eqb (length data) 80 then
    Some (le_num (firstn 4 data), le_num (firstn 8 (skipn 4 data)), le_num (firstn 4 (skipn 12 data)),
          firstn 32 (skipn 16 data), skipn 48 data)
  else None.

(* tl.Marshal(ton.BlockID{...}): encodeBasicStruct over Int32, Uint64, Uint32 *)
Definition hand_blockid_marshal (wc shard seqno : N) : bytes :=
  le_bytes 4 wc ++ le_bytes 8 shard ++ le_bytes 4 seqno.
Definition hand_blockid_unmarshal (bs : bytes) : option (N * N * N * bytes) :=
  opt (a, r) <- split_at 4 bs; opt (b, r1) <- split_at 8 r; opt (c, r2) <- split_at 4 r1;
  Some (le_num a, le_num b, le_num c, r2).

(** the lite_api.tl declarations these codecs stand for, and the values they carry *)
Local Open Scope string_scope.
Definition fields_account_id : list field :=
  [mkfield "workchain" None TInt; mkfield "id" None TInt256].
Definition fields_block_id : list field :=
  [mkfield "workchain" None TInt; mkfield "shard" None TLong; mkfield "seqno" None TInt].
Definition fields_block_id_ext : list field :=
  fields_block_id ++ [mkfield "root_hash" None TInt256; mkfield "file_hash" None TInt256].

Definition val_account_id (w : N) (a : bytes) : value :=
  VRec "" [("Workchain", VNum w); ("Id", VBytes a)].
Definition val_block_id (w sh sq : N) : value :=
  VRec "" [("Workchain", VNum w); ("Shard", VNum sh); ("Seqno", VNum sq)].
Definition val_block_id_ext (w sh sq : N) (rh fh : bytes) : value :=
  VRec "" [("Workchain", VNum w); ("Shard", VNum sh); ("Seqno", VNum sq);
           ("RootHash", VBytes rh); ("FileHash", VBytes fh)].

Local Close Scope string_scope.

(* VmStack.MarshalTL: tl.Marshal(boc bytes);  UnmarshalTL: tl.Unmarshal(r, &b) first *)
Definition hand_vmstack_frame (boc : bytes) : res bytes :=
  if N.of_nat (length boc) <? two24 then Ok (go_bytes boc) else Err EOther.
Definition hand_vmstack_unframe (bs : bytes) : res bytes * st := read_byte_slice (st0 bs).

(** * liteclient/client.go: the package-private copies of the TL length prefix
    and alignment, and the hand-assembled frames around every query
      Client.Request           adnl.message.query#b48bf97a query_id:int256 query:bytes
      processQueryAnswer       adnl.message.answer#0fac8416 query_id:int256 answer:bytes
      liteServerRequest        liteServer.query#798c06df data:bytes
      WaitMasterchainSeqno     liteServer.waitMasterchainSeqno#baeab892 seqno:int timeout_ms:int (prefix) *)
(* encodeLength: uint32(i<<8) little-endian with b[0] = 254 *)
Definition lc_encode_length (i : N) : bytes :=
  if 254 <=? i then 254 :: le_bytes 3 i else [i].
(* alignBytes *)
Definition lc_align (b : bytes) : bytes :=
  let left := N.of_nat (length b) mod 4 in
  if left =? 0 then b else b ++ repeat 0 (N.to_nat (4 - left)).
(* decodeLength (the input is a byte string: the panic branch is unreachable) *)
Definition lc_decode_length (b : bytes) : res (N * bytes) :=
  match b with
  | [] => Err EOther
  | b0 :: t =>
      if b0 =? 255 then Err EOther
      else if b0 <? 254 then Ok (b0, t)
      else if short 4 b then Err EOther
      else Ok (le_num (firstn 3 t), skipn 3 t)      (* int(LE32(0,b1,b2,b3)) >> 8 *)
  end.

Definition magic_adnl_query : N := 0xb48bf97a.
Definition magic_adnl_answer : N := 0x0fac8416.
Definition magic_ls_query : N := 0x798c06df.
Definition magic_ls_wait : N := 0xbaeab892.

(* the ADNL payload Client.Request hands to the connection *)
Definition lc_request_payload (id q : bytes) : bytes :=
  lc_align (le_bytes 4 magic_adnl_query ++ id ++ lc_encode_length (N.of_nat (length q)) ++ q).
(* what liteServerRequest hands to Request (it uses tl.EncodeLength) *)
Definition lc_ls_query (q : bytes) : bytes :=
  lc_align (le_bytes 4 magic_ls_query ++ go_encode_length (N.of_nat (length q)) ++ q).
(* processQueryAnswer: what is delivered to the waiting request *)
Definition lc_process_answer (payload : bytes) : res bytes :=
  if short 37 payload then Err EOther else
  do nd <- lc_decode_length (skipn 36 payload);
  let '(n, data) := nd in
  if shortN n data then Err EOther else Ok (firstn (N.to_nat n) data).
(* WaitMasterchainSeqno / WaitMasterchainBlock: the query prefix *)
Definition lc_wait_prefix (seqno timeout : N) : bytes :=
  le_bytes 4 magic_ls_wait ++ le_bytes 4 seqno ++ le_bytes 4 timeout.

Local Open Scope string_scope.
Definition fields_adnl_query : list field :=
  [mkfield "query_id" None TInt256; mkfield "query" None TBytes].
Definition val_adnl_query (id q : bytes) : value :=
  VRec "AdnlMessageQuery" [("QueryId", VBytes id); ("Query", VBytes q)].
Local Close Scope string_scope.
