(** C17 model, part 3: ADNL address <-> base32 text (liteclient/adnl.go:
    ADNLAddressToBase32, ParseADNLAddress).  35 bytes 0x2d | addr | crc16 are
    280 bits = 56 base32 digits; the first digit is always 5 ('F') and is
    dropped from the text. *)
From Coq Require Import List NArith ZArith Bool.
From Tongo Require Import Lib.Bits Lib.Res Model.Address.
Import ListNotations.
Local Open Scope N_scope.

(** regrouping a bit string *)
Definition to_bits (w : nat) (l : list N) : bits := flat_map (bits_of w) l.
Fixpoint chunks (w n : nat) (l : bits) : list bits :=
  match n with
  | O => []
  | S n' => firstn w l :: chunks w n' (skipn w l)
  end.
Definition from_bits (w n : nat) (l : bits) : list N := map N_of_bits (chunks w n l).

(* base32.StdEncoding alphabet, lower-cased: a..z 2..7 *)
Definition b32_char (d : N) : N := if d <? 26 then 97 + d else 50 + (d - 26).
Definition to_upper (c : N) : N := if (97 <=? c) && (c <=? 122) then c - 32 else c.
Definition b32_digit (c : N) : option N :=       (* upper-case alphabet *)
  if (65 <=? c) && (c <=? 90) then Some (c - 65)
  else if (50 <=? c) && (c <=? 55) then Some (c - 50 + 26)
  else None.

Fixpoint b32_digits (cs : list N) : option (list N) :=
  match cs with
  | [] => Some []
  | c :: t =>
      match b32_digit c, b32_digits t with
      | Some d, Some ds => Some (d :: ds)
      | _, _ => None
      end
  end.

Definition adnl_bytes (tab : list N) (addr : list N) : list N :=
  let a := 0x2d :: addr in a ++ be16_bytes (crc16_tab tab a).

(* ADNLAddressToBase32 *)
Definition adnl_print (tab : list N) (addr : list N) : list N :=
  map b32_char (tl (from_bits 5 56 (to_bits 8 (adnl_bytes tab addr)))).

(* strings.TrimSuffix(addr, ".adnl") *)
Definition adnl_suffix : list N := [46; 97; 100; 110; 108].
Fixpoint list_eqb (a b : list N) : bool :=
  match a, b with
  | [], [] => true
  | x :: a', y :: b' => (x =? y) && list_eqb a' b'
  | _, _ => false
  end.
Fixpoint trim_suffix (suf cs : list N) : list N :=
  match cs with
  | [] => []
  | c :: t => if list_eqb cs suf then [] else c :: trim_suffix suf t
  end.

Definition is_pad (c : N) : bool := c =? 61.

(* the last quantum may be padded: 2, 4, 5 or 7 digits followed by '=' only *)
Definition padded_tail_ok (q : list N) : bool :=
  let data := filter (fun c => negb (is_pad c)) q in
  let k := length data in
  list_eqb q (data ++ repeat 61 (8 - k))
  && match b32_digits data with Some _ => true | None => false end
  && (Nat.eqb k 2 || Nat.eqb k 4 || Nat.eqb k 5 || Nat.eqb k 7).

(* ParseADNLAddress.  A correctly padded last quantum decodes to fewer than 35
   bytes; the Go code then slices buf[33:] without a length check. *)
Definition adnl_parse (tab : list N) (cs : list N) : res (list N) :=
  let cs := trim_suffix adnl_suffix cs in
  if len_is 55 cs then
    let up := 70 :: map to_upper cs in                (* "F" + ToUpper *)
    match b32_digits up with
    | Some ds =>
        let buf := from_bits 8 35 (to_bits 5 ds) in
        if nth 0 buf 0 =? 0x2d then
          if be16 (nth 33 buf 0) (nth 34 buf 0) =? crc16_tab tab (firstn 33 buf)
          then Ok (firstn 32 (skipn 1 buf))
          else Err EOther
        else Err EOther
    | None =>
        match b32_digits (firstn 48 up) with
        | Some (_ :: d1 :: _) =>
            if padded_tail_ok (skipn 48 up) then
              (if N.shiftr d1 2 =? 5 then Panic PSlice else Err EOther)   (* buf[0] = 0x2d *)
            else Err EOther
        | _ => Err EOther
        end
    end
  else Err EOther.
