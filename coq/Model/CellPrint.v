(** C07: the traversal of Cell.ToString with its shared visit budget
    (boc/cell.go: toStringImpl, ToString; BOCSizeLimit).

    Go:
      func (c *Cell) toStringImpl(ident string, iterationsLimit *int) string {
        s := ident + "x{" + hex + "}\n"            // own line, always
        if *iterationsLimit == 0 { return s }
        *iterationsLimit -= 1
        for _, ref := range c.Refs() { s += ref.toStringImpl(ident+" ", iterationsLimit) }
        return s
      }
      func (c Cell) ToString() string { iter := BOCSizeLimit; return c.toStringImpl("", &iter) }

    The model runs on the parsed cell array (references are indices), counts
    the printed lines and threads the budget.  The budget is a Go [int]: it is
    modelled in Z and tested with [=? 0] exactly as the code does, so that "the
    budget never steps over zero" is a theorem and not an artefact of the type. *)
From Coq Require Import List NArith ZArith.
From Tongo Require Import Model.BocParse.
Import ListNotations.

Definition boc_size_limit : Z := 65536.

(** one printed child: accumulate its lines, thread the budget *)
Definition print_step (rec : nat -> Z -> N * Z) (st : N * Z) (r : nat) : N * Z :=
  let '(l, b2) := rec r (snd st) in ((fst st + l)%N, b2).

(** [print_at fuel cells i b]: lines printed by toStringImpl on cell [i] with
    budget [b], and the budget left.  [fuel] only makes the recursion
    structural: [length cells - i] suffices for a well-formed array
    (CellPrintP.print_at_fuel). *)
Fixpoint print_at (fuel : nat) (cells : list node) (i : nat) (b : Z) : N * Z :=
  match fuel with
  | O => (0%N, b)
  | S f =>
      match nth_error cells i with
      | None => (0%N, b)
      | Some c =>
          if (b =? 0)%Z then (1%N, b)
          else fold_left (print_step (print_at f cells)) (n_refs c) (1%N, (b - 1)%Z)
      end
  end.

(** number of lines of [ToString()] of the cell at index [root] *)
Definition to_string_lines (cells : list node) (root : nat) : N :=
  fst (print_at (length cells - root) cells root boc_size_limit).
