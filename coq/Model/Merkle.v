(** Model of boc/merkle_proof.go (Cursor / Prune / CreateProof) and
    immutableCell.pruneCells, on cell trees (ordinary cells, library cells and
    pruned branches of any level mask; Merkle cells are refused as in Go); the
    walk of tlb.ProveKeyInHashmap over a dictionary cell; operations on one
    prover and histories of them. *)
From Coq Require Import List NArith Arith Bool.
From Tongo Require Import Lib.Bits Lib.Res Model.BocParse Model.CellHash Spec.ReprHash.
Import ListNotations.

Definition EMerkle : N := 40.

Fixpoint bytes_to_bits (l : bytes) : bits :=
  match l with [] => [] | b :: t => bits_of 8 b ++ bytes_to_bits t end.

Section M.
Variable H : bytes -> bytes.

(* the pruned branch cell that replaces a subtree: 01 01 | hash_0 | depth_0 *)
Definition pruned_cell (h : bytes) (d : N) : cell :=
  Cell true T_PRUNED 1 (bits_of 8 1 ++ bits_of 8 1 ++ bytes_to_bits h ++ bits_of 16 d) [].

Definition cell_mask (c : cell) : N := match c with Cell _ _ m _ _ => m end.

(* pruneCells.  [pruned path] decides by position in the tree (a path is the
   list of reference indices from the root), as the Go code does: the cursor
   records its path and the pruned set holds paths (before the repair "prune
   positions, not cells" it held immutable-cell pointers, so a cell occurring
   at several positions was pruned at all of them). *)
Fixpoint prune (pruned : list nat -> bool) (path : list nat) (c : cell) : res cell :=
  match c with
  | Cell special ty m data refs =>
      if is_merkle special ty then Err EMerkle else
      if pruned path then
        do hd <- hd_at H c 0;
        Ok (pruned_cell (fst hd) (snd hd))
      else
        let fix go (i : nat) (rs : list cell) : res (list cell) :=
          match rs with
          | [] => Ok []
          | ch :: t =>
              do x <- prune pruned (path ++ [i]) ch;
              do xs <- go (S i) t;
              Ok (x :: xs)
          end in
        do refs' <- go 0%nat refs;
        let m' := fold_left (fun acc ch => N.lor acc (cell_mask ch)) refs' m in
        Ok (Cell special ty m' data refs')
  end.

(* CreateProof: 03 | hash_0(root) | depth_0(root), one reference *)
Definition create_proof (pruned : list nat -> bool) (root : cell) : res cell :=
  do body <- prune pruned [] root;
  do hd <- hd_at H root 0;
  Ok (Cell true T_MPROOF 0 (bits_of 8 3 ++ bytes_to_bits (fst hd) ++ bits_of 16 (snd hd)) [body]).

End M.

(** *** dictionary walk of ProveKeyInHashmap *)
(* label of an edge with at most m key bits left: (label bits, rest of data) *)
Definition read_n (k : nat) (l : bits) : option (N * bits) :=
  if short k l then None else Some (N_of_bits (firstn k l), skipn k l).

Fixpoint read_unary (fuel : nat) (l : bits) (acc : nat) : option (nat * bits) :=
  match fuel with
  | O => None
  | S f =>
      match l with
      | true :: t => read_unary f t (S acc)
      | false :: t => Some (acc, t)
      | [] => None
      end
  end.

Definition load_label (m : nat) (l : bits) : option (bits * bits) :=
  let w := N.to_nat (N.size (N.of_nat m)) in
  match l with
  | false :: t =>                          (* hml_short: unary length, bits *)
      match read_unary (S (length t)) t 0 with
      | Some (n, t') => if short n t' then None else Some (firstn n t', skipn n t')
      | None => None
      end
  | true :: false :: t =>                  (* hml_long: #<= m length, bits *)
      match read_n w t with
      | Some (n, t') =>
          let n := N.to_nat n in
          if short n t' then None else Some (firstn n t', skipn n t')
      | None => None
      end
  | true :: true :: b :: t =>              (* hml_same: bit, #<= m length *)
      match read_n w t with
      | Some (n, t') => Some (repeat b (N.to_nat n), t')
      | None => None
      end
  | _ => None
  end.

Definition cell_special (c : cell) : bool := match c with Cell s _ _ _ _ => s end.
Definition cell_bits (c : cell) : bits := match c with Cell _ _ _ d _ => d end.
Definition cell_refs (c : cell) : list cell := match c with Cell _ _ _ _ r => r end.

(* the loop of ProveKeyInHashmap: returns the pruned sibling paths, the path of
   the leaf, the unread data of the leaf and the reconstructed key *)
Fixpoint prove_walk (fuel : nat) (c : cell) (key : bits) (remaining keysize : nat)
         (prefix : bits) (path : list nat) (pruned : list (list nat))
  : res (list (list nat) * list nat * bits * bits) :=
  match fuel with
  | O => Err EFuel
  | S f =>
      if cell_special c then Err EMerkle else      (* a pruned branch / exotic cell is not a dictionary node *)
      match load_label remaining (cell_bits c) with
      | None => Err EMerkle
      | Some (lab, rest) =>
          let size := length lab in
          let prefix' := prefix ++ lab in
          if (keysize <? length prefix')%nat then Err EMerkle else      (* key.WriteBit overflow *)
          if (remaining <=? size)%nat then Ok (pruned, path, rest, prefix')
          else
            if short (S size) key then Err EMerkle else
            let isRight := nth size key false in
            if (keysize <? S (length prefix'))%nat then Err EMerkle else
            match cell_refs c with
            | [] => Err EMerkle
            | [l] => if isRight then Err EMerkle else Panic PIndex   (* cursor.Ref(1) on one ref *)
            | l :: r :: _ =>
                if isRight
                then prove_walk f r (skipn (S size) key) (remaining - size - 1) keysize
                                (prefix' ++ [true]) (path ++ [1%nat]) (pruned ++ [path ++ [0%nat]])
                else prove_walk f l (skipn (S size) key) (remaining - size - 1) keysize
                                (prefix' ++ [false]) (path ++ [0%nat]) (pruned ++ [path ++ [1%nat]])
            end
      end
  end.

Definition path_eqb (a b : list nat) : bool :=
  Nat.eqb (length a) (length b) && forallb (fun p => Nat.eqb (fst p) (snd p)) (combine a b).

Definition in_paths (ps : list (list nat)) (p : list nat) : bool := existsb (path_eqb p) ps.

Definition bits_eqb (a b : bits) : bool :=
  Nat.eqb (length a) (length b) && forallb (fun p => Bool.eqb (fst p) (snd p)) (combine a b).

Section K.
Variable H : bytes -> bytes.
(* ProveKeyInHashmap with a value type that needs [vbits] bits and no refs *)
Definition prove_key (root : cell) (key : bits) (vbits : nat) : res cell :=
  do w <- prove_walk (S (length key)) root key (length key) (length key) [] [] [];
  let '(pruned, leaf, rest, prefix) := w in
  if short vbits rest then Err EMerkle else
  if short (length key) prefix then Err EMerkle else
  if negb (bits_eqb (firstn (length key) prefix) key) then Err EMerkle else
  create_proof H (in_paths pruned) root.
End K.

(** *** operations on ONE prover and histories
    An operation is what a caller does between [prover.Cursor()] and the end of
    its use of that cursor.  The Go prover keeps the immutable root only; the
    pruned set belongs to the cursor and is created empty by [Cursor()].  So the
    model of an operation is a pure function of (root, operation), and the
    model of a history is the list of the operations' results.  [same p q]:
    when a prune at q also prunes p; the Go code prunes positions, so the
    harness instantiates it with equality of paths ([path_eqb]). *)
Inductive op :=
| OpKey (key : bits) (vbits : nat)        (* tlb.ProveKeyInHashmap(prover, root, key) *)
| OpWalk (prunes : list (list nat))       (* Cursor(); Ref/Prune at each path; CreateProof *)
| OpDrop (prunes : list (list nat)).      (* the same cursor work, abandoned *)

Section Ops.
Variable H : bytes -> bytes.
Variable same : list nat -> list nat -> bool.

Definition run_op (root : cell) (o : op) : option (res cell) :=
  match o with
  | OpKey key vbits => Some (prove_key H root key vbits)
  | OpWalk prunes => Some (create_proof H (fun p => existsb (same p) prunes) root)
  | OpDrop _ => None
  end.

(* the prover as a state machine: state = the prover (its root); every
   operation starts from a fresh cursor *)
Definition prover_step (root : cell) (o : op) : cell * option (res cell) := (root, run_op root o).

Fixpoint prover_run (root : cell) (ops : list op) : list (option (res cell)) :=
  match ops with
  | [] => []
  | o :: t => let '(root', out) := prover_step root o in out :: prover_run root' t
  end.
End Ops.

(** *** cursor programs
    What an application may write with the cursor API in any order: cursor
    variables are numbered in creation order (0 is [prover.Cursor()]);
    [IRef src k] is [v_new := v_src.Ref(k)], [IPrune v] is [v.Prune()].  A
    cursor is a VALUE: its position is fixed when it is created, whatever is
    done with other cursors afterwards.  The program prunes the positions of
    its Prune instructions; the proof is that of a walk pruning those. *)
Inductive instr := IRef (src k : nat) | IPrune (v : nat).

Fixpoint prog_run (vars : list (list nat)) (pruned : list (list nat)) (is : list instr)
  : list (list nat) :=
  match is with
  | [] => pruned
  | IRef src k :: t =>
      match nth_error vars src with
      | Some p => prog_run (vars ++ [p ++ [k]]) pruned t
      | None => prog_run vars pruned t
      end
  | IPrune v :: t =>
      match nth_error vars v with
      | Some p => prog_run vars (pruned ++ [p]) t
      | None => prog_run vars pruned t
      end
  end.

Definition prog_prunes (is : list instr) : list (list nat) := prog_run [[]] [] is.
