(** Model of the bag-of-cells parser (boc/boc.go: parseBocHeader,
    deserializeCellData, DeserializeBoc), after the "fix:" commits that bound
    the header counters and guard every slice.  Every Go slice expression and
    index is modelled by an operation that returns [Panic] when Go would
    panic, so that "the parser never panics" is a theorem about this function,
    not a property of the encoding.  [alloc] accumulates the capacity of every
    modelled make() in bytes. *)
From Coq Require Import List NArith Arith Lia Bool.
From Tongo Require Import Lib.Bits Lib.Res Spec.Crc32c.
Import ListNotations.

Definition bytes := list N.

(** a parsed cell, in BOC order: references are indices into the cell array *)
Record node := mknode {
  n_special : bool;
  n_type : N;          (* first data byte of an exotic cell, 0 for ordinary *)
  n_mask : N;          (* level mask, d1 >> 5 *)
  n_bits : bits;       (* data bits without the completion tag *)
  n_refs : list nat
}.

(* Go: arr[:n], arr[n:] — panic when n > len *)
Definition take_drop (n : nat) (l : bytes) : res (bytes * bytes) :=
  if short n l then Panic PSlice else Ok (firstn n l, skipn n l).

(* readNBytesUIntFromArray: res = res*256 + arr[i] in uint (wraps mod 2^64);
   indexing panics when the array is shorter than n *)
Definition two64 : N := 18446744073709551616%N.
Definition read_be (n : nat) (l : bytes) : res N :=
  if short n l then Panic PIndex
  else Ok (fold_left (fun acc b => ((acc * 256 + b) mod two64)%N) (firstn n l) 0%N).

Definition read_be_drop (n : nat) (l : bytes) : res (N * bytes) :=
  do v <- read_be n l; Ok (v, skipn n l).

Record header := mkheader {
  h_idx : bool; h_crc : bool; h_cache : bool;
  h_size : nat; h_cells : N; h_roots : N; h_absent : N; h_tot : N;
  h_rootlist : list N; h_index : list N; h_data : bytes;
  h_alloc : N
}.

Definition magic_reach : bytes := [0xb5; 0xee; 0x9c; 0x72]%N.
Definition magic_lean : bytes := [0x68; 0xff; 0x65; 0xf3]%N.
Definition magic_lean_crc : bytes := [0xac; 0xc3; 0xa7; 0x28]%N.

Definition bytes_eqb (a b : bytes) : bool :=
  Nat.eqb (length a) (length b) && forallb (fun p => N.eqb (fst p) (snd p)) (combine a b).

Fixpoint read_list (k : nat) (w : nat) (halve : bool) (l : bytes) (acc : list N)
  : res (list N * bytes) :=
  match k with
  | O => Ok (rev acc, l)
  | S k' =>
      do vr <- read_be_drop w l;
      let '(v, l') := vr in
      read_list k' w halve l' ((if halve then v / 2 else v)%N :: acc)
  end.

Definition le32 (l : bytes) : N :=
  match l with
  | a :: b :: c :: d :: _ => (a + 256 * b + 65536 * c + 16777216 * d)%N
  | _ => 0%N
  end.

Definition EParse : N := 20.

Definition parse_header (boc : bytes) : res header :=
  if short 5 boc then Err EParse else
  let n := length boc in
  do pr <- take_drop 4 boc;
  let '(prefix, boc) := pr in
  match boc with
  | [] => Panic PIndex
  | fb :: boc1 =>
    let cfg :=
      if bytes_eqb prefix magic_reach then
        Some (N.testbit fb 7, N.testbit fb 6, N.testbit fb 5, N.to_nat (fb mod 8))
      else if bytes_eqb prefix magic_lean then Some (true, false, false, N.to_nat fb)
      else if bytes_eqb prefix magic_lean_crc then Some (true, true, false, N.to_nat fb)
      else None in
    match cfg with
    | None => Err EParse
    | Some (hasIdx, hasCrc, hasCache, size) =>
      if short (1 + 3 * size) boc1 then Err EParse else
      match boc1 with
      | [] => Panic PIndex
      | ob :: boc2 =>
        let off := N.to_nat ob in
        do r1 <- read_be_drop size boc2; let '(cells, b3) := r1 in
        do r2 <- read_be_drop size b3; let '(roots, b4) := r2 in
        do r3 <- read_be_drop size b4; let '(absent, b5) := r3 in
        if short off b5 then Err EParse else
        do r4 <- read_be_drop off b5; let '(tot, b6) := r4 in
        let rem := N.of_nat (length b6) in
        if (rem <? roots)%N || (rem <? roots * N.of_nat size)%N then Err EParse else
        if (rem <? cells)%N then Err EParse else
        (* rootList := make([]uint, 0, rootsCount) *)
        do rl <- read_list (N.to_nat roots) size false b6 [];
        let '(rootlist, b7) := rl in
        (* index := make([]uint, 0, cellsCount) *)
        do ix <- (if hasIdx then
                    if (N.of_nat (length b7) <? N.of_nat off * cells)%N then Err EParse
                    else read_list (N.to_nat cells) off hasCache b7 []
                  else Ok ([], b7));
        let '(index, b8) := ix in
        if (N.of_nat (length b8) <? tot)%N then Err EParse else
        do cd <- take_drop (N.to_nat tot) b8;
        let '(data, b9) := cd in
        do b10 <- (if hasCrc then
                     if short 4 b9 then Err EParse
                     else if negb (N.eqb (le32 b9) (crc32c (firstn (n - 4) (prefix ++ fb :: boc1))))
                          then Err EParse
                          else Ok (skipn 4 b9)
                   else Ok b9);
        match b10 with
        | _ :: _ => Err EParse
        | [] =>
          Ok (mkheader hasIdx hasCrc hasCache size cells roots absent tot rootlist index data
                       (8 * roots + 8 * cells)%N)
        end
      end
    end
  end.

Definition popcount3 (m : N) : nat :=
  (if N.testbit m 0 then 1 else 0) + (if N.testbit m 1 then 1 else 0) + (if N.testbit m 2 then 1 else 0).

(* SetTopUppedArray(arr, fulfilled): the data bits of a cell *)
Fixpoint strip_go (k : nat) (r : bits) : option bits :=
  match k with
  | O => None
  | S k' =>
      match r with
      | [] => None
      | true :: rest => Some (rev rest)
      | false :: rest => strip_go k' rest
      end
  end.

(* scan the last 7 bits from the end for the first 1 *)
Definition strip_completion (l : bits) : option bits := strip_go 7 (rev l).

Fixpoint bytes_bits (l : bytes) : bits :=
  match l with [] => [] | b :: t => bits_of 8 b ++ bytes_bits t end.

Definition top_upped_bits (data : bytes) (fulfilled : bool) : res bits :=
  let all := bytes_bits data in
  if fulfilled || Nat.eqb (length data) 0 then Ok all
  else match strip_completion all with
       | Some b => Ok b
       | None => Err EParse
       end.

(* reference indices stay in N until they have been checked against the cell
   count (a 4-byte index must not become a unary number) *)
Record rnode := mkrnode {
  rn_special : bool; rn_type : N; rn_mask : N; rn_bits : bits; rn_refs : list N
}.

Fixpoint read_refs (k : nat) (w : nat) (l : bytes) (acc : list N) : res (list N * bytes) :=
  match k with
  | O => Ok (rev acc, l)
  | S k' =>
      do vr <- read_be_drop w l;
      let '(v, l') := vr in
      read_refs k' w l' (v :: acc)
  end.

(* deserializeCellData *)
Definition parse_cell (cd : bytes) (refsz : nat) : res (rnode * bytes) :=
  match cd with
  | d1 :: d2 :: cd1 =>
      let isExotic := N.testbit d1 3 in
      let refNum := N.to_nat (d1 mod 8) in
      let dataBytes := N.to_nat (d2 / 2 + d2 mod 2) in
      let fulfilled := N.eqb (d2 mod 2) 0 in
      let withHashes := N.testbit d1 4 in
      let mask := (d1 / 32)%N in
      do cd2 <- (if withHashes then
                   let offset := ((popcount3 mask + 1) * 34)%nat in
                   if short offset cd1 then Err EParse else Ok (skipn offset cd1)
                 else Ok cd1);
      if short (dataBytes + refsz * refNum) cd2 then Err EParse else
      do ty <- (if isExotic then
                  if (dataBytes <? 1)%nat then Err EParse
                  else match cd2 with [] => Panic PIndex | t :: _ => Ok t end
                else Ok 0%N);
      do dr <- take_drop dataBytes cd2;
      let '(data, cd3) := dr in
      do b <- top_upped_bits data fulfilled;
      do rr <- read_refs refNum refsz cd3 [];
      let '(refs, cd4) := rr in
      (* NewCellExotic(type 0) is an ordinary cell: IsExotic() is cellType != Ordinary *)
      Ok (mkrnode (isExotic && negb (N.eqb ty 0)) ty mask b refs, cd4)
  | _ => Err EParse
  end.

Fixpoint parse_cells (k : nat) (refsz : nat) (cd : bytes) (acc : list rnode) : res (list rnode) :=
  match k with
  | O => Ok (rev acc)
  | S k' =>
      do cr <- parse_cell cd refsz;
      let '(c, cd') := cr in
      parse_cells k' refsz cd' (c :: acc)
  end.

(* the reference checks of DeserializeBoc for cell i of n *)
Definition refs_ok (n i : N) (refs : list N) : bool :=
  (length refs <=? 4)%nat && forallb (fun r => (i <? r)%N && (r <? n)%N) refs.

Fixpoint check_refs (n : N) (i : N) (cells : list rnode) : bool :=
  match cells with
  | [] => true
  | c :: t => refs_ok n i (rn_refs c) && check_refs n (N.succ i) t
  end.

Definition node_of (c : rnode) : node :=
  mknode (rn_special c) (rn_type c) (rn_mask c) (rn_bits c) (map N.to_nat (rn_refs c)).

Record parsed := mkparsed { p_cells : list node; p_roots : list nat; p_alloc : N }.

(* per parsed cell: NewCell (128-byte buffer + struct), the data copy, the
   full-size buffer of setTopUppedArray, the refs slice, two pointers in the
   cell arrays: bounded by 600 bytes *)
Definition cell_alloc : N := 600.

Definition parse_boc (boc : bytes) : res parsed :=
  do h <- parse_header boc;
  do cells <- parse_cells (N.to_nat (h_cells h)) (h_size h) (h_data h) [];
  let n := N.of_nat (length cells) in
  if negb (check_refs n 0 cells) then Err EParse else
  if negb (forallb (fun r => (r <? n)%N) (h_rootlist h)) then Err EParse else
  Ok (mkparsed (map node_of cells) (map N.to_nat (h_rootlist h))
               (h_alloc h + 16 * h_cells h + cell_alloc * h_cells h + 8 * N.of_nat (length (h_rootlist h)))%N).
