(** The checker [matches]: does a translated binding (structure of a generated
    MarshalTL/UnmarshalTL pair) implement a schema declaration?  It compares
    the binding with the binding *expected* for the declaration: field order,
    Go field names (utils.ToCamelCase of the schema names), Go kinds, mode-bit
    conditionals, constructor ids, the switch over the constructors of a sum
    type.  Definitions only; soundness is in Proofs/TlMatchP.v, TlSoundP.v, TlApiP.v
    (if [matches_all S F B] then the model of B equals the wire-format spec of S). *)
From Coq Require Import String Ascii List NArith Arith Bool.
From Tongo Require Import Lib.Bits Lib.Res Spec.TlWire Model.Tl.
Import ListNotations.
Local Open Scope string_scope.
Local Open Scope list_scope.
Local Open Scope N_scope.

(** * utils.ToCamelCase *)
Definition is_up (c : ascii) : bool := let n := N_of_ascii c in (65 <=? n) && (n <=? 90).
Definition is_low (c : ascii) : bool := let n := N_of_ascii c in (97 <=? n) && (n <=? 122).
Definition is_digit (c : ascii) : bool := let n := N_of_ascii c in (48 <=? n) && (n <=? 57).
Definition to_up (c : ascii) : ascii := ascii_of_N (N_of_ascii c - 32).
Definition is_sep (c : ascii) : bool :=
  let n := N_of_ascii c in (n =? 95) || (n =? 32) || (n =? 45) || (n =? 46).   (* _ space - . *)

Fixpoint camel_go (s : string) (cap_next : bool) : string :=
  match s with
  | EmptyString => EmptyString
  | String c t =>
      if is_up c || is_low c then
        String (if cap_next && is_low c then to_up c else c) (camel_go t false)
      else if is_digit c then String c (camel_go t true)
      else camel_go t (is_sep c)
  end.
Definition camel (s : string) : string := camel_go s true.

(** * Naming of values dumped from Go structs: Go field names; a struct that is
    not a sum carries no name; a sum carries the Go name of its constructor *)
Definition single (S : schema) (d : decl) : bool :=
  Nat.eqb (length (ctors_of S (dres d))) 1.
Definition go_naming (S : schema) : naming :=
  mknaming camel (fun _ => "") (fun d => if single S d then "" else camel (dname d)).

(** * Expected bindings (the generator's scheme, on the abstract syntax) *)
Definition cname (d : decl) : string := (camel (dname d) ++ "C")%string.

Fixpoint goty (t : ty) : option gty :=
  match t with
  | TInt | TNat => Some GU32
  | TLong => Some GU64
  | TInt256 => Some GInt256
  | TBytes => Some GBytes
  | TString => Some GString
  | TBool => Some GBool
  | TTrue => None
  | TVector e => opt g <- goty e; Some (GSlice g)
  | TBare c => Some (GNamed ((camel c ++ "C")%string))
  | TBoxed T => Some (GNamed (camel T))
  end.
(* kinds the generator does not wrap in a pointer when optional *)
Definition nilable (t : ty) : bool := match t with TBytes | TVector _ => true | _ => false end.

Definition opt_cat {A} (l : list (option (list A))) : option (list A) :=
  fold_right (fun o acc => opt a <- o; opt b <- acc; Some (a ++ b)) (Some []) l.

Definition gofield (f : field) : option (list (string * gty)) :=
  if is_true_ty (fty f) then Some [] else
  opt g <- goty (fty f);
  Some [(camel (fname f),
         match fcond f with Some _ => if nilable (fty f) then g else GPtr g | None => g end)].

Definition mstmt_of (pre : list string) (f : field) : option (list stmt) :=
  match fcond f with
  | None => if is_true_ty (fty f) then None else Some [Field (pre ++ [camel (fname f)], None)]
  | Some (m, n) =>
      if is_true_ty (fty f) then Some []
      else Some [IfBit (camel m) n [(pre ++ [camel (fname f)], None)]]
  end.

Definition ustmt_of (pre : list string) (f : field) : option (list stmt) :=
  match fcond f with
  | None => if is_true_ty (fty f) then None else Some [Field (pre ++ [camel (fname f)], None)]
  | Some (m, n) =>
      if is_true_ty (fty f) then Some [IfBit (camel m) n []]
      else opt g <- goty (fty f);
           Some [IfBit (camel m) n [(pre ++ [camel (fname f)], Some (g, negb (nilable (fty f))))]]
  end.

Definition gostruct (d : decl) : option gty :=
  opt fs <- opt_cat (map gofield (dfields d)); Some (GStruct fs).
Definition mstmts (pre : list string) (d : decl) : option (list stmt) :=
  opt_cat (map (mstmt_of pre) (dfields d)).
Definition ustmts (pre : list string) (d : decl) : option (list stmt) :=
  opt_cat (map (ustmt_of pre) (dfields d)).
Definition no_conds (d : decl) : bool :=
  forallb (fun f => match fcond f with None => true | Some _ => false end) (dfields d).

(* type Xc struct {...}; both methods over the fields in order *)
Definition expected_single (d : decl) : option binding :=
  opt t <- gostruct d; opt ms <- mstmts [] d; opt us <- ustmts [] d;
  Some (mkbinding (cname d) t (MPlain ms) (UPlain us)).

(* type XRequest struct {...}; MarshalTL only when there are fields *)
Definition expected_request (f : decl) : option binding :=
  opt t <- gostruct f; opt ms <- mstmts [] f; opt us <- ustmts [] f;
  Some (mkbinding ((camel (dname f) ++ "Request")%string) t
                  (match dfields f with [] => MNone | _ => MPlain ms end) (UPlain us)).

(* type T struct { tl.SumType; C1 struct{...}; C2 struct{...} } *)
Definition expected_sum (T : string) (ds : list decl) : option binding :=
  if negb (forallb no_conds ds) then None else
  opt fs <- opt_cat (map (fun d => opt t <- gostruct d; Some [(camel (dname d), t)]) ds);
  opt mc <- opt_cat (map (fun d => opt ms <- mstmts [camel (dname d)] d;
                                   Some [(camel (dname d), WriteTag (did d) :: ms)]) ds);
  opt uc <- opt_cat (map (fun d => opt us <- ustmts [camel (dname d)] d;
                                   Some [(did d, camel (dname d), us)]) ds);
  Some (mkbinding (camel T) (GStruct (("SumType", GSumTag) :: fs)) (MSwitch mc) (USwitch uc)).

(* hand-written boxed wrapper of a single-constructor type: type T Tc *)
Definition expected_wrapper (d : decl) : binding :=
  mkbinding (camel (dres d)) (GNamed (cname d))
            (MPlain [WriteTag (did d); Self (cname d)])
            (UPlain [ReadTag (did d); Self (cname d)]).

(** * Structural equality *)
Fixpoint list_eqb {A} (eqb : A -> A -> bool) (a b : list A) : bool :=
  match a, b with
  | [], [] => true
  | x :: a', y :: b' => eqb x y && list_eqb eqb a' b'
  | _, _ => false
  end.

Fixpoint gty_eqb (a b : gty) {struct a} : bool :=
  match a, b with
  | GU32, GU32 | GU64, GU64 | GBool, GBool | GBytes, GBytes | GString, GString
  | GInt256, GInt256 | GSumTag, GSumTag => true
  | GSlice x, GSlice y | GPtr x, GPtr y => gty_eqb x y
  | GNamed x, GNamed y | GOther x, GOther y => String.eqb x y
  | GStruct xs, GStruct ys =>
      (fix go (xs ys : list (string * gty)) {struct xs} : bool :=
         match xs, ys with
         | [], [] => true
         | (n, x) :: xs', (m, y) :: ys' => String.eqb n m && gty_eqb x y && go xs' ys'
         | _, _ => false
         end) xs ys
  | _, _ => false
  end.

Definition tmp_eqb (a b : option (gty * bool)) : bool :=
  match a, b with
  | None, None => true
  | Some (x, p), Some (y, q) => gty_eqb x y && Bool.eqb p q
  | _, _ => false
  end.
Definition access_eqb (a b : access) : bool :=
  list_eqb String.eqb (fst a) (fst b) && tmp_eqb (snd a) (snd b).
Definition stmt_eqb (a b : stmt) : bool :=
  match a, b with
  | Field x, Field y => access_eqb x y
  | IfBit m n x, IfBit m' n' y => String.eqb m m' && (n =? n') && list_eqb access_eqb x y
  | WriteTag x, WriteTag y | ReadTag x, ReadTag y => x =? y
  | Self x, Self y => String.eqb x y
  | _, _ => false
  end.
Definition mbody_eqb (a b : mbody) : bool :=
  match a, b with
  | MPlain x, MPlain y => list_eqb stmt_eqb x y
  | MSwitch x, MSwitch y =>
      list_eqb (fun p q => String.eqb (fst p) (fst q) && list_eqb stmt_eqb (snd p) (snd q)) x y
  | MNone, MNone => true
  | _, _ => false
  end.
Definition ubody_eqb (a b : ubody) : bool :=
  match a, b with
  | UPlain x, UPlain y => list_eqb stmt_eqb x y
  | USwitch x, USwitch y =>
      list_eqb (fun p q => (fst (fst p) =? fst (fst q)) && String.eqb (snd (fst p)) (snd (fst q))
                           && list_eqb stmt_eqb (snd p) (snd q)) x y
  | _, _ => false
  end.
Definition binding_eqb (a b : binding) : bool :=
  String.eqb (b_name a) (b_name b) && gty_eqb (b_type a) (b_type b)
  && mbody_eqb (b_marshal a) (b_marshal b) && ubody_eqb (b_unmarshal a) (b_unmarshal b).

(** * The checker *)
(* the binding expected for a declaration of the types section *)
Definition expected_for (S : schema) (d : decl) : option binding :=
  if single S d then expected_single d else expected_sum (dres d) (ctors_of S (dres d)).

Definition has (B : bindings) (e : option binding) : bool :=
  match e with
  | Some x => match find_binding B (b_name x) with
              | Some b => binding_eqb b x
              | None => false
              end
  | None => false
  end.

(* [matches d b]: b is the binding the schema line d calls for *)
Definition matches (S : schema) (d : decl) (b : binding) : bool :=
  match expected_for S d with Some x => binding_eqb b x | None => false end.
Definition matches_request (f : decl) (b : binding) : bool :=
  match expected_request f with Some x => binding_eqb b x | None => false end.

(* named types a declaration refers to *)
Fixpoint ty_refs (t : ty) : list ty :=
  match t with
  | TVector e => ty_refs e
  | TBare _ | TBoxed _ => [t]
  | _ => []
  end.
Definition decl_refs (d : decl) : list ty := flat_map (fun f => ty_refs (fty f)) (dfields d).

(* a reference is served: bare c -> the binding of the single-constructor
   declaration c; boxed T -> the sum binding of T, or the hand-written wrapper
   when T has one constructor *)
Definition ref_ok (S : schema) (B : bindings) (t : ty) : bool :=
  match t with
  | TBare c => match find_ctor S c with
               | Some d => single S d && has B (expected_single d)
               | None => false
               end
  | TBoxed T => match ctors_of S T with
                | [] => false
                | [d] => has B (Some (expected_wrapper d))
                | d :: _ => has B (expected_sum T (ctors_of S T))
                end
  | _ => true
  end.

(* Go field names of a declaration are pairwise distinct; so are the Go names
   of the constructors of a sum type, and none of them is "SumType" *)
Definition names_ok (d : decl) : bool := nodup_str (map (fun f => camel (fname f)) (dfields d)).
Definition sum_names_ok (S : schema) (d : decl) : bool :=
  nodup_str ("SumType" :: map (fun d' => camel (dname d')) (ctors_of S (dres d))).

(* decodeVector pre-allocates min(count, maxPrealloc) elements: never above
   maxAlloc when an element is at most 2^36 bytes *)
Definition esz_limit : N := 68719476736.
Fixpoint vec_ok (B : bindings) (t : ty) : bool :=
  match t with
  | TVector e =>
      match goty e with Some g => gsize B g <=? esz_limit | None => false end && vec_ok B e
  | _ => true
  end.

(* everything a type expression refers to is served by the bindings *)
Definition ty_ok (S : schema) (B : bindings) (t : ty) : bool :=
  forallb (ref_ok S B) (ty_refs t) && vec_ok B t.

(* [matches_all S F B]: every declaration of the types section S and every
   function of F has its expected binding in B, and every field type is served *)
Definition matches_all (S F : list decl) (B : bindings) : bool :=
  forallb (fun d => has B (expected_for S d)) S
  && forallb (fun f => has B (expected_request f)) F
  && forallb (fun d => forallb (fun f => ty_ok S B (fty f)) (dfields d)) (S ++ F)
  && forallb names_ok (S ++ F)
  && forallb (sum_names_ok S) S
  && nodup_str (map b_name B).

(* the type expression under which a declaration of the types section is used
   on its own: bare for a single-constructor type, boxed for a sum *)
Definition decl_ty (S : schema) (d : decl) : ty :=
  if single S d then TBare (dname d) else TBoxed (dres d).

(* every TL binding of the Go package is called for by the schema *)
Definition no_stray (S F : list decl) (B : bindings) : bool :=
  forallb (fun b =>
    existsb (fun d => has [b] (expected_for S d) || has [b] (Some (expected_wrapper d))) S
    || existsb (fun f => has [b] (expected_request f)) F) B.

(** * Request methods *)
Definition result_goname (S : schema) (T : string) : option string :=
  match ctors_of S T with
  | [] => None
  | [d] => Some (cname d)
  | _ => Some (camel T)
  end.

Definition matches_method (S : schema) (f : decl) (m : method) : bool :=
  m_shape m
  && String.eqb (m_name m) (camel (dname f))
  && match m_req m, dfields f with
     | None, [] => true
     | Some r, _ :: _ => String.eqb r ((camel (dname f) ++ "Request")%string)
     | _, _ => false
     end
  && (m_req_id m =? did f)
  && match find_ctor S "liteServer.error" with
     | Some e => (m_err_id m =? did e) && single S e
     | None => false
     end
  && list_eqb N.eqb (m_resp_ids m) (map did (ctors_of S (dres f)))
  && Nat.eqb (length (ctors_of S (dres f))) 1
  && match result_goname S (dres f) with
     | Some n => String.eqb n (m_resp_ty m)
     | None => false
     end
  && negb (existsb (N.eqb (m_err_id m)) (m_resp_ids m)).

Definition methods_ok (S F : list decl) (ms : list method) : bool :=
  Nat.eqb (length F) (length ms)
  && forallb (fun f => existsb (matches_method S f) ms) F.

(* taggedRequestDecodeFunctions: one row per function, keyed by its id *)
Definition table_ok (F : list decl) (tab : list (N * N * string * string)) : bool :=
  Nat.eqb (length F) (length tab)
  && forallb (fun f =>
       existsb (fun row => let '(key, tag, gt, tlname) := row in
                           (key =? did f) && (tag =? did f)
                           && String.eqb gt ((camel (dname f) ++ "Request")%string)
                           && String.eqb tlname (dname f)) tab) F
  && nodup_N (map (fun row => fst (fst (fst row))) tab).

(** * Sizes: every vector element type is small enough for makeslice *)
Fixpoint slice_elems (t : gty) : list gty :=
  match t with
  | GSlice e => e :: slice_elems e
  | GPtr e => slice_elems e
  | GStruct fs => (fix go (l : list (string * gty)) : list gty :=
                     match l with [] => [] | (_, x) :: l' => slice_elems x ++ go l' end) fs
  | _ => []
  end.
Definition max_esz (B : bindings) : N :=
  fold_right N.max 0 (map (gsize B) (flat_map (fun b => slice_elems (b_type b)) B)).

(* every slice element type below t (not through named types) is at most E bytes *)
Definition slices_ok (B : bindings) (E : N) (t : gty) : bool :=
  forallb (fun e => gsize B e <=? E) (slice_elems t).
Definition acc_ok (B : bindings) (E : N) (a : access) : bool :=
  match snd a with Some (t, _) => slices_ok B E t | None => true end.
Definition stmt_ok (B : bindings) (E : N) (s : stmt) : bool :=
  match s with
  | Field a => acc_ok B E a
  | IfBit _ _ body => forallb (acc_ok B E) body
  | _ => true
  end.
Definition ubody_ok (B : bindings) (E : N) (u : ubody) : bool :=
  match u with
  | UPlain ss => forallb (stmt_ok B E) ss
  | USwitch cs => forallb (fun c => forallb (stmt_ok B E) (snd c)) cs
  end.
Definition binding_ok (B : bindings) (E : N) (b : binding) : bool :=
  slices_ok B E (b_type b) && ubody_ok B E (b_unmarshal b).
Definition wf_bindings (B : bindings) (E : N) : bool := forallb (binding_ok B E) B.
