(** Model of the two tag grammars of package tlb (tlb/tags.go):

    [ParseTag] — constructor tags of tagged unions and of Magic fields:
       name#hex | name$bin | name#_ | name$_      (the first '#' or '$' separates)
       length = number of binary digits, or 4 x number of hex digits; "_" = empty tag;
       the digits are read by strconv.ParseUint(body, base, 32): no sign, no '_',
       upper or lower case hex, value below 2^32.

    [parseTag] — field tags: "maybe^" | "maybe" | "^" prefixes (in this order of
       testing), the rest is ignored unless it mentions bits / bytes (deprecated). *)
From Coq Require Import List NArith Ascii String Bool.
Import ListNotations.
Local Open Scope string_scope.

Definition is_char (a b : ascii) : bool := Ascii.eqb a b.

Fixpoint split_sep (s : string) : option (ascii * string) :=
  match s with
  | EmptyString => None
  | String c r => if is_char c "$" || is_char c "#" then Some (c, r) else split_sep r
  end.

Definition digit (base : N) (c : ascii) : option N :=
  let n := N_of_ascii c in
  let v := if (48 <=? n)%N && (n <=? 57)%N then Some (n - 48)%N
           else if (97 <=? n)%N && (n <=? 102)%N then Some (n - 87)%N
           else if (65 <=? n)%N && (n <=? 70)%N then Some (n - 55)%N
           else None in
  match v with Some d => if (d <? base)%N then Some d else None | None => None end.

Fixpoint digits (base : N) (s : string) (acc : N) : option N :=
  match s with
  | EmptyString => Some acc
  | String c r => match digit base c with Some d => digits base r (acc * base + d)%N | None => None end
  end.

(* (length in bits, value) or None = ErrInvalidTag / a ParseUint error *)
Definition parse_tag (s : string) : option (nat * N) :=
  match split_sep s with
  | None => None
  | Some (sep, body) =>
      match body with
      | EmptyString => None
      | _ =>
          if String.eqb body "_" then Some (0%nat, 0%N) else
          let base := if is_char sep "$" then 2%N else 16%N in
          let len := if is_char sep "$" then String.length body else (4 * String.length body)%nat in
          match digits base body 0 with
          | Some v => if (v <? 2 ^ 32)%N then Some (len, v) else None
          | None => None
          end
      end
  end.

(** field tags *)
Definition has_prefix (p s : string) : bool := String.prefix p s.

Fixpoint contains (p s : string) : bool :=
  has_prefix p s || match s with EmptyString => false | String _ r => contains p r end.

Fixpoint drop (n : nat) (s : string) : string :=
  match n, s with
  | O, _ => s
  | S n', String _ r => drop n' r
  | _, EmptyString => EmptyString
  end.

Fixpoint trim_left (s : string) : string :=
  match s with
  | String c r => if is_char c " " then trim_left r else s
  | EmptyString => s
  end.

Record field_tag := mkft { ft_ref : bool; ft_maybe : bool; ft_maybe_ref : bool }.

(* None = the "deprecated format" error *)
Definition parse_field_tag (s : string) : option field_tag :=
  match s with
  | EmptyString => Some (mkft false false false)
  | _ =>
      let mr := has_prefix "maybe^" s in
      let s1 := if mr then drop 6 s else s in
      let m := has_prefix "maybe" s1 in
      let s2 := if m then drop 5 s1 else s1 in
      match s2 with
      | EmptyString => Some (mkft false m mr)
      | String c r =>
          let isref := is_char c "^" in
          let s3 := if isref then trim_left r else s2 in
          match s3 with
          | EmptyString => Some (mkft isref m mr)
          | _ =>
              if contains "#" s3 || contains "$" s3 then Some (mkft isref m mr)
              else if contains "bits" s3 || contains "bytes" s3 then None
              else Some (mkft isref m mr)
          end
      end
  end.

(* what the descriptors rely on: the value of a tag fits its length *)
Definition tag_fits (t : nat * N) : bool := (snd t <? 2 ^ N.of_nat (fst t))%N || Nat.eqb (fst t) 0 && N.eqb (snd t) 0.
