(** What tlb/decoder.go does when the cell to decode is a LIBRARY cell (the
    prologue of [decode]), by kind of the Go target:

      *boc.Cell   -> the library cell itself is stored (never resolved)
      *tlb.Any    -> the library cell itself is stored (never resolved)
      typed value -> the cell returned by the configured resolver is decoded
                     instead; without a resolver, or if it fails, an error

    The cells themselves are opaque here. *)
From Coq Require Import List.
From Tongo Require Import Lib.Res Model.TlbCore.

Inductive lib_target := TgtRawCell | TgtAny | TgtTyped.

Inductive lib_outcome :=
| LibKeep (c : ctree)        (* the library cell is the decoded value *)
| LibDecode (c : ctree)      (* decoding continues on this (resolved) cell *)
| LibError.

Definition lib_step (tgt : lib_target) (resolver : option (ctree -> option ctree)) (lib : ctree) : lib_outcome :=
  match tgt with
  | TgtRawCell | TgtAny => LibKeep lib
  | TgtTyped =>
      match resolver with
      | None => LibError
      | Some f => match f lib with Some c => LibDecode c | None => LibError end
      end
  end.

(** a resolver can only matter at typed positions *)
Theorem lib_resolver_scope : forall tgt r1 r2 lib,
  tgt <> TgtTyped -> lib_step tgt r1 lib = LibKeep lib /\ lib_step tgt r1 lib = lib_step tgt r2 lib.
Proof. intros [ | | ] r1 r2 lib H; [split; reflexivity|split; reflexivity|contradiction]. Qed.
