(** C20 model, part 1: the text primitives the JSON methods of tongo are built
    from.  Strings are lists of byte values ([N] below 256).

    Modelled Go functions (tied to the real ones by the correspondence run):
    strconv.FormatUint/FormatInt (via fmt %d), strconv.ParseUint / ParseInt
    with a bit size, big.Int.SetString base 10, fmt %x, encoding/hex
    DecodeString, strings.Trim / bytes.Trim with an ASCII cutset, strings.Split
    on ':', utf8.DecodeRune, the encoding/json scanner (checkValid), the JSON
    string unquoter, and the parts of fmt.Sscanf / Fscanf used by the library
    (verbs %d,%d into uint32 and a quoted %x into []byte). *)
From Coq Require Import List NArith ZArith Bool.
From Tongo Require Import Lib.Bits Lib.Res.
Import ListNotations.
Local Open Scope N_scope.

Definition str := list N.

Definition ESyntax : N := 40.
Definition ERange : N := 41.
Definition EJson : N := 42.

(** * characters *)
Definition is_digit (c : N) : bool := (48 <=? c) && (c <=? 57).
Definition ch_quote : N := 34.
Definition ch_colon : N := 58.
Definition ch_minus : N := 45.
Definition ch_plus : N := 43.
Definition ch_under : N := 95.

Fixpoint str_eqb (a b : str) : bool :=
  match a, b with
  | [], [] => true
  | x :: a', y :: b' => (x =? y) && str_eqb a' b'
  | _, _ => false
  end.

Fixpoint has_prefix (p s : str) : option str :=      (* rest after the prefix *)
  match p, s with
  | [], _ => Some s
  | x :: p', y :: s' => if x =? y then has_prefix p' s' else None
  | _ :: _, [] => None
  end.

Definition has_prefix_b (p s : str) : bool :=
  match has_prefix p s with Some _ => true | None => false end.
Definition has_suffix_b (p s : str) : bool := has_prefix_b (rev p) (rev s).

(* Go slice expression s[lo:hi] on a string: panics unless lo <= hi <= len(s) *)
Definition go_slice (lo hi : nat) (s : str) : res str :=
  if (lo <=? hi)%nat && (hi <=? length s)%nat
  then Ok (firstn (hi - lo) (skipn lo s)) else Panic PSlice.

(** strings.Trim(s, cutset) for an ASCII cutset: byte-wise on both ends *)
Fixpoint trim_left (f : N -> bool) (s : str) : str :=
  match s with
  | c :: t => if f c then trim_left f t else s
  | [] => []
  end.
(* reversal in linear time (documents holding a bag of cells are long) *)
Definition frev (s : str) : str := rev_append s [].
Definition trim (f : N -> bool) (s : str) : str :=
  frev (trim_left f (frev (trim_left f s))).

Definition is_quote (c : N) : bool := c =? 34.
Definition is_quote_sp_nl (c : N) : bool := (c =? 34) || (c =? 32) || (c =? 10).   (* cutset: quote, space, newline *)
Definition trim_quotes (s : str) : str := trim is_quote s.

(** strings.Split on a colon *)
Fixpoint split_on (sep : N) (s : str) : list str :=
  match s with
  | [] => [[]]
  | c :: t =>
      if c =? sep then [] :: split_on sep t
      else match split_on sep t with
           | p :: ps => (c :: p) :: ps
           | [] => [[c]]          (* unreachable: split_on is never empty *)
           end
  end.

(** * decimal *)
Fixpoint dec_rev (fuel : nat) (n : N) : str :=
  match fuel with
  | O => []
  | S f => if n <? 10 then [48 + n] else (48 + n mod 10) :: dec_rev f (n / 10)
  end.
(* a number has at most as many decimal digits as binary ones *)
Definition print_N (n : N) : str := rev (dec_rev (S (N.size_nat n)) n).
Definition print_Z (z : Z) : str :=
  match z with
  | Zneg p => ch_minus :: print_N (Npos p)
  | _ => print_N (Z.to_N z)
  end.

Fixpoint dec_value (acc : N) (cs : str) : option N :=
  match cs with
  | [] => Some acc
  | c :: t => if is_digit c then dec_value (acc * 10 + (c - 48)) t else None
  end.
(* one or more decimal digits, nothing else *)
Definition parse_udec (cs : str) : option N :=
  match cs with [] => None | _ => dec_value 0 cs end.
(* optional sign, then one or more digits *)
Definition parse_sdec (cs : str) : option (bool * N) :=
  match cs with
  | [] => None
  | c :: t =>
      if c =? ch_minus then option_map (pair true) (parse_udec t)
      else if c =? ch_plus then option_map (pair false) (parse_udec t)
      else option_map (pair false) (parse_udec cs)
  end.

(* strconv.ParseUint(s, 10, w), 1 <= w <= 64: no sign, no underscore *)
Definition parse_uint (w : N) (cs : str) : res N :=
  match parse_udec cs with
  | None => Err ESyntax
  | Some v => if v <? 2 ^ w then Ok v else Err ERange
  end.

(* strconv.ParseInt(s, 10, w): the magnitude goes through ParseUint(s, 10, w),
   which on overflow returns the clamped value 2^w - 1 together with a range
   error that ParseInt drops before its own comparison with 2^(w-1).  For
   w = 1 the clamped value equals the cutoff, so every negative number is
   accepted as -1. *)
Definition parse_int (w : N) (cs : str) : res Z :=
  match parse_sdec cs with
  | None => Err ESyntax
  | Some (neg, v) =>
      let un := N.min v (2 ^ w - 1) in
      let cutoff := 2 ^ (w - 1) in
      if neg then (if un <=? cutoff then Ok (- Z.of_N un)%Z else Err ERange)
      else (if un <? cutoff then Ok (Z.of_N un) else Err ERange)
  end.

(* new(big.Int).SetString(s, 10): sign, digits, whole string consumed *)
Definition parse_big (cs : str) : res Z :=
  match parse_sdec cs with
  | None => Err ESyntax
  | Some (true, v) => Ok (- Z.of_N v)%Z
  | Some (false, v) => Ok (Z.of_N v)
  end.

(** * hexadecimal *)
Definition hex_lower (d : N) : N := if d <? 10 then 48 + d else 87 + d.
Definition hex_upper (d : N) : N := if d <? 10 then 48 + d else 55 + d.
Definition hex_byte (b : N) : str := [hex_lower (b / 16); hex_lower (b mod 16)].
Definition print_hex (bs : list N) : str := flat_map hex_byte bs.      (* fmt %x of a byte slice *)

Definition hex_val (c : N) : option N :=
  if (48 <=? c) && (c <=? 57) then Some (c - 48)
  else if (97 <=? c) && (c <=? 102) then Some (c - 87)
  else if (65 <=? c) && (c <=? 70) then Some (c - 55)
  else None.

(* hex.DecodeString: pairs of digits, an odd tail or a bad digit is an error *)
Fixpoint hex_decode (cs : str) : option (list N) :=
  match cs with
  | [] => Some []
  | h :: l :: t =>
      match hex_val h, hex_val l, hex_decode t with
      | Some a, Some b, Some r => Some (a * 16 + b :: r)
      | _, _, _ => None
      end
  | _ => None
  end.

(* fmt %x of an unsigned integer: no leading zeros *)
Fixpoint hexn_rev (fuel : nat) (n : N) : str :=
  match fuel with
  | O => []
  | S f => if n <? 16 then [hex_lower n] else hex_lower (n mod 16) :: hexn_rev f (n / 16)
  end.
Definition print_hex_N (n : N) : str := rev (hexn_rev (S (N.size_nat n)) n).

Fixpoint hexn_value (acc : N) (cs : str) : option N :=
  match cs with
  | [] => Some acc
  | c :: t => match hex_val c with Some d => hexn_value (acc * 16 + d) t | None => None end
  end.
(* strconv.ParseUint(s, 16, 64) *)
Definition parse_uint_hex64 (cs : str) : res N :=
  match cs with
  | [] => Err ESyntax
  | _ => match hexn_value 0 cs with
         | None => Err ESyntax
         | Some v => if v <? 2 ^ 64 then Ok v else Err ERange
         end
  end.

(** * UTF-8 as Go decodes it: an invalid byte is the rune U+FFFD of width 1 *)
Definition rune_error : N := 0xFFFD.
Definition cont (b : N) : bool := (0x80 <=? b) && (b <=? 0xBF).
Definition in_rng (lo hi b : N) : bool := (lo <=? b) && (b <=? hi).
(* second-byte range by leading byte (utf8 acceptRanges) *)
Definition second_ok (b0 b1 : N) : bool :=
  if b0 =? 0xE0 then in_rng 0xA0 0xBF b1
  else if b0 =? 0xED then in_rng 0x80 0x9F b1
  else if b0 =? 0xF0 then in_rng 0x90 0xBF b1
  else if b0 =? 0xF4 then in_rng 0x80 0x8F b1
  else cont b1.

Fixpoint runes (cs : str) : list N :=
  match cs with
  | [] => []
  | b0 :: t =>
      if b0 <? 0x80 then b0 :: runes t
      else if (b0 <? 0xC2) || (0xF4 <? b0) then rune_error :: runes t
      else
        match t with
        | b1 :: t1 =>
            if negb (second_ok b0 b1) then rune_error :: runes t
            else if b0 <? 0xE0 then ((b0 - 0xC0) * 64 + (b1 - 0x80)) :: runes t1
            else
              match t1 with
              | b2 :: t2 =>
                  if negb (cont b2) then rune_error :: runes t
                  else if b0 <? 0xF0
                  then ((b0 - 0xE0) * 4096 + (b1 - 0x80) * 64 + (b2 - 0x80)) :: runes t2
                  else
                    match t2 with
                    | b3 :: t3 =>
                        if negb (cont b3) then rune_error :: runes t
                        else ((b0 - 0xF0) * 262144 + (b1 - 0x80) * 4096
                              + (b2 - 0x80) * 64 + (b3 - 0x80)) :: runes t3
                    | [] => rune_error :: runes t
                    end
              | [] => rune_error :: runes t
              end
        | [] => rune_error :: runes t
        end
  end.

(* utf8.EncodeRune (surrogates and values above 10FFFF become U+FFFD) *)
Definition encode_rune (r : N) : str :=
  let r := if (0x10FFFF <? r) || in_rng 0xD800 0xDFFF r then rune_error else r in
  if r <? 0x80 then [r]
  else if r <? 0x800 then [0xC0 + r / 64; 0x80 + r mod 64]
  else if r <? 0x10000 then [0xE0 + r / 4096; 0x80 + (r / 64) mod 64; 0x80 + r mod 64]
  else [0xF0 + r / 262144; 0x80 + (r / 4096) mod 64; 0x80 + (r / 64) mod 64; 0x80 + r mod 64].

(* string -> []rune -> string: invalid bytes become EF BF BD *)
Definition utf8_fix (cs : str) : str := flat_map encode_rune (runes cs).

(** * encoding/json scanner (scanner.go), one state function per constructor *)
Inductive jst :=
| JBeginValueOrEmpty | JBeginValue | JBeginStringOrEmpty | JBeginString
| JEndValue | JEndTop
| JInString | JEsc | JEscU (k : nat)         (* k hex digits of \u still to come *)
| JNeg | J1 | J0 | JDot | JDot0 | JE | JESign | JE0
| JLit (rest : str)                          (* rest of true / false / null *)
| JError.
Inductive pst := PKey | PVal | PArr.
Record scanner := mksc { sc_st : jst; sc_stack : list pst; sc_depth : N; sc_end : bool }.

Definition max_nesting : N := 10000.
Definition json_space (c : N) : bool := (c =? 32) || (c =? 9) || (c =? 13) || (c =? 10).
Definition sc_err (s : scanner) : scanner := mksc JError (sc_stack s) (sc_depth s) (sc_end s).
Definition sc_to (s : scanner) (st : jst) : scanner := mksc st (sc_stack s) (sc_depth s) (sc_end s).
Definition sc_push (s : scanner) (p : pst) (st : jst) : scanner :=
  if sc_depth s + 1 <=? max_nesting
  then mksc st (p :: sc_stack s) (sc_depth s + 1) (sc_end s)
  else mksc JError (p :: sc_stack s) (sc_depth s + 1) (sc_end s).
Definition sc_pop (s : scanner) (rest : list pst) : scanner :=
  match rest with
  | [] => mksc JEndTop [] 0 true
  | _ => mksc JEndValue rest (sc_depth s - 1) (sc_end s)
  end.
Definition is_hex (c : N) : bool := match hex_val c with Some _ => true | None => false end.

Definition st_end_top (s : scanner) (c : N) : scanner :=
  if json_space c then s else sc_err s.

Definition st_end_value (s : scanner) (c : N) : scanner :=
  match sc_stack s with
  | [] => st_end_top (mksc JEndTop [] (sc_depth s) true) c
  | ps :: rest =>
      if json_space c then sc_to s JEndValue
      else match ps with
           | PKey => if c =? 58 then mksc JBeginValue (PVal :: rest) (sc_depth s) (sc_end s)
                     else sc_err s
           | PVal => if c =? 44 then mksc JBeginString (PKey :: rest) (sc_depth s) (sc_end s)
                     else if c =? 125 then sc_pop s rest
                     else sc_err s
           | PArr => if c =? 44 then sc_to s JBeginValue
                     else if c =? 93 then sc_pop s rest
                     else sc_err s
           end
  end.

Definition st_begin_value (s : scanner) (c : N) : scanner :=
  if json_space c then s
  else if c =? 123 then sc_push s PKey JBeginStringOrEmpty
  else if c =? 91 then sc_push s PArr JBeginValueOrEmpty
  else if c =? 34 then sc_to s JInString
  else if c =? 45 then sc_to s JNeg
  else if c =? 48 then sc_to s J0
  else if c =? 116 then sc_to s (JLit [114; 117; 101])
  else if c =? 102 then sc_to s (JLit [97; 108; 115; 101])
  else if c =? 110 then sc_to s (JLit [117; 108; 108])
  else if (49 <=? c) && (c <=? 57) then sc_to s J1
  else sc_err s.

Definition st_begin_string (s : scanner) (c : N) : scanner :=
  if json_space c then s
  else if c =? 34 then sc_to s JInString
  else sc_err s.

Definition st_0 (s : scanner) (c : N) : scanner :=
  if c =? 46 then sc_to s JDot
  else if (c =? 101) || (c =? 69) then sc_to s JE
  else st_end_value s c.

Definition st_esign (s : scanner) (c : N) : scanner :=
  if is_digit c then sc_to s JE0 else sc_err s.

Definition sc_step (s : scanner) (c : N) : scanner :=
  match sc_st s with
  | JError => s
  | JBeginValueOrEmpty =>
      if json_space c then s
      else if c =? 93 then st_end_value s c
      else st_begin_value s c
  | JBeginValue => st_begin_value s c
  | JBeginStringOrEmpty =>
      if json_space c then s
      else if c =? 125 then
        match sc_stack s with
        | _ :: rest => st_end_value (mksc (sc_st s) (PVal :: rest) (sc_depth s) (sc_end s)) c
        | [] => sc_err s
        end
      else st_begin_string s c
  | JBeginString => st_begin_string s c
  | JEndValue => st_end_value s c
  | JEndTop => st_end_top s c
  | JInString =>
      if c =? 34 then sc_to s JEndValue
      else if c =? 92 then sc_to s JEsc
      else if c <? 32 then sc_err s
      else s
  | JEsc =>
      if (c =? 98) || (c =? 102) || (c =? 110) || (c =? 114) || (c =? 116)
         || (c =? 92) || (c =? 47) || (c =? 34) then sc_to s JInString
      else if c =? 117 then sc_to s (JEscU 4)
      else sc_err s
  | JEscU k =>
      if is_hex c then
        match k with
        | S (S k') => sc_to s (JEscU (S k'))
        | _ => sc_to s JInString
        end
      else sc_err s
  | JNeg =>
      if c =? 48 then sc_to s J0
      else if (49 <=? c) && (c <=? 57) then sc_to s J1
      else sc_err s
  | J1 => if is_digit c then s else st_0 s c
  | J0 => st_0 s c
  | JDot => if is_digit c then sc_to s JDot0 else sc_err s
  | JDot0 =>
      if is_digit c then s
      else if (c =? 101) || (c =? 69) then sc_to s JE
      else st_end_value s c
  | JE => if (c =? 43) || (c =? 45) then sc_to s JESign else st_esign s c
  | JESign => st_esign s c
  | JE0 => if is_digit c then s else st_end_value s c
  | JLit rest =>
      match rest with
      | [] => sc_err s
      | x :: r =>
          if c =? x then (match r with [] => sc_to s JEndValue | _ => sc_to s (JLit r) end)
          else sc_err s
      end
  end.

Definition sc_init : scanner := mksc JBeginValue [] 0 false.

(* json.Valid / checkValid *)
Definition json_valid (doc : str) : bool :=
  let s := fold_left sc_step doc sc_init in
  match sc_st s with
  | JError => false
  | _ => if sc_end s then true
         else let s' := sc_step s 32 in
              match sc_st s' with JError => false | _ => sc_end s' end
  end.

(* the bytes of the (single) top-level value of a valid document: what an
   Unmarshaler receives *)
Definition json_item (doc : str) : str := trim json_space doc.

(** * JSON string literal -> Go string (decode.go unquoteBytes), for a literal
      the scanner accepted.  [cs] starts after the opening quote. *)
Definition hex4 (a b c d : N) : option N :=
  match hex_val a, hex_val b, hex_val c, hex_val d with
  | Some x, Some y, Some z, Some w => Some (x * 4096 + y * 256 + z * 16 + w)
  | _, _, _, _ => None
  end.
Definition is_surrogate (r : N) : bool := in_rng 0xD800 0xDFFF r.
(* utf16.DecodeRune *)
Definition utf16_pair (r1 r2 : N) : option N :=
  if in_rng 0xD800 0xDBFF r1 && in_rng 0xDC00 0xDFFF r2
  then Some ((r1 - 0xD800) * 1024 + (r2 - 0xDC00) + 0x10000) else None.
Definition esc_char (e : N) : option N :=
  if (e =? 34) || (e =? 92) || (e =? 47) || (e =? 39) then Some e
  else if e =? 98 then Some 8 else if e =? 102 then Some 12
  else if e =? 110 then Some 10 else if e =? 114 then Some 13
  else if e =? 116 then Some 9 else None.

Fixpoint unescape (cs : str) : option str :=
  match cs with
  | [] => None                                   (* no closing quote *)
  | c :: t =>
      if c =? 34 then (match t with [] => Some [] | _ => None end)
      else if c =? 92 then
        match t with
        | [] => None
        | e :: t1 =>
            if e =? 117 then
              match t1 with
              | h1 :: h2 :: h3 :: h4 :: t2 =>
                  match hex4 h1 h2 h3 h4 with
                  | None => None
                  | Some rr =>
                      if is_surrogate rr then
                        match t2 with
                        | 92 :: 117 :: g1 :: g2 :: g3 :: g4 :: t3 =>
                            match hex4 g1 g2 g3 g4 with
                            | Some rr1 =>
                                match utf16_pair rr rr1 with
                                | Some r => option_map (app (encode_rune r)) (unescape t3)
                                | None => option_map (app (encode_rune rune_error)) (unescape t2)
                                end
                            | None => option_map (app (encode_rune rune_error)) (unescape t2)
                            end
                        | _ => option_map (app (encode_rune rune_error)) (unescape t2)
                        end
                      else option_map (app (encode_rune rr)) (unescape t2)
                  end
              | _ => None
              end
            else
              match esc_char e with
              | Some x => option_map (cons x) (unescape t1)
              | None => None
              end
        end
      else if c <? 32 then None
      else option_map (cons c) (unescape t)
  end.

(* json.Unmarshal(data, &s) with s a Go string that is empty before the call *)
Definition json_unmarshal_string (data : str) : res str :=
  if json_valid data then
    match json_item data with
    | 34 :: t => match unescape (utf8_fix t) with Some s => Ok s | None => Err EJson end
    | 110 :: _ => Ok []                          (* null: target unchanged *)
    | _ => Err EJson                             (* number, bool, array, object *)
    end
  else Err EJson.

(* characters json.Marshal copies verbatim into a string literal *)
Definition json_plain (c : N) : bool :=
  (32 <=? c) && (c <? 127) && negb (c =? 34) && negb (c =? 92)
  && negb (c =? 60) && negb (c =? 62) && negb (c =? 38).
Definition quote (s : str) : str := ch_quote :: s ++ [ch_quote].
(* json.Marshal(string) for strings of plain characters (all the library prints) *)
Definition json_marshal_string (s : str) : res str :=
  if forallb json_plain s then Ok (quote s) else Err EOther.

(** * fmt scanning *)
(* fmt.isSpace on runes *)
Definition fmt_space (r : N) : bool :=
  in_rng 0x09 0x0D r || (r =? 0x20) || (r =? 0x85) || (r =? 0xA0) || (r =? 0x1680)
  || in_rng 0x2000 0x200A r || in_rng 0x2028 0x2029 r || (r =? 0x202F) || (r =? 0x205F)
  || (r =? 0x3000).

(* ss.SkipSpace with nlIsSpace = false *)
Fixpoint skip_space (rs : list N) : res (list N) :=
  match rs with
  | [] => Ok []
  | r :: t => if r =? 10 then Err ESyntax
              else if fmt_space r then skip_space t else Ok rs
  end.

Fixpoint span_digits (rs : list N) : str * list N :=
  match rs with
  | r :: t => if is_digit r then let '(d, rest) := span_digits t in (r :: d, rest) else ([], rs)
  | [] => ([], [])
  end.

(* verb %d into a uint32 *)
Definition scan_uint32 (rs : list N) : res (N * list N) :=
  do rs1 <- skip_space rs;
  match span_digits rs1 with
  | ([], _) => Err ESyntax                       (* EOF or: expected integer *)
  | (ds, rest) =>
      match dec_value 0 ds with
      | Some v => if v <? 2 ^ 32 then Ok (v, rest) else Err ERange
      | None => Err ESyntax
      end
  end.

(* fmt.Sscanf(s, %d,%d, &depth, &prefix); trailing input is ignored *)
Definition sscanf_d_d (s : str) : res (N * N) :=
  do (a, rest) <- scan_uint32 (runes s);
  match rest with
  | 44 :: rest1 => do (b, _) <- scan_uint32 rest1; Ok (a, b)
  | _ => Err ESyntax
  end.

(* hexString of verb %x: pairs of hex digits up to the first non-digit *)
Fixpoint scan_hex_pairs (rs : list N) : res (list N * list N) :=
  match rs with
  | a :: t =>
      match hex_val a with
      | None => Ok ([], rs)
      | Some x =>
          match t with
          | b :: t' =>
              match hex_val b with
              | Some y => do (bs, rest) <- scan_hex_pairs t'; Ok (x * 16 + y :: bs, rest)
              | None => Err ESyntax              (* illegal hex digit *)
              end
          | [] => Err ESyntax                    (* unexpected EOF *)
          end
      end
  | [] => Ok ([], [])
  end.

(* fmt.Fscanf(r, quoted %x, &sl): Ok (sl, err?) -- the scan stores the bytes
   before it matches the closing quote, so a failure there leaves sl set *)
Definition fscanf_quoted_hex (buf : str) : list N * bool :=
  match runes buf with
  | 34 :: rs =>
      match skip_space rs with
      | Ok [] => ([], false)                     (* EOF before the operand *)
      | Ok rs1 =>
          match scan_hex_pairs rs1 with
          | Ok ([], _) => ([], false)            (* no hex data *)
          | Ok (bs, rest) => (bs, match rest with 34 :: _ => true | _ => false end)
          | _ => ([], false)
          end
      | _ => ([], false)
      end
  | _ => ([], false)
  end.
