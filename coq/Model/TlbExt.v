(** Extension layer over Model/TlbCore.v for hand-written codecs whose
    serialisation depends on where in the cell it starts:

      SnakeData / Bytes / Text (tlb/models.go): the rest of the cell, continued
        in a chain of cells hanging off the last reference
          tail#_ {bn:#} b:(bits bn) = SnakeData ~0;
          cons#_ {bn:#} {n:#} b:(bits bn) next:^(SnakeData ~n) = SnakeData ~(n + 1);
      FixedLengthText: len:uint8 then len bytes

    The descriptor language [xty] embeds every TlbCore descriptor ([XBase]) and
    repeats the combinators, so that a struct may hold base fields and extended
    ones.  [TlbCore.ty] itself is unchanged (other developments match on it). *)
From Coq Require Import List NArith ZArith Arith Bool.
From Tongo Require Import Lib.Bits Lib.Res Model.TlbCore.
Import ListNotations.

Inductive xty :=
| XBase (t : ty)
| XSnake
| XLenBytes (w : nat)
| XMaybe (t : xty)
| XEither (l r : xty)
| XEitherRef (t : xty)
| XRef (t : xty)
| XMaybeRef (t : xty)
| XStruct (fs : list xty)
| XSum (alts : list (nat * N * xty)).

(** *** snake data *)
(* the chain of fresh cells holding [l]: 1023 bits per cell, the rest in the only reference *)
Fixpoint snake_chain (n : nat) (l : bits) : ctree :=
  match n with
  | O => CT l []
  | S n' => if (length l <=? 1023)%nat then CT l []
            else CT (firstn 1023 l) [snake_chain n' (skipn 1023 l)]
  end.

(* SnakeData.UnmarshalTLB on a whole cell: the bits, then the snake of the first reference *)
Fixpoint snake_read (c : ctree) : bits :=
  match c with
  | CT b [] => b
  | CT b (c1 :: _) => b ++ snake_read c1
  end.

(* what SnakeData.MarshalTLB adds to a cell that already holds [u] bits *)
Definition snake_spec (u : nat) (l : bits) : bits * list ctree :=
  let avail := (1023 - u)%nat in
  if (length l <=? avail)%nat then (l, [])
  else (firstn avail l, [snake_chain (length l) (skipn avail l)]).

Definition put_snake (l : bits) (b : bld) : res bld :=
  let (bs, rs) := snake_spec (length (bb b)) l in
  do b1 <- put_bits bs b;
  match rs with
  | [] => Ok b1
  | c :: _ => put_ref c b1
  end.

Definition get_snake (s : slc) : res (value * slc) :=
  match sr s with
  | [] => Ok (VBits (sb s), mks [] [])
  | c1 :: r' => Ok (VBits (sb s ++ snake_read c1), mks [] r')
  end.

Definition xbase_fuel (t : ty) : nat := fuel_of [] t.

(** *** encoder, decoder, declarative serialisation ([u] = bits already in the cell) *)
Fixpoint xenc (fuel : nat) (t : xty) (v : value) (b : bld) {struct fuel} : res bld :=
  match fuel with
  | O => Err EFuel
  | S f =>
      match t, v with
      | XBase t0, x => enc [] (xbase_fuel t0) t0 x b
      | XSnake, VBits l => put_snake l b
      | XLenBytes w, VBits l =>
          if negb (Nat.eqb (length l mod 8) 0) then Err ETlb else
          do b1 <- put_bits (bits_of w (N.of_nat (length l / 8))) b;
          put_bits l b1
      | XMaybe _, VMaybe None => put_bits [false] b
      | XMaybe t', VMaybe (Some x) => do b1 <- put_bits [true] b; xenc f t' x b1
      | XEither l _, VEither false x => do b1 <- put_bits [false] b; xenc f l x b1
      | XEither _ r, VEither true x => do b1 <- put_bits [true] b; xenc f r x b1
      | XEitherRef t', VEither false x => do b1 <- put_bits [false] b; xenc f t' x b1
      | XEitherRef t', VEither true x =>
          do b1 <- put_bits [true] b;
          do c <- xenc f t' x empty_bld;
          put_ref (finish c) b1
      | XRef t', x => do c <- xenc f t' x empty_bld; put_ref (finish c) b
      | XMaybeRef _, VMaybe None => put_bits [false] b
      | XMaybeRef t', VMaybe (Some x) =>
          do b1 <- put_bits [true] b;
          do c <- xenc f t' x empty_bld;
          put_ref (finish c) b1
      | XStruct fs, VStruct vs =>
          (fix go (fs : list xty) (vs : list value) (b : bld) : res bld :=
             match fs, vs with
             | [], [] => Ok b
             | t1 :: ft, v1 :: vt => do b1 <- xenc f t1 v1 b; go ft vt b1
             | _, _ => Err ETlb
             end) fs vs b
      | XSum alts, VSum k x =>
          match nth_error alts k with
          | Some (len, val, t') => do b1 <- put_bits (bits_of len val) b; xenc f t' x b1
          | None => Err ETlb
          end
      | _, _ => Err ETlb
      end
  end.

Fixpoint xdec (fuel : nat) (t : xty) (s : slc) {struct fuel} : res (value * slc) :=
  match fuel with
  | O => Err EFuel
  | S f =>
      match t with
      | XBase t0 => dec [] (xbase_fuel t0) t0 s
      | XSnake => get_snake s
      | XLenBytes w =>
          do x <- take_bits w s;
          do y <- take_bits (8 * N.to_nat (N_of_bits (fst x))) (snd x);
          Ok (VBits (fst y), snd y)
      | XMaybe t' =>
          do x <- take_bits 1 s;
          if nth 0 (fst x) false then
            do y <- xdec f t' (snd x); Ok (VMaybe (Some (fst y)), snd y)
          else Ok (VMaybe None, snd x)
      | XEither l r =>
          do x <- take_bits 1 s;
          if nth 0 (fst x) false then do y <- xdec f r (snd x); Ok (VEither true (fst y), snd y)
          else do y <- xdec f l (snd x); Ok (VEither false (fst y), snd y)
      | XEitherRef t' =>
          do x <- take_bits 1 s;
          if nth 0 (fst x) false then
            do cr <- take_ref (snd x);
            do y <- xdec f t' (open (fst cr));
            Ok (VEither true (fst y), snd cr)
          else do y <- xdec f t' (snd x); Ok (VEither false (fst y), snd y)
      | XRef t' =>
          do cr <- take_ref s;
          do y <- xdec f t' (open (fst cr));
          Ok (fst y, snd cr)
      | XMaybeRef t' =>
          do x <- take_bits 1 s;
          if nth 0 (fst x) false then
            do cr <- take_ref (snd x);
            do y <- xdec f t' (open (fst cr));
            Ok (VMaybe (Some (fst y)), snd cr)
          else Ok (VMaybe None, snd x)
      | XStruct fs =>
          (fix go (fs : list xty) (s : slc) (acc : list value) : res (value * slc) :=
             match fs with
             | [] => Ok (VStruct (rev acc), s)
             | t1 :: ft => do y <- xdec f t1 s; go ft (snd y) (fst y :: acc)
             end) fs s []
      | XSum alts =>
          (fix go (k : nat) (alts : list (nat * N * xty)) : res (value * slc) :=
             match alts with
             | [] => Err ETlb
             | (len, val, t') :: rest =>
                 if short len (sb s) then go (S k) rest
                 else if N.eqb (N_of_bits (firstn len (sb s))) val then
                   do y <- xdec f t' (mks (skipn len (sb s)) (sr s)); Ok (VSum k (fst y), snd y)
                 else go (S k) rest
             end) 0%nat alts
      end
  end.

Fixpoint xspec (fuel : nat) (t : xty) (v : value) (u : nat) {struct fuel} : option (bits * list ctree) :=
  match fuel with
  | O => None
  | S f =>
      match t, v with
      | XBase t0, x => spec [] (xbase_fuel t0) t0 x
      | XSnake, VBits l => Some (snake_spec u l)
      | XLenBytes w, VBits l =>
          if negb (Nat.eqb (length l mod 8) 0) then None
          else Some (bits_of w (N.of_nat (length l / 8)) ++ l, [])
      | XMaybe _, VMaybe None => Some ([false], [])
      | XMaybe t', VMaybe (Some x) =>
          match xspec f t' x (S u) with Some (bs, rs) => Some (true :: bs, rs) | None => None end
      | XEither l _, VEither false x =>
          match xspec f l x (S u) with Some (bs, rs) => Some (false :: bs, rs) | None => None end
      | XEither _ r, VEither true x =>
          match xspec f r x (S u) with Some (bs, rs) => Some (true :: bs, rs) | None => None end
      | XEitherRef t', VEither false x =>
          match xspec f t' x (S u) with Some (bs, rs) => Some (false :: bs, rs) | None => None end
      | XEitherRef t', VEither true x =>
          match xspec f t' x 0 with Some (bs, rs) => Some ([true], [CT bs rs]) | None => None end
      | XRef t', x =>
          match xspec f t' x 0 with Some (bs, rs) => Some ([], [CT bs rs]) | None => None end
      | XMaybeRef _, VMaybe None => Some ([false], [])
      | XMaybeRef t', VMaybe (Some x) =>
          match xspec f t' x 0 with Some (bs, rs) => Some ([true], [CT bs rs]) | None => None end
      | XStruct fs, VStruct vs =>
          (fix go (fs : list xty) (vs : list value) (u : nat) : option (bits * list ctree) :=
             match fs, vs with
             | [], [] => Some ([], [])
             | t1 :: ft, v1 :: vt =>
                 match xspec f t1 v1 u with
                 | Some (b1, r1) =>
                     match go ft vt (u + length b1)%nat with
                     | Some (b2, r2) => Some (b1 ++ b2, r1 ++ r2)
                     | None => None
                     end
                 | None => None
                 end
             | _, _ => None
             end) fs vs u
      | XSum alts, VSum k x =>
          match nth_error alts k with
          | Some (len, val, t') =>
              match xspec f t' x (u + len)%nat with Some (bs, rs) => Some (bits_of len val ++ bs, rs) | None => None end
          | None => None
          end
      | _, _ => None
      end
  end.

(** *** static conditions and domain *)
Fixpoint xtail (fuel : nat) (t : xty) : bool :=
  match fuel with
  | O => true
  | S f =>
      match t with
      | XBase t0 => tail [] (xbase_fuel t0) t0
      | XSnake => true
      | XMaybe t' | XEitherRef t' => xtail f t'
      | XEither l r => xtail f l || xtail f r
      | XStruct fs =>
          (fix lst (fs : list xty) : bool :=
             match fs with [] => false | [t1] => xtail f t1 | _ :: r => lst r end) fs
      | XSum alts => existsb (fun a => xtail f (snd a)) alts
      | _ => false
      end
  end.

Definition xtag_bits (a : nat * N * xty) : bits := bits_of (fst (fst a)) (snd (fst a)).

Fixpoint xwf (fuel : nat) (t : xty) : bool :=
  match fuel with
  | O => false
  | S f =>
      match t with
      | XBase t0 => wf_ty [] t0
      | XSnake | XLenBytes _ => true
      | XMaybe t' | XEitherRef t' | XRef t' | XMaybeRef t' => xwf f t'
      | XEither l r => xwf f l && xwf f r
      | XStruct fs =>
          forallb (xwf f) fs &&
          (fix nt (fs : list xty) : bool :=
             match fs with
             | [] | [_] => true
             | t1 :: rest => negb (xtail f t1) && nt rest
             end) fs
      | XSum alts =>
          forallb (fun a => xwf f (snd a) && (snd (fst a) <? 2 ^ N.of_nat (fst (fst a)))%N) alts
          && prefix_free (map xtag_bits alts)
      end
  end.

Fixpoint xhas_type (fuel : nat) (t : xty) (v : value) : bool :=
  match fuel with
  | O => false
  | S f =>
      match t, v with
      | XBase t0, x => in_domain [] t0 x
      | XSnake, VBits _ => true
      | XLenBytes w, VBits l => Nat.eqb (length l mod 8) 0 && (N.of_nat (length l / 8) <? 2 ^ N.of_nat w)%N
      | XMaybe _, VMaybe None => true
      | XMaybe t', VMaybe (Some x) => xhas_type f t' x
      | XEither l _, VEither false x => xhas_type f l x
      | XEither _ r, VEither true x => xhas_type f r x
      | XEitherRef t', VEither _ x => xhas_type f t' x
      | XRef t', x => xhas_type f t' x
      | XMaybeRef _, VMaybe None => true
      | XMaybeRef t', VMaybe (Some x) => xhas_type f t' x
      | XStruct fs, VStruct vs =>
          (fix go (fs : list xty) (vs : list value) : bool :=
             match fs, vs with
             | [], [] => true
             | t1 :: ft, v1 :: vt => xhas_type f t1 v1 && go ft vt
             | _, _ => false
             end) fs vs
      | XSum alts, VSum k x =>
          match nth_error alts k with Some a => xhas_type f (snd a) x | None => false end
      | _, _ => false
      end
  end.

Fixpoint xty_depth (t : xty) : nat :=
  match t with
  | XMaybe t' | XEitherRef t' | XRef t' | XMaybeRef t' => S (xty_depth t')
  | XEither l r => S (Nat.max (xty_depth l) (xty_depth r))
  | XStruct fs => S ((fix go (l : list xty) : nat :=
                        match l with [] => O | x :: r => Nat.max (xty_depth x) (go r) end) fs)
  | XSum alts => S ((fix go (l : list (nat * N * xty)) : nat :=
                       match l with [] => O | x :: r => Nat.max (xty_depth (snd x)) (go r) end) alts)
  | _ => 1%nat
  end.

Definition xfuel_of (t : xty) : nat := S (xty_depth t).
Definition xwf_ty (t : xty) : bool := xwf (xfuel_of t) t.
Definition xin_domain (t : xty) (v : value) : bool := xhas_type (xfuel_of t) t v.
Definition xencode (t : xty) (v : value) : res ctree :=
  match xenc (xfuel_of t) t v empty_bld with
  | Ok b => Ok (finish b)
  | Err e => Err e
  | Panic p => Panic p
  end.
Definition xdecode (t : xty) (c : ctree) : res (value * slc) := xdec (xfuel_of t) t (open c).
