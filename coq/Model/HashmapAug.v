(** Model of the remaining dictionary code of package tlb:
    - countLeafs / hashmapAugExtraCountLeafs with the size-only label parser
      loadLabelSize ([load_label_size], Model/Hashmap.v): public through
      BlockExtra.InMsgDescrLength / OutMsgDescrLength;
    - HashmapAug.mapInner / HashmapAugE.UnmarshalTLB (decode only; MarshalTLB
      returns "not implemented"): Keys() / Values() are the observables, the
      extras are decoded (a failure is an error) and not exported;
    - ConfigParams.CloneKeepingSubsetOfKeys (tlb/proof.go) on the pair list of a
      Hashmap 32 ^Cell.
    Same level of abstraction as Model/Hashmap.v. *)
From Coq Require Import List NArith Arith Lia Bool.
From Tongo Require Import Lib.Bits Lib.Res Spec.Dict Model.Hashmap.
Import ListNotations.

(** ** countLeafs(keySize, leftKeySize, c): only the label LENGTH of every node is
    read; a node whose label does not exhaust the remaining key bits is a fork.
    Pruned-branch cells (an error in Go) do not exist at this level. *)
Fixpoint count_leafs (left : nat) (c : cell) : res N :=
  match c with
  | Cell cb refs =>
      do r <- load_label_size left cb;
      let size := fst r in
      if (size <? N.of_nat left)%N then
        let left' := (left - (1 + N.to_nat size))%nat in
        match refs with
        | l :: refs' =>
            do a <- count_leafs left' l;
            match refs' with
            | r :: _ => do b <- count_leafs left' r; Ok (a + b)%N
            | [] => Err ENotEnoughRefs
            end
        | [] => Err ENotEnoughRefs
        end
      else Ok 1%N
  end.

(* hashmapAugExtraCountLeafs: Maybe ^ in front *)
Definition count_leafs_e (n : nat) (c : cell) : res N :=
  match c with
  | Cell [] _ => Err ENotEnoughBits
  | Cell (false :: _) _ => Ok 0%N
  | Cell (true :: _) [] => Err ENotEnoughRefs
  | Cell (true :: _) (r :: _) => count_leafs n r
  end.

(** ** HashmapAug.mapInner *)
Section AugCodec.
Variables X V : Type.
Variable vdec : bits -> list cell -> option V.
(* an extra is not in tail position: its decoder returns what it leaves unread *)
Variable xdec : bits -> list cell -> option (X * bits * list cell).

Fixpoint map_inner_aug (n left : nat) (c : cell) (prefix : bits) : res (list (bits * V)) :=
  match c with
  | Cell cb refs =>
      do lr <- load_label left (n - length prefix) cb;
      let '(lbl, rest) := lr in
      let prefix' := prefix ++ lbl in
      let left' := (left - (1 + length lbl))%nat in
      if (length prefix' <? n)%nat then
        match refs with
        | [] => Err ENotEnoughRefs
        | l :: refs' =>
            do la <- map_inner_aug n left' l (prefix' ++ [false]);
            match refs' with
            | [] => Err ENotEnoughRefs
            | r :: refs'' =>
                do ra <- map_inner_aug n left' r (prefix' ++ [true]);
                match xdec rest refs'' with               (* the fork's extra *)
                | Some _ => Ok (la ++ ra)
                | None => Err EOther
                end
            end
        end
      else
        match xdec rest refs with                          (* extra, then value *)
        | Some (_, rest', refs') =>
            match vdec rest' refs' with
            | Some v => Ok [(firstn n prefix', v)]
            | None => Err EOther
            end
        | None => Err EOther
        end
  end.

(* HashmapAugE.UnmarshalTLB: struct { M Maybe ^HashmapAug; Extra } *)
Definition decode_aug_e (n : nat) (c : cell) : res (list (bits * V)) :=
  match c with
  | Cell [] _ => Err ENotEnoughBits
  | Cell (false :: rest) refs =>
      match xdec rest refs with Some _ => Ok [] | None => Err EOther end
  | Cell (true :: _) [] => Err ENotEnoughRefs
  | Cell (true :: rest) (r :: refs') =>
      do m <- map_inner_aug n n r [];
      match xdec rest refs' with Some _ => Ok m | None => Err EOther end
  end.

End AugCodec.

Arguments map_inner_aug {X V}. Arguments decode_aug_e {X V}.

(** ** ConfigParams.CloneKeepingSubsetOfKeys: the pairs whose key is requested, in
    the order of the source, in NEW slices; the source is not part of the result *)
Definition clone_subset {V} (keys : list bits) (m : list (bits * V)) : list (bits * V) :=
  filter (fun kv => existsb (bits_eqb (fst kv)) keys) m.

(* for Proofs/HashmapHistory.v — the design of seeded change C05-r4m2: filter into
   params.Config.keys[:0] / values[:0]: the kept pairs overwrite the front of the
   SOURCE's slices, whose lengths do not change *)
Definition clone_in_place_source {V} (keys : list bits) (m : list (bits * V)) : list (bits * V) :=
  let f := clone_subset keys m in f ++ skipn (length f) m.

(** ** ProveKeyInHashmap, as a LOOKUP (the proof bytes are C18's): walk down the
    labels, at every fork take the child the key's next bit names (the key bits
    under a label are skipped, not compared), decode the value of the leaf that
    is reached, and only then compare the whole reconstructed key with the
    requested one.  [kr] is the unread rest of the key, [prefix] the key
    reconstructed so far (a BitString of capacity n). *)
Section Find.
Variable V : Type.
Variable vdec : bits -> list cell -> option V.

Fixpoint find_in (n remaining : nat) (key : bits) (c : cell) (kr prefix : bits) : res V :=
  match c with
  | Cell cb refs =>
      do lr <- load_label remaining (n - length prefix) cb;
      let '(lbl, rest) := lr in
      let prefix' := prefix ++ lbl in
      if (remaining <=? length lbl)%nat then
        do v <- vdec_res vdec rest refs;
        if short n prefix' then Err ENotEnoughBits
        else if bits_eqb (firstn n prefix') key then Ok v else Err EOther   (* "key is not found" *)
      else if short (length lbl) kr then Err ENotEnoughBits
      else
        match skipn (length lbl) kr with
        | [] => Err ENotEnoughBits
        | b :: kr' =>
            if (n <=? length prefix')%nat then Err EOverflow
            else
              let remaining' := (remaining - length lbl - 1)%nat in
              match refs with
              | [] => Err ENotEnoughRefs
              | l :: refs' =>
                  if b then
                    match refs' with
                    | [] => Err ENotEnoughRefs
                    | r :: _ => find_in n remaining' key r kr' (prefix' ++ [true])
                    end
                  else find_in n remaining' key l kr' (prefix' ++ [false])
              end
        end
  end.

(* keySize = key.BitsAvailableForRead() *)
Definition find_key (c : cell) (key : bits) : res V :=
  find_in (length key) (length key) key c key [].
End Find.
Arguments find_in {V}. Arguments find_key {V}.

(** ** ShardState.AccountBalances: the key -> balance view over the decoded accounts
    dictionaries; an account without a balance (account_none) is left out; for a
    split state the left and the right dictionary are put into ONE Go map, each
    value under the key at the same index of ITS OWN dictionary (a later entry
    with the same key replaces an earlier one).  Printed in key order. *)
Definition balances_of {B} (m : list (bits * option B)) : list (bits * B) :=
  flat_map (fun kv => match snd kv with Some b => [(fst kv, b)] | None => [] end) m.

Definition account_balances {B} (split : bool) (left right : list (bits * option B)) : list (bits * B) :=
  fold_left (fun m kv => update (fst kv) (snd kv) m)
            (balances_of left ++ (if split then balances_of right else [])) [].
