(** Model of the TL-B reflection codec (tlb/encoder.go, tlb/decoder.go) and of
    the hand-written primitive codecs (tlb/primitives.go, tlb/integers.go) over
    a deep embedding of types ("descriptors", produced from the Go struct
    definitions by the translator) and untyped values.

    Cells are ordinary cell trees; a builder is the cell being written
    (capacity 1023 bits / 4 references, as proved for the primitives in C06),
    a slice is what is still unread of a cell. *)
From Coq Require Import List NArith ZArith Arith Bool.
From Tongo Require Import Lib.Bits Lib.Res.
Import ListNotations.

Inductive ctree := CT (b : bits) (r : list ctree).
Definition ct_bits (c : ctree) : bits := match c with CT b _ => b end.
Definition ct_refs (c : ctree) : list ctree := match c with CT _ r => r end.

Record bld := mkb { bb : bits; br : list ctree }.
Definition empty_bld : bld := mkb [] [].
Definition put_bits (l : bits) (b : bld) : res bld :=
  if (1023 <? length (bb b) + length l)%nat then Err EOverflow
  else Ok (mkb (bb b ++ l) (br b)).
Definition put_ref (c : ctree) (b : bld) : res bld :=
  if (4 <=? length (br b))%nat then Err ERefsOverflow
  else Ok (mkb (bb b) (br b ++ [c])).
Definition finish (b : bld) : ctree := CT (bb b) (br b).

Record slc := mks { sb : bits; sr : list ctree }.
Definition open (c : ctree) : slc := mks (ct_bits c) (ct_refs c).
Definition take_bits (n : nat) (s : slc) : res (bits * slc) :=
  if short n (sb s) then Err ENotEnoughBits
  else Ok (firstn n (sb s), mks (skipn n (sb s)) (sr s)).
Definition take_ref (s : slc) : res (ctree * slc) :=
  match sr s with
  | [] => Err ENotEnoughRefs
  | c :: t => Ok (c, mks (sb s) t)
  end.

(** *** descriptors and values *)
Inductive ty :=
| TUint (w : nat)                 (* uintN kinds, UintN: WriteUint / ReadUint *)
| TInt (w : nat)                  (* intN kinds, IntN: two's complement *)
| TBigUint (w : nat)              (* Uint128/256/257 *)
| TBigInt (w : nat)               (* Int128/256/257 *)
| TBool
| TBits (n : nat)                 (* BitsN, [N]byte *)
| TVarUInt (n : nat)              (* VarUInteger n *)
| TUnary
| TMagic (len : nat) (val : N)    (* Magic field with a #/$ tag *)
| TMaybe (t : ty)                 (* Maybe[T] *)
| TEither (l r : ty)              (* Either[L,R] *)
| TEitherRef (t : ty)             (* EitherRef[T] *)
| TRef (t : ty)                   (* Ref[T], tag ^ *)
| TMaybeRef (t : ty)              (* tag maybe^ on a pointer field *)
| TStruct (fs : list ty)
| TSum (alts : list (nat * N * ty))   (* tagged union: (tag length, tag value, payload) *)
| TAny                            (* rest of the cell: Any *)
| TCellRef                        (* boc.Cell under ^ : an arbitrary cell as a reference *)
| TAddr                           (* MsgAddress (hand-written codec, tlb/messages.go) *)
| TNamed (i : nat).               (* entry i of the environment *)

(* MsgAddress values.  anycast = (depth, rewrite_pfx) *)
Inductive addrv :=
| ANone
| AExt (l : bits)
| AStd (any : option (N * N)) (wc : Z) (addr : bits)
| AVar (any : option (N * N)) (wc : Z) (addr : bits).

Inductive value :=
| VAddr (a : addrv)
| VN (n : N)
| VZ (z : Z)
| VBool (b : bool)
| VBits (l : bits)
| VUnit
| VMaybe (o : option value)
| VEither (right : bool) (v : value)
| VStruct (vs : list value)
| VSum (k : nat) (v : value)
| VAny (b : bits) (r : list ctree)
| VCell (c : ctree).

Definition ETlb : N := 50.

Definition byte_len (v : N) : nat := (N.to_nat (N.size v) + 7) / 8.
Definition enc_int_bits (w : nat) (z : Z) : bits := bits_of w (Z.to_N (z mod 2 ^ Z.of_nat w)).
Definition dec_int_bits (l : bits) : Z :=
  match l with
  | [] => 0%Z
  | sign :: rest =>
      if sign then (Z.of_N (N_of_bits rest) - 2 ^ Z.of_nat (length rest))%Z
      else Z.of_N (N_of_bits rest)
  end.

(* ReadUnary: count ones up to the first zero *)
Fixpoint unary_go (r : list ctree) (k : nat) (l : bits) (acc : N) : res (value * slc) :=
  match k with
  | O => Err ENotEnoughBits
  | S k' =>
      match l with
      | [] => Err ENotEnoughBits
      | true :: t => unary_go r k' t (N.succ acc)
      | false :: t => Ok (VN acc, mks t r)
      end
  end.

(** MsgAddress: addr_none$00 | addr_extern$01 len:(## 9) bits | addr_std$10
    anycast:(Maybe Anycast) workchain_id:int8 address:bits256 | addr_var$11
    anycast addr_len:(## 9) workchain_id:int32 address:(bits addr_len);
    anycast_info$_ depth:(#<= 30) rewrite_pfx:(bits depth) *)
Definition any_bits (a : option (N * N)) : bits :=
  match a with
  | None => [false]
  | Some (d, p) => true :: bits_of 5 d ++ bits_of (N.to_nat d) p
  end.

Definition addr_bits (a : addrv) : bits :=
  match a with
  | ANone => [false; false]
  | AExt l => [false; true] ++ bits_of 9 (N.of_nat (length l)) ++ l
  | AStd any wc addr => [true; false] ++ any_bits any ++ enc_int_bits 8 wc ++ addr
  | AVar any wc addr =>
      [true; true] ++ any_bits any ++ bits_of 9 (N.of_nat (length addr)) ++ enc_int_bits 32 wc ++ addr
  end.

Definition rd (n : nat) (l : bits) : res (bits * bits) :=
  if short n l then Err ENotEnoughBits else Ok (firstn n l, skipn n l).

Definition any_parse (l : bits) : res (option (N * N) * bits) :=
  do x <- rd 1 l;
  if nth 0 (fst x) false then
    do d <- rd 5 (snd x);
    let depth := N_of_bits (fst d) in
    if (depth <? 1)%N then Err ETlb else
    do p <- rd (N.to_nat depth) (snd d);
    Ok (Some (depth, N_of_bits (fst p)), snd p)
  else Ok (None, snd x).

Definition addr_parse (l : bits) : res (addrv * bits) :=
  do t <- rd 2 l;
  match fst t with
  | [false; false] => Ok (ANone, snd t)
  | [false; true] =>
      do n <- rd 9 (snd t);
      do a <- rd (N.to_nat (N_of_bits (fst n))) (snd n);
      Ok (AExt (fst a), snd a)
  | [true; false] =>
      do an <- any_parse (snd t);
      do wc <- rd 8 (snd an);
      do a <- rd 256 (snd wc);
      Ok (AStd (fst an) (dec_int_bits (fst wc)) (fst a), snd a)
  | _ =>
      do an <- any_parse (snd t);
      do n <- rd 9 (snd an);
      do wc <- rd 32 (snd n);
      do a <- rd (N.to_nat (N_of_bits (fst n))) (snd wc);
      Ok (AVar (fst an) (dec_int_bits (fst wc)) (fst a), snd a)
  end.

Definition any_ok (a : option (N * N)) : bool :=
  match a with
  | None => true
  | Some (d, p) => (1 <=? d)%N && (d <=? 30)%N && (p <? 2 ^ d)%N
  end.

Definition zfits (w : nat) (z : Z) : bool :=
  ((- 2 ^ (Z.of_nat w - 1) <=? z) && (z <? 2 ^ (Z.of_nat w - 1)))%Z.

Definition addr_ok (a : addrv) : bool :=
  match a with
  | ANone => true
  | AExt l => (length l <=? 511)%nat
  | AStd any wc addr => any_ok any && zfits 8 wc && Nat.eqb (length addr) 256
  | AVar any wc addr => any_ok any && zfits 32 wc && (length addr <=? 511)%nat
  end.

Section Codec.
Variable env : list ty.

(** the encoder (tlb.Marshal) *)
Fixpoint enc (fuel : nat) (t : ty) (v : value) (b : bld) {struct fuel} : res bld :=
  match fuel with
  | O => Err EFuel
  | S f =>
      match t, v with
      | TUint w, VN n => put_bits (bits_of w n) b
      | TInt w, VZ z => put_bits (enc_int_bits w z) b
      | TBigUint w, VN n =>
          if (w =? 0)%nat || (N.of_nat w <? N.size n)%N then Err ETooSmall else put_bits (bits_of w n) b
      | TBigInt w, VZ z => put_bits (enc_int_bits w z) b
      | TBool, VBool x => put_bits [x] b
      | TBits n, VBits l => put_bits l b
      | TVarUInt n, VN x =>
          let w := N.to_nat (N.size (N.of_nat (n - 1))) in
          do b1 <- put_bits (bits_of w (N.of_nat (byte_len x))) b;
          put_bits (bits_of (8 * byte_len x) x) b1
      | TUnary, VN n => put_bits (ones (N.to_nat n) ++ [false]) b
      | TMagic len val, VUnit => put_bits (bits_of len val) b
      | TMaybe t', VMaybe None => put_bits [false] b
      | TMaybe t', VMaybe (Some x) => do b1 <- put_bits [true] b; enc f t' x b1
      | TEither l r, VEither false x => do b1 <- put_bits [false] b; enc f l x b1
      | TEither l r, VEither true x => do b1 <- put_bits [true] b; enc f r x b1
      | TEitherRef t', VEither false x => do b1 <- put_bits [false] b; enc f t' x b1
      | TEitherRef t', VEither true x =>
          do b1 <- put_bits [true] b;
          do c <- enc f t' x empty_bld;
          put_ref (finish c) b1
      | TRef t', x => do c <- enc f t' x empty_bld; put_ref (finish c) b
      | TMaybeRef t', VMaybe None => put_bits [false] b
      | TMaybeRef t', VMaybe (Some x) =>
          do b1 <- put_bits [true] b;
          do c <- enc f t' x empty_bld;
          put_ref (finish c) b1
      | TStruct fs, VStruct vs =>
          (fix go (fs : list ty) (vs : list value) (b : bld) : res bld :=
             match fs, vs with
             | [], [] => Ok b
             | t1 :: ft, v1 :: vt => do b1 <- enc f t1 v1 b; go ft vt b1
             | _, _ => Err ETlb
             end) fs vs b
      | TSum alts, VSum k x =>
          match nth_error alts k with
          | Some (len, val, t') => do b1 <- put_bits (bits_of len val) b; enc f t' x b1
          | None => Err ETlb
          end
      | TAny, VAny l r =>
          do b1 <- put_bits l b;
          (fix go (rs : list ctree) (b : bld) : res bld :=
             match rs with [] => Ok b | c :: t => do b1 <- put_ref c b; go t b1 end) r b1
      | TCellRef, VCell c => put_ref c b
      | TAddr, VAddr a =>
          match a with
          | AExt l => if (511 <? length l)%nat then Err ETlb else put_bits (addr_bits a) b
          | _ => put_bits (addr_bits a) b
          end
      | TNamed i, x => match nth_error env i with Some t' => enc f t' x b | None => Err ETlb end
      | _, _ => Err ETlb
      end
  end.

(** the decoder (tlb.Unmarshal) *)
Fixpoint dec (fuel : nat) (t : ty) (s : slc) {struct fuel} : res (value * slc) :=
  match fuel with
  | O => Err EFuel
  | S f =>
      match t with
      | TUint w => do x <- take_bits w s; Ok (VN (N_of_bits (fst x)), snd x)
      | TInt w =>
          if (w =? 0)%nat then Err EZeroSize else
          do x <- take_bits w s; Ok (VZ (dec_int_bits (fst x)), snd x)
      | TBigUint w => do x <- take_bits w s; Ok (VN (N_of_bits (fst x)), snd x)
      | TBigInt w => do x <- take_bits w s; Ok (VZ (dec_int_bits (fst x)), snd x)
      | TBool => do x <- take_bits 1 s; Ok (VBool (nth 0 (fst x) false), snd x)
      | TBits n => do x <- take_bits n s; Ok (VBits (fst x), snd x)
      | TVarUInt n =>
          let w := N.to_nat (N.size (N.of_nat (n - 1))) in
          do x <- take_bits w s;
          do y <- take_bits (8 * N.to_nat (N_of_bits (fst x))) (snd x);
          Ok (VN (N_of_bits (fst y)), snd y)
      | TUnary => unary_go (sr s) (S (length (sb s))) (sb s) 0%N
      | TMagic len val =>
          if short len (sb s) then
            (* ValidateTag ignores the read error: a zero tag passes on a short cell *)
            if N.eqb val 0 then Ok (VUnit, s) else Err ETlb
          else
            do x <- take_bits len s;
            if N.eqb (N_of_bits (fst x)) val then Ok (VUnit, snd x) else Err ETlb
      | TMaybe t' =>
          do x <- take_bits 1 s;
          if nth 0 (fst x) false then
            do y <- dec f t' (snd x); Ok (VMaybe (Some (fst y)), snd y)
          else Ok (VMaybe None, snd x)
      | TEither l r =>
          do x <- take_bits 1 s;
          if nth 0 (fst x) false then do y <- dec f r (snd x); Ok (VEither true (fst y), snd y)
          else do y <- dec f l (snd x); Ok (VEither false (fst y), snd y)
      | TEitherRef t' =>
          do x <- take_bits 1 s;
          if nth 0 (fst x) false then
            do cr <- take_ref (snd x);
            do y <- dec f t' (open (fst cr));
            Ok (VEither true (fst y), snd cr)
          else do y <- dec f t' (snd x); Ok (VEither false (fst y), snd y)
      | TRef t' =>
          do cr <- take_ref s;
          do y <- dec f t' (open (fst cr));
          Ok (fst y, snd cr)
      | TMaybeRef t' =>
          do x <- take_bits 1 s;
          if nth 0 (fst x) false then
            do cr <- take_ref (snd x);
            do y <- dec f t' (open (fst cr));
            Ok (VMaybe (Some (fst y)), snd cr)
          else Ok (VMaybe None, snd x)
      | TStruct fs =>
          (fix go (fs : list ty) (s : slc) (acc : list value) : res (value * slc) :=
             match fs with
             | [] => Ok (VStruct (rev acc), s)
             | t1 :: ft => do y <- dec f t1 s; go ft (snd y) (fst y :: acc)
             end) fs s []
      | TSum alts =>
          (fix go (k : nat) (alts : list (nat * N * ty)) : res (value * slc) :=
             match alts with
             | [] => Err ETlb
             | (len, val, t') :: rest =>
                 (* compareWithSumTag: too few bits = no match *)
                 if short len (sb s) then go (S k) rest
                 else if N.eqb (N_of_bits (firstn len (sb s))) val then
                   do y <- dec f t' (mks (skipn len (sb s)) (sr s)); Ok (VSum k (fst y), snd y)
                 else go (S k) rest
             end) 0%nat alts
      | TAny => Ok (VAny (sb s) (sr s), mks [] [])
      | TCellRef => do cr <- take_ref s; Ok (VCell (fst cr), snd cr)
      | TAddr => do x <- addr_parse (sb s); Ok (VAddr (fst x), mks (snd x) (sr s))
      | TNamed i => match nth_error env i with Some t' => dec f t' s | None => Err ETlb end
      end
  end.

(** *** what the TL-B scheme prescribes: the bits and references of a value,
    declaratively (no builder, no capacity) *)
Fixpoint spec (fuel : nat) (t : ty) (v : value) {struct fuel} : option (bits * list ctree) :=
  match fuel with
  | O => None
  | S f =>
      match t, v with
      | TUint w, VN n => Some (bits_of w n, [])
      | TInt w, VZ z => Some (enc_int_bits w z, [])
      | TBigUint w, VN n => Some (bits_of w n, [])
      | TBigInt w, VZ z => Some (enc_int_bits w z, [])
      | TBool, VBool x => Some ([x], [])
      | TBits n, VBits l => Some (l, [])
      | TVarUInt n, VN x =>
          let w := N.to_nat (N.size (N.of_nat (n - 1))) in
          Some (bits_of w (N.of_nat (byte_len x)) ++ bits_of (8 * byte_len x) x, [])
      | TUnary, VN n => Some (ones (N.to_nat n) ++ [false], [])
      | TMagic len val, VUnit => Some (bits_of len val, [])
      | TMaybe t', VMaybe None => Some ([false], [])
      | TMaybe t', VMaybe (Some x) =>
          match spec f t' x with Some (bs, rs) => Some (true :: bs, rs) | None => None end
      | TEither l r, VEither false x =>
          match spec f l x with Some (bs, rs) => Some (false :: bs, rs) | None => None end
      | TEither l r, VEither true x =>
          match spec f r x with Some (bs, rs) => Some (true :: bs, rs) | None => None end
      | TEitherRef t', VEither false x =>
          match spec f t' x with Some (bs, rs) => Some (false :: bs, rs) | None => None end
      | TEitherRef t', VEither true x =>
          match spec f t' x with Some (bs, rs) => Some ([true], [CT bs rs]) | None => None end
      | TRef t', x =>
          match spec f t' x with Some (bs, rs) => Some ([], [CT bs rs]) | None => None end
      | TMaybeRef t', VMaybe None => Some ([false], [])
      | TMaybeRef t', VMaybe (Some x) =>
          match spec f t' x with Some (bs, rs) => Some ([true], [CT bs rs]) | None => None end
      | TStruct fs, VStruct vs =>
          (fix go (fs : list ty) (vs : list value) : option (bits * list ctree) :=
             match fs, vs with
             | [], [] => Some ([], [])
             | t1 :: ft, v1 :: vt =>
                 match spec f t1 v1, go ft vt with
                 | Some (b1, r1), Some (b2, r2) => Some (b1 ++ b2, r1 ++ r2)
                 | _, _ => None
                 end
             | _, _ => None
             end) fs vs
      | TSum alts, VSum k x =>
          match nth_error alts k with
          | Some (len, val, t') =>
              match spec f t' x with Some (bs, rs) => Some (bits_of len val ++ bs, rs) | None => None end
          | None => None
          end
      | TAny, VAny l r => Some (l, r)
      | TCellRef, VCell c => Some ([], [c])
      | TAddr, VAddr a => Some (addr_bits a, [])
      | TNamed i, x => match nth_error env i with Some t' => spec f t' x | None => None end
      | _, _ => None
      end
  end.

End Codec.

(** *** static conditions on descriptors and the domain of values *)
Section Static.
Variable env : list ty.

Definition tag_bits (a : nat * N * ty) : bits := bits_of (fst (fst a)) (snd (fst a)).

Fixpoint is_prefix (a b : bits) : bool :=
  match a, b with
  | [], _ => true
  | x :: a', y :: b' => Bool.eqb x y && is_prefix a' b'
  | _ :: _, [] => false
  end.

(* no tag is a prefix of another one (in particular no two are equal and an
   empty tag stands alone) *)
Fixpoint prefix_free (tags : list bits) : bool :=
  match tags with
  | [] => true
  | t :: rest =>
      forallb (fun u => negb (is_prefix t u) && negb (is_prefix u t)) rest && prefix_free rest
  end.

(* rest-of-cell types must come last in their cell *)
Fixpoint tail (fuel : nat) (t : ty) : bool :=
  match fuel with
  | O => true
  | S f =>
      match t with
      | TAny => true
      | TMaybe t' | TEitherRef t' => tail f t'
      | TEither l r => tail f l || tail f r
      | TStruct fs =>
          (fix lst (fs : list ty) : bool :=
             match fs with [] => false | [t1] => tail f t1 | _ :: r => lst r end) fs
      | TSum alts => existsb (fun a => tail f (snd a)) alts
      | TNamed i => match nth_error env i with Some t' => tail f t' | None => true end
      | _ => false
      end
  end.

Fixpoint wf (fuel : nat) (t : ty) : bool :=
  match fuel with
  | O => false
  | S f =>
      match t with
      | TInt w | TBigInt w | TBigUint w => (1 <=? w)%nat
      | TMagic len val => (val <? 2 ^ N.of_nat len)%N
      | TMaybe t' | TEitherRef t' | TRef t' | TMaybeRef t' => wf f t'
      | TEither l r => wf f l && wf f r
      | TStruct fs =>
          forallb (wf f) fs &&
          (fix nt (fs : list ty) : bool :=
             match fs with
             | [] | [_] => true
             | t1 :: rest => negb (tail f t1) && nt rest
             end) fs
      | TSum alts =>
          forallb (fun a => wf f (snd a) && (snd (fst a) <? 2 ^ N.of_nat (fst (fst a)))%N) alts
          && prefix_free (map tag_bits alts)
      | TNamed i => match nth_error env i with Some t' => wf f t' | None => false end
      | _ => true
      end
  end.

Definition int_fits (w : nat) (z : Z) : bool :=
  ((- 2 ^ (Z.of_nat w - 1) <=? z) && (z <? 2 ^ (Z.of_nat w - 1)))%Z.

Fixpoint has_type (fuel : nat) (t : ty) (v : value) : bool :=
  match fuel with
  | O => false
  | S f =>
      match t, v with
      | TUint w, VN n => (n <? 2 ^ N.of_nat w)%N
      | TInt w, VZ z => int_fits w z
      | TBigUint w, VN n => (n <? 2 ^ N.of_nat w)%N
      | TBigInt w, VZ z => int_fits w z
      | TBool, VBool _ => true
      | TBits n, VBits l => Nat.eqb (length l) n
      | TVarUInt n, VN x => (byte_len x <=? n - 1)%nat
      | TUnary, VN _ => true
      | TMagic _ _, VUnit => true
      | TMaybe t', VMaybe None => true
      | TMaybe t', VMaybe (Some x) => has_type f t' x
      | TEither l r, VEither false x => has_type f l x
      | TEither l r, VEither true x => has_type f r x
      | TEitherRef t', VEither _ x => has_type f t' x
      | TRef t', x => has_type f t' x
      | TMaybeRef t', VMaybe None => true
      | TMaybeRef t', VMaybe (Some x) => has_type f t' x
      | TStruct fs, VStruct vs =>
          (fix go (fs : list ty) (vs : list value) : bool :=
             match fs, vs with
             | [], [] => true
             | t1 :: ft, v1 :: vt => has_type f t1 v1 && go ft vt
             | _, _ => false
             end) fs vs
      | TSum alts, VSum k x =>
          match nth_error alts k with Some a => has_type f (snd a) x | None => false end
      | TAny, VAny _ _ => true
      | TCellRef, VCell _ => true
      | TAddr, VAddr a => addr_ok a
      | TNamed i, x => match nth_error env i with Some t' => has_type f t' x | None => false end
      | _, _ => false
      end
  end.

End Static.

(** *** fuel.  The walkers recurse on fuel only because [TNamed] looks a type
    up in the environment; the fuel bounds the depth of the *descriptor*, never
    the size of a value.  [wf] answers false when the fuel does not cover the
    descriptor, so [wf_ty env t = true] also certifies that [fuel_of env t]
    is enough for every value of [t]. *)
Fixpoint ty_depth (t : ty) : nat :=
  match t with
  | TMaybe t' | TEitherRef t' | TRef t' | TMaybeRef t' => S (ty_depth t')
  | TEither l r => S (Nat.max (ty_depth l) (ty_depth r))
  | TStruct fs => S ((fix go (l : list ty) : nat :=
                        match l with [] => O | x :: r => Nat.max (ty_depth x) (go r) end) fs)
  | TSum alts => S ((fix go (l : list (nat * N * ty)) : nat :=
                       match l with [] => O | x :: r => Nat.max (ty_depth (snd x)) (go r) end) alts)
  | _ => 1%nat
  end.

Definition fuel_of (env : list ty) (t : ty) : nat :=
  S (ty_depth t) + fold_right (fun e acc => S (ty_depth e) + acc)%nat O env.

Definition wf_ty (env : list ty) (t : ty) : bool := wf env (fuel_of env t) t.
Definition in_domain (env : list ty) (t : ty) (v : value) : bool := has_type env (fuel_of env t) t v.
Definition encode (env : list ty) (t : ty) (v : value) : res ctree :=
  match enc env (fuel_of env t) t v empty_bld with
  | Ok b => Ok (finish b)
  | Err e => Err e
  | Panic p => Panic p
  end.
Definition decode (env : list ty) (t : ty) (c : ctree) : res (value * slc) :=
  dec env (fuel_of env t) t (open c).
