(** C01, several goroutines: each goroutine hashes / serialises / parses its own
    cell DAG (or all of them read one shared, read-only DAG) while the others do
    the same.  The model of one request is a pure function of the request's own
    DAG: [conc_answers] answers a list of requests one by one, and there is
    nothing one answer could take from another.  Data races themselves are a
    runtime notion outside Gallina; what is claimed (and checked by the
    c01.conc correspondence) is their observable consequence: the results do
    not depend on what other goroutines do with other cells. *)
From Coq Require Import List NArith Arith Bool.
From Tongo Require Import Lib.Bits Lib.Res Model.BocParse Model.CellHash Model.BocSer.
Import ListNotations.

Section Conc.
Variable hf : list node -> list (res bytes).    (* level-3 hashes of a cell array *)

(* what one goroutine computes for its DAG (root = cell 0): Cell.Hash and the
   bytes of Cell.ToBocCustom with the given options *)
Definition conc_answer (idx crc cache : bool) (dag : list node) : res bytes * res bytes :=
  let hs := hf dag in
  (match nth_error hs 0 with Some h => h | None => Panic PNil end,
   serialize dag hs [0%nat] idx crc cache).

Definition conc_answers (idx crc cache : bool) (dags : list (list node)) : list (res bytes * res bytes) :=
  map (conc_answer idx crc cache) dags.

End Conc.
