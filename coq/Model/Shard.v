(** C17 model, part 2: shard identifiers.

    Anchors: ton/shards.go (ParseShardID, Encode, MatchAccountID,
    MatchBlockID), ton/block.go (shardChild, shardParent, convertShardIdent).
    int64 / uint64 values are represented by their uint64 image in [N]
    (below 2^64); [i64_of_N] / [u64_of_Z] convert at the boundary. *)
From Coq Require Import List NArith ZArith Bool.
From Tongo Require Import Lib.Bits Lib.Res.
Import ListNotations.
Local Open Scope N_scope.

Definition M64 : N := 2 ^ 64.
Definition u64_of_Z (z : Z) : N := Z.to_N (z mod 2 ^ 64).
Definition i64_of_N (n : N) : Z := if n <? 2 ^ 63 then Z.of_N n else (Z.of_N n - 2 ^ 64)%Z.

(* bits.TrailingZeros64 *)
Fixpoint ctz_pos (p : positive) : N :=
  match p with
  | xO q => N.succ (ctz_pos q)
  | _ => 0
  end.
Definition ctz64 (u : N) : N := match u with 0 => 64 | Npos p => ctz_pos p end.

(* Go: x << k on a 64-bit operand; a count of 64 or more gives 0 *)
Definition shl64 (x k : N) : N := if 64 <=? k then 0 else (N.shiftl x k) mod M64.

Record shard := { sh_prefix : N; sh_mask : N }.

(* ParseShardID: prefix = m ^ (1 << tz), mask = -1 << (tz + 1) *)
Definition parse_shard (u : N) : res shard :=
  if u =? 0 then Err EOther
  else let tz := ctz64 u in
       Ok {| sh_prefix := N.lxor u (shl64 1 tz); sh_mask := shl64 (M64 - 1) (tz + 1) |}.

(* Encode: prefix | (1 << (tz(mask) - 1)); a negative shift count panics in Go
   (not reachable from ParseShardID: see parse_shard_mask_tz) *)
Definition shard_encode (s : shard) : res N :=
  let t := ctz64 (sh_mask s) in
  if t =? 0 then Panic PShift
  else Ok (N.lor (sh_prefix s) (shl64 1 (t - 1))).

(* binary.BigEndian.Uint64(a.Address[:8]) *)
Definition be64 (bs : list N) : N := fold_left (fun acc b => acc * 256 + b) (firstn 8 bs) 0.

Definition shard_match_prefix (s : shard) (ap : N) : bool :=
  N.land ap (sh_mask s) =? sh_prefix s.
Definition shard_match (s : shard) (addr : list N) : bool := shard_match_prefix s (be64 addr).

Definition shard_match_block (s : shard) (blk : N) : bool :=
  match parse_shard blk with
  | Ok sub =>
      if ctz64 (sh_mask s) <? ctz64 (sh_mask sub)
      then N.land (sh_prefix s) (sh_mask sub) =? sh_prefix sub
      else N.land (sh_prefix sub) (sh_mask s) =? sh_prefix s
  | _ => false
  end.

(* shard & (^shard + 1) on uint64 *)
Definition lowbit64 (u : N) : N := N.land u ((M64 - 1 - u + 1) mod M64).

Definition shard_child (u : N) (left : bool) : N :=
  let x := N.shiftr (lowbit64 u) 1 in
  if left then (u + M64 - x) mod M64 else (u + x) mod M64.

Definition shard_parent (u : N) : N :=
  let x := lowbit64 u in
  N.lor ((u + M64 - x) mod M64) (shl64 x 1).

(* convertShardIdent: prefix | 1 << (63 - pfx_bits), pfx_bits <= 60 by TL-B *)
Definition shard_of_ident (prefix pfx_bits : N) : N := N.lor prefix (shl64 1 (63 - pfx_bits)).

(* ton.GetParents / getParents: the shard ids of the previous block(s); the
   sum type of PrevRef is assumed consistent with after_merge *)
Definition get_parents (prefix pfx_bits : N) (split merge : bool) : list N :=
  let u := shard_of_ident prefix pfx_bits in
  if merge then [shard_child u true; shard_child u false]
  else if split then [shard_parent u]
  else [u].

(** specification side: a shard id with prefix length [l] (0..63) and prefix
    value [q] (below 2^l) is q * 2^(64-l) + 2^(63-l) *)
Definition shard_id (l q : N) : N := q * 2 ^ (64 - l) + 2 ^ (63 - l).
Definition shard_len (u : N) : N := 63 - ctz64 u.
