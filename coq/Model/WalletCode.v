(** The wallet code cells: the BOCs translated from wallet/models.go
    (Generated/WalletCodes.v) parsed by the model parser and unfolded to trees
    (GetCodeByVer = DeserializeBocBase64(codes[ver])[0]). *)
From Coq Require Import List NArith ZArith Arith Bool.
From Tongo Require Import Lib.Bits Lib.Res Model.BocParse Model.CellHash Spec.ReprHash Model.Wallet
  Generated.WalletCodes.
Import ListNotations.

(* unfold index i of a forward-referencing cell array to a tree *)
Fixpoint tree_at (fuel : nat) (cells : list node) (i : nat) : option cell :=
  match fuel with
  | O => None
  | S f =>
      match nth_error cells i with
      | None => None
      | Some nd =>
          let fix go (rs : list nat) : option (list cell) :=
            match rs with
            | [] => Some []
            | r :: t => match tree_at f cells r, go t with
                        | Some x, Some xs => Some (x :: xs)
                        | _, _ => None
                        end
            end in
          match go (n_refs nd) with
          | Some ts => Some (Cell (n_special nd) (n_type nd) (n_mask nd) (n_bits nd) ts)
          | None => None
          end
      end
  end.

(* a BOC with exactly one root *)
Definition boc_root (bs : bytes) : option cell :=
  match parse_boc bs with
  | Ok p => match p_roots p with
            | [r] => tree_at (S (length (p_cells p))) (p_cells p) r
            | _ => None
            end
  | _ => None
  end.

Definition all_versions : list version :=
  [V1R1; V1R2; V1R3; V2R1; V2R2; V3R1; V3R2; V3R2Lockup; V4R1; V4R2; V5Beta; V5R1;
   HLV1R1; HLV1R2; HLV2; HLV2R1; HLV2R2].

Definition ver_index (v : version) : N :=
  match v with
  | V1R1 => 0 | V1R2 => 1 | V1R3 => 2 | V2R1 => 3 | V2R2 => 4 | V3R1 => 5 | V3R2 => 6
  | V3R2Lockup => 7 | V4R1 => 8 | V4R2 => 9 | V5Beta => 10 | V5R1 => 11
  | HLV1R1 => 12 | HLV1R2 => 13 | HLV2 => 14 | HLV2R1 => 15 | HLV2R2 => 16
  end%N.

(* parsed once *)
Definition code_table : list (N * option cell) :=
  map (fun p => (fst p, boc_root (snd p))) wallet_code_bocs.

Definition code_opt (v : version) : option cell :=
  match find (fun p => N.eqb (fst p) (ver_index v)) code_table with
  | Some (_, Some c) => Some c
  | _ => None
  end.

(* GetCodeByVer (panics without a valid code; newWallet only accepts versions
   that have one, see C15_gen.v) *)
Definition code_of (v : version) : cell :=
  match code_opt v with Some c => c | None => ocell [] [] end.
