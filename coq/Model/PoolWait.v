(** Model of liteapi/pool/conn_pool.go + connection.go — part (b): the wait-list
    protocol as a labelled transition system.  Definitions only.

    Agents and what they do in the Go code:

    * connection c (connection.Run -> SetMasterHead):
        c.mu.Lock(); if head.Seqno > c.masterHead.Seqno { c.masterHead = head;
        c.masterHeadUpdatedCh <- {head, c} }; c.mu.Unlock()
      The send into the shared channel (capacity 10) happens WHILE c.mu IS HELD:
      pc [CPub h] = "holds c.mu, head already stored, blocked in / about to do the send".
      MasterHead() takes c.mu.RLock(), so it blocks while the connection is in [CPub].

    * the pool's Run loop (one goroutine): select { tick: updateBest() ;
        update := <-masterHeadUpdatedCh: notifySubscribers(update) }
      - notifySubscribers: p.mu.RLock(); if bestConn != nil && update.Conn.ID() == bestConn.ID()
        { for _, ch := range p.waitList { ch <- update.Head } }; p.mu.RUnlock()
        The sends are BLOCKING sends into capacity-1 channels, performed WHILE p.mu IS
        READ-LOCKED; the iteration order of the Go map is unspecified ([LRLock order]).
      - updateBest: p.mu.Lock(); for every connection c.MasterHead() (c.mu.RLock), then
        the selection rule (Model/Pool.v); p.mu.Unlock().  IsOK/RTT are inputs from the
        network, so the new choice is a nondeterministic label here.

    * waiter w (WaitMasterchainSeqno(ctx, tgt w, timeout); BestMasterchainClient's
      wait is the instance tgt = 1):
        subscribe:   ch := make(chan, 1); p.mu.Lock(); head := p.bestConn.MasterHead();
                     if head.Seqno >= seqno { ch <- head; id = 0 } else { waitListID++;
                     waitList[waitListID] = ch }; p.mu.Unlock()
        loop:        select { ctx.Done / time.After -> return err ; head := <-ch ->
                     if head.Seqno >= seqno return nil }
        on return:   deferred unsubscribe: p.mu.Lock(); delete(waitList, id); p.mu.Unlock()

    Reductions (sound for safety/deadlock analysis because the merged code has no
    blocking operation and touches no shared state in between): unsubscribe is one
    step (Lock; delete; Unlock); receive + comparison is one step; updateBest's
    second pass over the connections (MasterHead of the alive ones inside the find
    loops) is the same kind of step as the first pass and is not repeated; the other
    users of p.mu (bestConnection, ConnectionsNumber: RLock, read, RUnlock; Status:
    Lock, reads of c.mu-protected fields as in updateBest) are not agents here.
    Seqnos are plain N (the uint32 comparison [>]/[>=] agrees on values < 2^32). *)
From Coq Require Import List NArith Bool Arith.
Import ListNotations.

Definition msg := (nat * N)%type.          (* masterHeadUpdated: (Conn.ID(), Head.Seqno) *)
Inductive agent := ARun | AW (w : nat).
Inductive conn_pc := CIdle | CPub (h : N).
Inductive wres := ROk | RTimeout | RCancel.
Inductive wait_pc :=
| WNew                      (* before subscribe: wants p.mu.Lock *)
| WSubL                     (* inside subscribe, holds p.mu (write) *)
| WWait                     (* in the select loop *)
| WUnsub (r : wres)         (* left the loop with result r; deferred unsubscribe wants p.mu.Lock *)
| WDone (r : wres)          (* returned r *)
| WPanicked.                (* nil bestConn dereferenced in subscribe *)
Inductive run_pc :=
| RIdle                               (* in select *)
| RWantR (u : msg)                    (* received u from masterHeadUpdatedCh, calling p.mu.RLock *)
| RNotify (u : msg) (rem : list nat)  (* holds RLock; channels (by waiter) still to be sent to *)
| RUpd (k : nat).                     (* in updateBest, holds p.mu (write); next: conns[k].MasterHead() *)

Definition upd_cap : nat := 10.            (* make(chan masterHeadUpdated, 10) *)

Record state := mkS {
  head : nat -> N;
  cpc : nat -> conn_pc;
  updq : list msg;
  best : option nat;
  readers : nat;
  writer : option agent;
  wl : list (N * nat);
  next_id : N;
  rpc : run_pc;
  wpc : nat -> wait_pc;
  wid : nat -> N;
  wch : nat -> option msg;
  wgot : nat -> option msg;
  log : list msg
}.

Definition set_head (s : state) (v : nat -> N) : state :=
  mkS v (cpc s) (updq s) (best s) (readers s) (writer s) (wl s) (next_id s) (rpc s) (wpc s) (wid s) (wch s) (wgot s) (log s).
Definition set_cpc (s : state) (v : nat -> conn_pc) : state :=
  mkS (head s) v (updq s) (best s) (readers s) (writer s) (wl s) (next_id s) (rpc s) (wpc s) (wid s) (wch s) (wgot s) (log s).
Definition set_updq (s : state) (v : list msg) : state :=
  mkS (head s) (cpc s) v (best s) (readers s) (writer s) (wl s) (next_id s) (rpc s) (wpc s) (wid s) (wch s) (wgot s) (log s).
Definition set_best (s : state) (v : option nat) : state :=
  mkS (head s) (cpc s) (updq s) v (readers s) (writer s) (wl s) (next_id s) (rpc s) (wpc s) (wid s) (wch s) (wgot s) (log s).
Definition set_readers (s : state) (v : nat) : state :=
  mkS (head s) (cpc s) (updq s) (best s) v (writer s) (wl s) (next_id s) (rpc s) (wpc s) (wid s) (wch s) (wgot s) (log s).
Definition set_writer (s : state) (v : option agent) : state :=
  mkS (head s) (cpc s) (updq s) (best s) (readers s) v (wl s) (next_id s) (rpc s) (wpc s) (wid s) (wch s) (wgot s) (log s).
Definition set_wl (s : state) (v : list (N * nat)) : state :=
  mkS (head s) (cpc s) (updq s) (best s) (readers s) (writer s) v (next_id s) (rpc s) (wpc s) (wid s) (wch s) (wgot s) (log s).
Definition set_next_id (s : state) (v : N) : state :=
  mkS (head s) (cpc s) (updq s) (best s) (readers s) (writer s) (wl s) v (rpc s) (wpc s) (wid s) (wch s) (wgot s) (log s).
Definition set_rpc (s : state) (v : run_pc) : state :=
  mkS (head s) (cpc s) (updq s) (best s) (readers s) (writer s) (wl s) (next_id s) v (wpc s) (wid s) (wch s) (wgot s) (log s).
Definition set_wpc (s : state) (v : nat -> wait_pc) : state :=
  mkS (head s) (cpc s) (updq s) (best s) (readers s) (writer s) (wl s) (next_id s) (rpc s) v (wid s) (wch s) (wgot s) (log s).
Definition set_wid (s : state) (v : nat -> N) : state :=
  mkS (head s) (cpc s) (updq s) (best s) (readers s) (writer s) (wl s) (next_id s) (rpc s) (wpc s) v (wch s) (wgot s) (log s).
Definition set_wch (s : state) (v : nat -> option msg) : state :=
  mkS (head s) (cpc s) (updq s) (best s) (readers s) (writer s) (wl s) (next_id s) (rpc s) (wpc s) (wid s) v (wgot s) (log s).
Definition set_wgot (s : state) (v : nat -> option msg) : state :=
  mkS (head s) (cpc s) (updq s) (best s) (readers s) (writer s) (wl s) (next_id s) (rpc s) (wpc s) (wid s) (wch s) v (log s).
Definition set_log (s : state) (v : list msg) : state :=
  mkS (head s) (cpc s) (updq s) (best s) (readers s) (writer s) (wl s) (next_id s) (rpc s) (wpc s) (wid s) (wch s) (wgot s) v.

Definition fupd {A} (f : nat -> A) (i : nat) (v : A) : nat -> A :=
  fun j => if Nat.eqb j i then v else f j.

Inductive label :=
| LSetHead (c : nat) (h : N)   (* connection c enters SetMasterHead(h) *)
| LPublish (c : nat)           (* its send into masterHeadUpdatedCh completes; c.mu released *)
| LTake                        (* Run: update := <-masterHeadUpdatedCh *)
| LRLock (order : list nat)    (* Run: p.mu.RLock() in notifySubscribers; map order chosen *)
| LSend                        (* Run: ch <- update.Head for the next channel *)
| LRUnlock                     (* Run: loop finished, p.mu.RUnlock() *)
| LTick                        (* Run: ticker fired, updateBest: p.mu.Lock() *)
| LUpdRead                     (* Run: conns[k].MasterHead() *)
| LUpdDone (nb : option nat)   (* Run: bestConn := choice; p.mu.Unlock() *)
| LSubLock (w : nat)           (* waiter: p.mu.Lock() in subscribe *)
| LSubBody (w : nat)           (* waiter: body of subscribe; p.mu.Unlock() *)
| LRecv (w : nat)              (* waiter: head := <-ch and the comparison *)
| LLeave (w : nat) (r : wres)  (* waiter: timeout (RTimeout) or ctx.Done (RCancel) branch *)
| LUnsub (w : nat).            (* waiter: deferred unsubscribe, atomically *)

Definition lock_free (s : state) : bool :=
  Nat.eqb (readers s) 0 && match writer s with None => true | Some _ => false end.

Definition is_writer (s : state) (a : agent) : bool :=
  match writer s, a with
  | Some ARun, ARun => true
  | Some (AW w), AW w' => Nat.eqb w w'
  | _, _ => false
  end.

Definition mem (x : nat) (l : list nat) : bool := existsb (Nat.eqb x) l.
(** [order] enumerates the channels of the wait list (each exactly once when the
    registered waiters are distinct, which they are) *)
Definition is_order (order : list nat) (s : state) : bool :=
  let chans := map snd (wl s) in
  Nat.eqb (length order) (length chans) &&
  forallb (fun w => mem w chans) order && forallb (fun w => mem w order) chans.

Definition same_best (s : state) (c : nat) : bool :=
  match best s with Some b => Nat.eqb b c | None => false end.

Definition valid_choice (nconns : nat) (s : state) (nb : option nat) : bool :=
  match nb, best s with
  | None, None => true
  | Some i, Some b => Nat.eqb i b || Nat.ltb i nconns
  | Some i, None => Nat.ltb i nconns
  | None, Some _ => false
  end.

Section Step.
  Variable nconns : nat.          (* len(p.conns), fixed after initialisation *)
  Variable tgt : nat -> N.        (* seqno waiter w waits for *)

  Definition step (s : state) (l : label) : option state :=
    match l with
    | LSetHead c h =>
        match cpc s c with
        | CIdle =>
            if (head s c <? h)%N
            then Some (set_cpc (set_head s (fupd (head s) c h)) (fupd (cpc s) c (CPub h)))
            else Some s
        | CPub _ => None                       (* c.mu is held by the previous call *)
        end
    | LPublish c =>
        match cpc s c with
        | CPub h =>
            if Nat.ltb (length (updq s)) upd_cap
            then Some (set_cpc (set_updq s (updq s ++ [(c, h)])) (fupd (cpc s) c CIdle))
            else None                          (* buffer full: blocked holding c.mu *)
        | CIdle => None
        end
    | LTake =>
        match rpc s, updq s with
        | RIdle, u :: rest => Some (set_rpc (set_updq s rest) (RWantR u))
        | _, _ => None
        end
    | LRLock order =>
        match rpc s, writer s with
        | RWantR u, None =>
            let s1 := set_readers s (S (readers s)) in
            if same_best s (fst u)
            then if is_order order s
                 then Some (set_log (set_rpc s1 (RNotify u order)) (log s ++ [u]))
                 else None
            else Some (set_rpc s1 (RNotify u []))
        | _, _ => None
        end
    | LSend =>
        match rpc s with
        | RNotify u (w :: rem) =>
            match wch s w with
            | None => Some (set_rpc (set_wch s (fupd (wch s) w (Some u))) (RNotify u rem))
            | Some _ => None                   (* capacity-1 channel full: blocked holding RLock *)
            end
        | _ => None
        end
    | LRUnlock =>
        match rpc s with
        | RNotify u [] => Some (set_rpc (set_readers s (pred (readers s))) RIdle)
        | _ => None
        end
    | LTick =>
        match rpc s with
        | RIdle => if lock_free s then Some (set_rpc (set_writer s (Some ARun)) (RUpd 0)) else None
        | _ => None
        end
    | LUpdRead =>
        match rpc s with
        | RUpd k =>
            if is_writer s ARun && Nat.ltb k nconns
            then match cpc s k with
                 | CIdle => Some (set_rpc s (RUpd (S k)))
                 | CPub _ => None              (* c.mu held by a publisher: blocked holding p.mu *)
                 end
            else None
        | _ => None
        end
    | LUpdDone nb =>
        match rpc s with
        | RUpd k =>
            if is_writer s ARun && Nat.leb nconns k && valid_choice nconns s nb
            then Some (set_rpc (set_writer (set_best s nb) None) RIdle)
            else None
        | _ => None
        end
    | LSubLock w =>
        match wpc s w with
        | WNew => if lock_free s
                  then Some (set_wpc (set_writer s (Some (AW w))) (fupd (wpc s) w WSubL))
                  else None
        | _ => None
        end
    | LSubBody w =>
        match wpc s w with
        | WSubL =>
            if is_writer s (AW w) then
              match best s with
              | None =>                        (* p.bestConn.MasterHead() on nil: panic, deferred Unlock *)
                  Some (set_wpc (set_writer s None) (fupd (wpc s) w WPanicked))
              | Some b =>
                  match cpc s b with
                  | CPub _ => None             (* bestConn.mu held by a publisher: blocked holding p.mu *)
                  | CIdle =>
                      let s1 := set_wpc (set_writer s None) (fupd (wpc s) w WWait) in
                      if (tgt w <=? head s b)%N
                      then Some (set_log (set_wid (set_wch s1 (fupd (wch s) w (Some (b, head s b))))
                                                  (fupd (wid s) w 0%N))
                                         (log s ++ [(b, head s b)]))
                      else let id := (next_id s + 1)%N in
                           Some (set_wid (set_wl (set_next_id s1 id) (wl s ++ [(id, w)]))
                                         (fupd (wid s) w id))
                  end
              end
            else None
        | _ => None
        end
    | LRecv w =>
        match wpc s w, wch s w with
        | WWait, Some m =>
            Some (set_wpc (set_wgot (set_wch s (fupd (wch s) w None)) (fupd (wgot s) w (Some m)))
                          (fupd (wpc s) w (if (tgt w <=? snd m)%N then WUnsub ROk else WWait)))
        | _, _ => None
        end
    | LLeave w r =>
        match wpc s w, r with
        | WWait, RTimeout | WWait, RCancel => Some (set_wpc s (fupd (wpc s) w (WUnsub r)))
        | _, _ => None
        end
    | LUnsub w =>
        match wpc s w with
        | WUnsub r =>
            if lock_free s
            then Some (set_wpc (set_wl s (filter (fun e => negb (N.eqb (fst e) (wid s w))) (wl s)))
                               (fupd (wpc s) w (WDone r)))
            else None
        | _ => None
        end
    end.

  Inductive reachable (s0 : state) : state -> Prop :=
  | reach_init : reachable s0 s0
  | reach_step s l s' : reachable s0 s -> step s l = Some s' -> reachable s0 s'.

  Fixpoint run (s : state) (ls : list label) : option state :=
    match ls with
    | [] => Some s
    | l :: t => match step s l with Some s' => run s' t | None => None end
    end.
End Step.

(** a freshly built pool: heads and the current choice are arbitrary *)
Definition init_state (heads : nat -> N) (b : option nat) : state :=
  mkS heads (fun _ => CIdle) [] b 0 None [] 0%N RIdle
      (fun _ => WNew) (fun _ => 0%N) (fun _ => None) (fun _ => None) [].

(** ---- vocabulary of the theorems ---- *)

(** the holder of the pool lock (writer, or the reader = Run in notifySubscribers)
    has an enabled step *)
Definition holder_can_step (nconns : nat) (tgt : nat -> N) (s : state) : Prop :=
  match writer s with
  | Some (AW w) => step nconns tgt s (LSubBody w) <> None
  | Some ARun => step nconns tgt s LUpdRead <> None \/
                 exists nb, step nconns tgt s (LUpdDone nb) <> None
  | None => readers s = 0 \/ step nconns tgt s LSend <> None \/ step nconns tgt s LRUnlock <> None
  end.

(** Run holds RLock and its next send is into a full channel *)
Definition notify_blocked (s : state) : Prop :=
  exists u w rem m, rpc s = RNotify u (w :: rem) /\ wch s w = Some m.

(** the writer of p.mu waits for the lock of a connection that is publishing *)
Definition connlock_blocked (s : state) : Prop :=
  exists c h, cpc s c = CPub h /\
    ((rpc s = RUpd c) \/ (exists w, wpc s w = WSubL /\ best s = Some c)).
