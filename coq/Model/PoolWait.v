(** Model of liteapi/pool/conn_pool.go + connection.go — part (b): the wait-list
    protocol of the REPAIRED code as a labelled transition system.  Definitions only.
    (The protocol before the repairs, with its three deadlocks: Proofs/PoolHistory.v.)

    Agents and what they do in the Go code:

    * callers of connection.SetMasterHead(head) (connection.Run, and user goroutines
      through MasterchainInfoClient):
        c.mu.Lock(); if head.Seqno <= c.masterHead.Seqno { c.mu.Unlock(); return }
        c.masterHead = head; c.mu.Unlock();  c.masterHeadUpdatedCh <- {head, c}
      The critical section contains no blocking operation: it is ONE step [LSetHead].
      The send into the shared channel (capacity 10) happens AFTER c.mu is released:
      the caller then sits in [pend] until the send completes ([LPublish]); several
      callers of the same connection may be pending at once, and their sends may
      complete in any order.  MasterHead() (c.mu.RLock) therefore never blocks.

    * the pool's Run loop (one goroutine): select { tick: updateBest() ;
        update := <-masterHeadUpdatedCh: notifySubscribers(update) }
      - notifySubscribers: p.mu.RLock(); if bestConn != nil && update.Conn.ID() == bestConn.ID()
        { for _, ch := range p.waitList { notifySubscriber(ch, update.Head) } }; p.mu.RUnlock()
        notifySubscriber is three non-blocking selects: send; if the channel (capacity 1)
        was full, take the pending head out and keep the one with the larger seqno;
        send.  Run is the only sender on a registered channel and the waiter can only
        empty it, so the last send always succeeds and the whole is ONE step [LSend]
        whose effect is  ch := newer(ch, head)  (if the waiter receives between the
        selects, that is the interleaving "LRecv then LSend").  The iteration order of
        the Go map is unspecified ([LRLock order]).
      - updateBest: p.mu.Lock(); MasterHead() of every connection; the selection rule
        (Model/Pool.v) on those heads and on IsOK()/AverageRoundTrip(), which are inputs
        from the network ([LUpdDone obs old]); p.mu.Unlock().  The heads are read one by one
        in the code; the model reads them at once (the comparison is monotone in a
        connection's head, Proofs/PoolP.v current_go_mono).

    * waiter w (WaitMasterchainSeqno(ctx, tgt w, timeout); BestMasterchainClient's
      wait is the instance tgt = 1 without timeout):
        subscribe:   ch := make(chan, 1); p.mu.Lock(); head := p.bestConn.MasterHead();
                     if head.Seqno >= seqno { ch <- head; id = 0 } else { waitListID++;
                     waitList[waitListID] = ch }; p.mu.Unlock()
        loop:        timer := time.NewTimer(timeout)   -- once, before the loop
                     select { ctx.Done / timer.C -> return err ; head := <-ch ->
                     if head.Seqno >= seqno return nil }
        on return:   deferred unsubscribe: p.mu.Lock(); delete(waitList, id); p.mu.Unlock()

    The pool lock p.mu is Go's sync.RWMutex, which PREFERS WRITERS: Lock() first
    announces itself (from then on every new RLock() waits) and then waits for the
    readers already inside to leave.  So every acquisition of the write lock is two
    steps here — announce ([wreq := Some a]; only one writer is announced at a time,
    the others queue on the mutex's internal lock, i.e. have not taken the step yet)
    and acquire (needs [readers = 0]) — and RLock() is enabled only when no writer is
    announced or inside.  With this rule a critical section that takes p.mu.RLock()
    again while holding it can deadlock (a writer announces in between): the flag
    [reent] of the step function is that variant of notifySubscribers (reading
    bestConn through the locking accessor bestConnection()); the real code is
    [reent = false], the deadlock of [reent = true] is Proofs/PoolMutants.v.

    Run handles the queued head updates one at a time, oldest first ([LTake] removes
    the head of [updq]); the flag [coal] is the variant that merges everything queued
    into "the newest head" and so loses the best connection's update when the survivor
    belongs to another connection.

    Reductions (sound because the merged code has no blocking operation and touches
    no shared state in between): unsubscribe is one step (Lock; delete; Unlock);
    receive + comparison is one step; the other users of p.mu (bestConnection,
    ConnectionsNumber: RLock, read, RUnlock; Status, addConnection: Lock, non-blocking
    body, Unlock) are not agents here: they behave like a waiter's unsubscribe
    (writers) or like nothing at all (readers that never wait while inside).
    Seqnos are plain N (the uint32 comparisons [>]/[>=] agree on values < 2^32). *)
From Coq Require Import List NArith ZArith Bool Arith.
From Tongo Require Import Model.Pool.
Import ListNotations.

Definition msg := (nat * N)%type.          (* masterHeadUpdated: (Conn.ID(), Head.Seqno) *)
Inductive agent := ARun | AW (w : nat).
Inductive wres := ROk | RTimeout | RCancel.
Inductive wait_pc :=
| WNew                      (* before subscribe *)
| WSubW                     (* subscribe: p.mu.Lock() announced, waiting for the readers to leave *)
| WSubL                     (* inside subscribe, holds p.mu (write) *)
| WWait                     (* in the select loop *)
| WUnsub (r : wres)         (* left the loop with result r; deferred unsubscribe not yet at p.mu.Lock *)
| WUnsubW (r : wres)        (* unsubscribe: p.mu.Lock() announced, waiting for the readers to leave *)
| WDone (r : wres)          (* returned r *)
| WPanicked.                (* nil bestConn dereferenced in subscribe (pool without connections) *)
Inductive run_pc :=
| RIdle                                       (* in select *)
| RWantR (u : msg)                            (* received u from masterHeadUpdatedCh, calling p.mu.RLock *)
| RInner (u : msg)                            (* [reent] only: holds RLock, calling the accessor's RLock *)
| RNotify (u : msg) (matched : bool) (rem : list nat)
                                              (* holds RLock; matched: u comes from bestConn;
                                                 channels (by waiter) still to be sent to *)
| RWantW                                      (* ticker fired: updateBest's p.mu.Lock() announced *)
| RUpd.                                       (* in updateBest, holds p.mu (write) *)

Definition upd_cap : nat := 10.            (* make(chan masterHeadUpdated, 10) *)

Record state := mkS {
  head : nat -> N;
  pend : list msg;
  updq : list msg;
  best : option nat;
  readers : nat;
  writer : option agent;
  wreq : option agent;
  wl : list (N * nat);
  next_id : N;
  rpc : run_pc;
  wpc : nat -> wait_pc;
  wid : nat -> N;
  wch : nat -> option msg;
  wgot : nat -> option msg;
  woff : nat -> list msg;
  log : list msg
}.
(* readers: goroutines inside p.mu.RLock; writer: goroutine inside p.mu.Lock; wreq: the writer that has
   announced p.mu.Lock() and waits for the readers to leave; woff, log: ghost fields *)

Definition set_head (s : state) (v : nat -> N) : state :=
  mkS v (pend s) (updq s) (best s) (readers s) (writer s) (wreq s) (wl s) (next_id s) (rpc s) (wpc s) (wid s) (wch s) (wgot s) (woff s) (log s).
Definition set_pend (s : state) (v : list msg) : state :=
  mkS (head s) v (updq s) (best s) (readers s) (writer s) (wreq s) (wl s) (next_id s) (rpc s) (wpc s) (wid s) (wch s) (wgot s) (woff s) (log s).
Definition set_updq (s : state) (v : list msg) : state :=
  mkS (head s) (pend s) v (best s) (readers s) (writer s) (wreq s) (wl s) (next_id s) (rpc s) (wpc s) (wid s) (wch s) (wgot s) (woff s) (log s).
Definition set_best (s : state) (v : option nat) : state :=
  mkS (head s) (pend s) (updq s) v (readers s) (writer s) (wreq s) (wl s) (next_id s) (rpc s) (wpc s) (wid s) (wch s) (wgot s) (woff s) (log s).
Definition set_readers (s : state) (v : nat) : state :=
  mkS (head s) (pend s) (updq s) (best s) v (writer s) (wreq s) (wl s) (next_id s) (rpc s) (wpc s) (wid s) (wch s) (wgot s) (woff s) (log s).
Definition set_writer (s : state) (v : option agent) : state :=
  mkS (head s) (pend s) (updq s) (best s) (readers s) v (wreq s) (wl s) (next_id s) (rpc s) (wpc s) (wid s) (wch s) (wgot s) (woff s) (log s).
Definition set_wreq (s : state) (v : option agent) : state :=
  mkS (head s) (pend s) (updq s) (best s) (readers s) (writer s) v (wl s) (next_id s) (rpc s) (wpc s) (wid s) (wch s) (wgot s) (woff s) (log s).
Definition set_wl (s : state) (v : list (N * nat)) : state :=
  mkS (head s) (pend s) (updq s) (best s) (readers s) (writer s) (wreq s) v (next_id s) (rpc s) (wpc s) (wid s) (wch s) (wgot s) (woff s) (log s).
Definition set_next_id (s : state) (v : N) : state :=
  mkS (head s) (pend s) (updq s) (best s) (readers s) (writer s) (wreq s) (wl s) v (rpc s) (wpc s) (wid s) (wch s) (wgot s) (woff s) (log s).
Definition set_rpc (s : state) (v : run_pc) : state :=
  mkS (head s) (pend s) (updq s) (best s) (readers s) (writer s) (wreq s) (wl s) (next_id s) v (wpc s) (wid s) (wch s) (wgot s) (woff s) (log s).
Definition set_wpc (s : state) (v : nat -> wait_pc) : state :=
  mkS (head s) (pend s) (updq s) (best s) (readers s) (writer s) (wreq s) (wl s) (next_id s) (rpc s) v (wid s) (wch s) (wgot s) (woff s) (log s).
Definition set_wid (s : state) (v : nat -> N) : state :=
  mkS (head s) (pend s) (updq s) (best s) (readers s) (writer s) (wreq s) (wl s) (next_id s) (rpc s) (wpc s) v (wch s) (wgot s) (woff s) (log s).
Definition set_wch (s : state) (v : nat -> option msg) : state :=
  mkS (head s) (pend s) (updq s) (best s) (readers s) (writer s) (wreq s) (wl s) (next_id s) (rpc s) (wpc s) (wid s) v (wgot s) (woff s) (log s).
Definition set_wgot (s : state) (v : nat -> option msg) : state :=
  mkS (head s) (pend s) (updq s) (best s) (readers s) (writer s) (wreq s) (wl s) (next_id s) (rpc s) (wpc s) (wid s) (wch s) v (woff s) (log s).
Definition set_woff (s : state) (v : nat -> list msg) : state :=
  mkS (head s) (pend s) (updq s) (best s) (readers s) (writer s) (wreq s) (wl s) (next_id s) (rpc s) (wpc s) (wid s) (wch s) (wgot s) v (log s).
Definition set_log (s : state) (v : list msg) : state :=
  mkS (head s) (pend s) (updq s) (best s) (readers s) (writer s) (wreq s) (wl s) (next_id s) (rpc s) (wpc s) (wid s) (wch s) (wgot s) (woff s) v.

Definition fupd {A} (f : nat -> A) (i : nat) (v : A) : nat -> A :=
  fun j => if Nat.eqb j i then v else f j.

Fixpoint remove_nth {A} (k : nat) (l : list A) : list A :=
  match l, k with
  | [], _ => []
  | _ :: t, O => t
  | x :: t, S k' => x :: remove_nth k' t
  end.

Inductive label :=
| LSetHead (c : nat) (h : N)   (* a caller runs the critical section of connection c's SetMasterHead(h) *)
| LPublish (k : nat)           (* the send of the k-th pending caller into masterHeadUpdatedCh completes *)
| LTake                        (* Run: update := <-masterHeadUpdatedCh *)
| LRLock (order : list nat)    (* Run: p.mu.RLock() in notifySubscribers; map order chosen *)
| LRInner (order : list nat)   (* [reent] only: the accessor's RLock(); read; RUnlock() *)
| LSend                        (* Run: notifySubscriber(ch, update.Head) for the next channel *)
| LRUnlock                     (* Run: loop finished, p.mu.RUnlock() *)
| LTick                        (* Run: ticker fired, updateBest: p.mu.Lock() announced *)
| LUpdLock                     (* Run: the write lock is acquired *)
| LUpdDone (obs : list (bool * Z)) (old : list N)
                               (* Run: heads read, IsOK()/AverageRoundTrip() observed as [obs],
                                  bestConn := selection; p.mu.Unlock() *)
| LSubWant (w : nat)           (* waiter: p.mu.Lock() in subscribe announced *)
| LSubLock (w : nat)           (* waiter: the write lock is acquired *)
| LSubBody (w : nat)           (* waiter: body of subscribe; p.mu.Unlock() *)
| LRecv (w : nat)              (* waiter: head := <-ch and the comparison *)
| LLeave (w : nat) (r : wres)  (* waiter: timer (RTimeout) or ctx.Done (RCancel) branch *)
| LUnsubWant (w : nat)         (* waiter: p.mu.Lock() in the deferred unsubscribe announced *)
| LUnsub (w : nat).            (* waiter: lock acquired; delete; Unlock *)

Definition lock_free (s : state) : bool :=
  Nat.eqb (readers s) 0 && match writer s with None => true | Some _ => false end.

(** RLock() succeeds, and Lock() may announce itself: no writer inside or announced *)
Definition no_writer (s : state) : bool :=
  match writer s, wreq s with None, None => true | _, _ => false end.

Definition is_wreq (s : state) (a : agent) : bool :=
  match wreq s, a with
  | Some ARun, ARun => true
  | Some (AW w), AW w' => Nat.eqb w w'
  | _, _ => false
  end.

Definition is_writer (s : state) (a : agent) : bool :=
  match writer s, a with
  | Some ARun, ARun => true
  | Some (AW w), AW w' => Nat.eqb w w'
  | _, _ => false
  end.

Definition mem (x : nat) (l : list nat) : bool := existsb (Nat.eqb x) l.
(** [order] enumerates the channels of the wait list *)
Definition is_order (order : list nat) (s : state) : bool :=
  let chans := map snd (wl s) in
  Nat.eqb (length order) (length chans) &&
  forallb (fun w => mem w chans) order && forallb (fun w => mem w order) chans.

Definition same_best (s : state) (c : nat) : bool :=
  match best s with Some b => Nat.eqb b c | None => false end.

(** notifySubscriber: [if pending.Seqno > head.Seqno { head = pending }] *)
Definition newer (old : option msg) (u : msg) : msg :=
  match old with
  | Some m => if (snd u <? snd m)%N then m else u
  | None => u
  end.

(** what updateBest sees: heads from the connections, alive / round-trip time from the network *)
Definition mk_conns (nconns : nat) (heads : nat -> N) (obs : list (bool * Z)) : list conn :=
  map (fun i => let o := nth i obs (false, 0%Z) in mkConn (fst o) (heads i) (snd o)) (seq 0 nconns).

(** the variant of Run that, after receiving one update, also takes everything already
    queued and keeps the update with the highest (latest on ties) seqno
    ([if next.Head.Seqno >= update.Head.Seqno { update = next }]); the real Run takes
    one update per iteration of its loop.  Refuted in Proofs/PoolMutants.v. *)
Fixpoint coalesce (u : msg) (rest : list msg) : msg :=
  match rest with
  | [] => u
  | n :: t => coalesce (if (snd u <=? snd n)%N then n else u) t
  end.

(** updateBest reads every head twice (maximum, then the find functions) holding only p.mu; SetMasterHead
    needs only c.mu, so a head may rise in between.  [old] is what the first loop read: any
    heads not above the current ones (missing entries: the current head). *)
Definition first_read (heads : nat -> N) (old : list N) : nat -> N :=
  fun i => N.min (nth i old (heads i)) (heads i).

Section Step.
  Variable strat : strategy.      (* p.strategy *)
  Variable reent : bool.          (* false: the real code; true: notifySubscribers re-acquires RLock *)
  Variable coal : bool.           (* false: the real code; true: Run merges all queued updates into one *)
  Variable nconns : nat.          (* len(p.conns), fixed after initialisation *)
  Variable tgt : nat -> N.        (* seqno waiter w waits for *)

  Definition step (s : state) (l : label) : option state :=
    match l with
    | LSetHead c h =>
        if (head s c <? h)%N
        then Some (set_pend (set_head s (fupd (head s) c h)) (pend s ++ [(c, h)]))
        else Some s
    | LPublish k =>
        match nth_error (pend s) k with
        | Some m =>
            if Nat.ltb (length (updq s)) upd_cap
            then Some (set_pend (set_updq s (updq s ++ [m])) (remove_nth k (pend s)))
            else None                          (* buffer full: blocked, holding no lock *)
        | None => None
        end
    | LTake =>
        match rpc s, updq s with
        | RIdle, u :: rest =>
            if coal then Some (set_rpc (set_updq s []) (RWantR (coalesce u rest)))
            else Some (set_rpc (set_updq s rest) (RWantR u))   (* one update, the oldest one *)
        | _, _ => None
        end
    | LRLock order =>
        match rpc s with
        | RWantR u =>
            if no_writer s then
              let s1 := set_readers s (S (readers s)) in
              if reent then Some (set_rpc s1 (RInner u))
              else if same_best s (fst u)
              then if is_order order s
                   then Some (set_log (set_rpc s1 (RNotify u true order)) (log s ++ [u]))
                   else None
              else Some (set_rpc s1 (RNotify u false []))
            else None                          (* a writer is inside or announced: RLock waits *)
        | _ => None
        end
    | LRInner order =>
        match rpc s with
        | RInner u =>
            if reent && no_writer s then       (* the inner RLock obeys the same rule *)
              if same_best s (fst u)
              then if is_order order s
                   then Some (set_log (set_rpc s (RNotify u true order)) (log s ++ [u]))
                   else None
              else Some (set_rpc s (RNotify u false []))
            else None
        | _ => None
        end
    | LSend =>
        match rpc s with
        | RNotify u mt (w :: rem) =>
            let m := newer (wch s w) u in      (* never blocks *)
            Some (set_rpc (set_woff (set_wch s (fupd (wch s) w (Some m)))
                                    (fupd (woff s) w (woff s w ++ [u])))
                          (RNotify u mt rem))
        | _ => None
        end
    | LRUnlock =>
        match rpc s with
        | RNotify u mt [] => Some (set_rpc (set_readers s (pred (readers s))) RIdle)
        | _ => None
        end
    | LTick =>
        match rpc s with
        | RIdle => if no_writer s then Some (set_rpc (set_wreq s (Some ARun)) RWantW) else None
        | _ => None
        end
    | LUpdLock =>
        match rpc s with
        | RWantW => if is_wreq s ARun && lock_free s
                    then Some (set_rpc (set_wreq (set_writer s (Some ARun)) None) RUpd)
                    else None
        | _ => None
        end
    | LUpdDone obs old =>
        match rpc s with
        | RUpd =>
            if is_writer s ARun
            then Some (set_rpc (set_writer (set_best s (update_best2 strat (mk_conns nconns (first_read (head s) old) obs)
                                                                      (mk_conns nconns (head s) obs) (best s)))
                                           None) RIdle)
            else None
        | _ => None
        end
    | LSubWant w =>
        match wpc s w with
        | WNew => if no_writer s
                  then Some (set_wpc (set_wreq s (Some (AW w))) (fupd (wpc s) w WSubW))
                  else None
        | _ => None
        end
    | LSubLock w =>
        match wpc s w with
        | WSubW => if is_wreq s (AW w) && lock_free s
                   then Some (set_wpc (set_wreq (set_writer s (Some (AW w))) None) (fupd (wpc s) w WSubL))
                   else None
        | _ => None
        end
    | LSubBody w =>
        match wpc s w with
        | WSubL =>
            if is_writer s (AW w) then
              match best s with
              | None =>                        (* p.bestConn.MasterHead() on nil: panic, deferred Unlock *)
                  Some (set_wpc (set_writer s None) (fupd (wpc s) w WPanicked))
              | Some b =>
                  let s1 := set_wpc (set_writer s None) (fupd (wpc s) w WWait) in
                  if (tgt w <=? head s b)%N
                  then Some (set_log (set_woff (set_wid (set_wch s1 (fupd (wch s) w (Some (b, head s b))))
                                                        (fupd (wid s) w 0%N))
                                               (fupd (woff s) w (woff s w ++ [(b, head s b)])))
                                     (log s ++ [(b, head s b)]))
                  else let id := (next_id s + 1)%N in
                       Some (set_wid (set_wl (set_next_id s1 id) (wl s ++ [(id, w)]))
                                     (fupd (wid s) w id))
              end
            else None
        | _ => None
        end
    | LRecv w =>
        match wpc s w, wch s w with
        | WWait, Some m =>
            Some (set_wpc (set_wgot (set_wch s (fupd (wch s) w None)) (fupd (wgot s) w (Some m)))
                          (fupd (wpc s) w (if (tgt w <=? snd m)%N then WUnsub ROk else WWait)))
        | _, _ => None
        end
    | LLeave w r =>
        match wpc s w, r with
        | WWait, RTimeout | WWait, RCancel => Some (set_wpc s (fupd (wpc s) w (WUnsub r)))
        | _, _ => None
        end
    | LUnsubWant w =>
        match wpc s w with
        | WUnsub r => if no_writer s
                      then Some (set_wpc (set_wreq s (Some (AW w))) (fupd (wpc s) w (WUnsubW r)))
                      else None
        | _ => None
        end
    | LUnsub w =>
        match wpc s w with
        | WUnsubW r =>
            if is_wreq s (AW w) && lock_free s
            then Some (set_wpc (set_wreq (set_wl s (filter (fun e => negb (N.eqb (fst e) (wid s w))) (wl s))) None)
                               (fupd (wpc s) w (WDone r)))
            else None
        | _ => None
        end
    end.

  Inductive reachable (s0 : state) : state -> Prop :=
  | reach_init : reachable s0 s0
  | reach_step s l s' : reachable s0 s -> step s l = Some s' -> reachable s0 s'.

  Fixpoint run (s : state) (ls : list label) : option state :=
    match ls with
    | [] => Some s
    | l :: t => match step s l with Some s' => run s' t | None => None end
    end.
End Step.

(** a freshly built pool: heads and the current choice are arbitrary *)
Definition init_state (heads : nat -> N) (b : option nat) : state :=
  mkS heads [] [] b 0 None None [] 0%N RIdle
      (fun _ => WNew) (fun _ => 0%N) (fun _ => None) (fun _ => None) (fun _ => []) [].

(** ---- vocabulary of the theorems ---- *)

(** the holder of the pool lock (writer, or the reader = Run in notifySubscribers)
    has an enabled step *)
Definition holder_can_step (strat : strategy) (reent coal : bool) (nconns : nat) (tgt : nat -> N) (s : state) : Prop :=
  match writer s with
  | Some (AW w) => step strat reent coal nconns tgt s (LSubBody w) <> None
  | Some ARun => forall obs old, step strat reent coal nconns tgt s (LUpdDone obs old) <> None
  | None => readers s = 0 \/ step strat reent coal nconns tgt s LSend <> None \/
            step strat reent coal nconns tgt s LRUnlock <> None \/
            exists o, step strat reent coal nconns tgt s (LRInner o) <> None
  end.

(** the steps by which the current holder of the pool lock finishes its critical
    section (empty when the lock is free) *)
Definition release (s : state) : list label :=
  match writer s with
  | Some (AW w) => [LSubBody w]
  | Some ARun => [LUpdDone [] []]
  | None => match rpc s with
            | RNotify _ _ rem => repeat LSend (length rem) ++ [LRUnlock]
            | _ => []
            end
  end.

(** the steps by which the announced writer, once the lock is free, takes it and
    finishes its critical section *)
Definition serve (s : state) : list label :=
  match wreq s with
  | Some ARun => [LUpdLock; LUpdDone [] []]
  | Some (AW w) => match wpc s w with
                   | WSubW => [LSubLock w; LSubBody w]
                   | _ => [LUnsub w]
                   end
  | None => []
  end.

(** labels that are moves of the pool's own goroutines finishing what they started
    (no new head, no new caller, no timeout, no new lock request) *)
Definition internal (l : label) : bool :=
  match l with
  | LSend | LRUnlock | LUpdDone _ _ | LSubBody _ | LRLock _ | LTake
  | LUpdLock | LSubLock _ | LUnsub _ => true
  | _ => false
  end.
