(** Model of liteclient/client.go (+ the status machine of liteclient/connection.go):
    the request/response registry as a labelled transition system.  Definitions only.

    Client.Request (call i, query id [ids i] drawn by math/rand inside Request):
        resp := registerCallback(id)        queriesMutex; queries[id] = make(chan []byte, 1)
        defer unregisterCallback(id)        queriesMutex; delete(queries, id)
        connMutex; conn := connections[nextConn]; nextConn = (nextConn+1) % len
        err = conn.Send(p)                  Connection.mu; status != Connected -> error;
                                            write error -> go c.reconnect(), error
        select { <-ctx.Done(): timeout error ; b := <-resp: return b }
    Client.reader(conn) (one goroutine per connection), for p := range conn.Responses():
        non-answer magic -> skip;  processQueryAnswer: payload < 37 bytes -> error;
        queriesMutex { resp, prs := queries[id]; delete(queries, id) };
        !prs -> error (unknown or duplicate); bad length prefix -> error (entry already gone);
        resp <- data     -- a BLOCKING send into the capacity-1 channel
    Connection: status Connecting/Connected under Connection.mu; reconnect():
        if status == Connecting { return }; status = Connecting; econn.close(); loop
        { setupEncryptedConnection } -- called from `go c.reconnect()` after a failed Send
        (requests and the 3 s ping) and from the reader after 10 s of silence.

    All critical sections of queriesMutex / connMutex / Connection.mu on these paths
    contain no blocking operation, so each is one atomic step here.  Connections
    without an auth key: the auth handshake is not modelled, and a
    tcp.authentificationNonce packet is rejected by handleAuthResponse like any
    unexpected packet (before the fix "do not answer an auth nonce without an auth
    key" it sent on authCompleteChan while holding Connection.mu and, with the
    status Connecting, blocked forever: every later Send hung).  Payloads and ids
    are opaque N. *)
From Coq Require Import List NArith Bool Arith.
Import ListNotations.

Inductive result := ROk (d : N) | RTimeout | RSendErr.
Inductive call_pc :=
| CInit                   (* before registerCallback *)
| CReg                    (* registered, before the connection choice *)
| CPicked (k : nat)       (* connection chosen, before Send *)
| CSent                   (* in the select *)
| CLeaving (r : result)   (* result decided, deferred unregisterCallback pending *)
| CReturned (r : result).

Inductive packet :=
| PAnswer (id d : N)      (* adnl.message.answer for query id with payload d *)
| PMalformed (id : N)     (* answer magic and id, but the length prefix does not decode *)
| PPong                   (* tcp.pong / tcp.authentificationNonce: consumed by Connection.reader *)
| PJunk.                  (* any other magic, or an answer shorter than 37 bytes *)

Record state := mkC {
  pc : nat -> call_pc;
  reg : list (N * nat);
  ch : nat -> option N;
  next : nat;
  status : nat -> bool;
  broken : nat -> bool;
  rq : nat -> nat;
  loops : nat -> nat;
  wire : nat -> list packet;
  emitted : list (N * N);
  delivered : list (nat * N);
  since : nat -> nat;       (* seconds since Connection.reader k last began a loop iteration *)
  pinger : nat -> bool;     (* the goroutine `go c.ping()` of NewConnection is running *)
  psince : nat -> nat       (* seconds since it last called Send *)
}.

Definition set_pc (s : state) (v : nat -> call_pc) : state :=
  mkC v (reg s) (ch s) (next s) (status s) (broken s) (rq s) (loops s) (wire s) (emitted s) (delivered s) (since s) (pinger s) (psince s).
Definition set_reg (s : state) (v : list (N * nat)) : state :=
  mkC (pc s) v (ch s) (next s) (status s) (broken s) (rq s) (loops s) (wire s) (emitted s) (delivered s) (since s) (pinger s) (psince s).
Definition set_ch (s : state) (v : nat -> option N) : state :=
  mkC (pc s) (reg s) v (next s) (status s) (broken s) (rq s) (loops s) (wire s) (emitted s) (delivered s) (since s) (pinger s) (psince s).
Definition set_next (s : state) (v : nat) : state :=
  mkC (pc s) (reg s) (ch s) v (status s) (broken s) (rq s) (loops s) (wire s) (emitted s) (delivered s) (since s) (pinger s) (psince s).
Definition set_status (s : state) (v : nat -> bool) : state :=
  mkC (pc s) (reg s) (ch s) (next s) v (broken s) (rq s) (loops s) (wire s) (emitted s) (delivered s) (since s) (pinger s) (psince s).
Definition set_broken (s : state) (v : nat -> bool) : state :=
  mkC (pc s) (reg s) (ch s) (next s) (status s) v (rq s) (loops s) (wire s) (emitted s) (delivered s) (since s) (pinger s) (psince s).
Definition set_rq (s : state) (v : nat -> nat) : state :=
  mkC (pc s) (reg s) (ch s) (next s) (status s) (broken s) v (loops s) (wire s) (emitted s) (delivered s) (since s) (pinger s) (psince s).
Definition set_loops (s : state) (v : nat -> nat) : state :=
  mkC (pc s) (reg s) (ch s) (next s) (status s) (broken s) (rq s) v (wire s) (emitted s) (delivered s) (since s) (pinger s) (psince s).
Definition set_wire (s : state) (v : nat -> list packet) : state :=
  mkC (pc s) (reg s) (ch s) (next s) (status s) (broken s) (rq s) (loops s) v (emitted s) (delivered s) (since s) (pinger s) (psince s).
Definition set_emitted (s : state) (v : list (N * N)) : state :=
  mkC (pc s) (reg s) (ch s) (next s) (status s) (broken s) (rq s) (loops s) (wire s) v (delivered s) (since s) (pinger s) (psince s).
Definition set_delivered (s : state) (v : list (nat * N)) : state :=
  mkC (pc s) (reg s) (ch s) (next s) (status s) (broken s) (rq s) (loops s) (wire s) (emitted s) v (since s) (pinger s) (psince s).

Definition set_since (s : state) (v : nat -> nat) : state :=
  mkC (pc s) (reg s) (ch s) (next s) (status s) (broken s) (rq s) (loops s) (wire s) (emitted s) (delivered s) v (pinger s) (psince s).

Definition set_pinger (s : state) (v : nat -> bool) : state :=
  mkC (pc s) (reg s) (ch s) (next s) (status s) (broken s) (rq s) (loops s) (wire s) (emitted s) (delivered s)
      (since s) v (psince s).
Definition set_psince (s : state) (v : nat -> nat) : state :=
  mkC (pc s) (reg s) (ch s) (next s) (status s) (broken s) (rq s) (loops s) (wire s) (emitted s) (delivered s)
      (since s) (pinger s) v.

(** Connection.ping(): for { time.Sleep(3 s); registerPing; err = c.Send(p); ... } never
    returns, whatever Send answers: one pinger per Connection for its whole life,
    across reconnects.  Time cannot run past the pinger's deadline without the
    pinger acting (3 s of sleep plus scheduling slack, in ticks of one second). *)
Definition ping_ticks : nat := 5.

(** reconnectTimeout = 10 s, in ticks of one second: Connection.reader's select
    creates a fresh time.After(reconnectTimeout) in every loop iteration, i.e.
    after every packet it receives, whatever its kind (pong and auth nonce included) *)
Definition silence_ticks : nat := 10.

Definition cupd {A} (f : nat -> A) (i : nat) (v : A) : nat -> A :=
  fun j => if Nat.eqb j i then v else f j.

(* the Go map: lookup / delete / assignment by key *)
Fixpoint lookup (id : N) (r : list (N * nat)) : option nat :=
  match r with
  | [] => None
  | (k, i) :: t => if N.eqb k id then Some i else lookup id t
  end.
Definition remove_id (id : N) (r : list (N * nat)) : list (N * nat) :=
  filter (fun e => negb (N.eqb (fst e) id)) r.

Inductive label :=
| LRegister (i : nat)
| LPick (i : nat)
| LSendOk (i : nat)
| LSendFail (i : nat)
| LEmit (k : nat) (p : packet)     (* the server writes a packet on connection k *)
| LDeliver (k : nat)               (* reader k processes the next packet *)
| LRecv (i : nat)
| LTimeout (i : nat)
| LUnregister (i : nat)
| LDrop (k : nat)                  (* the TCP connection k dies; packets in flight are lost *)
| LPingOk (k : nat)                (* the pinger's Send writes the ping (into the void if the connection is dead) *)
| LPingSkip (k : nat)              (* the pinger's Send: "not connected yet" *)
| LPingFail (k : nat)              (* the ping's Send fails: go c.reconnect() *)
| LTick (k : nat)                  (* one second passes for the reader of connection k *)
| LSilence (k : nat)               (* reader: 10 s without a packet: c.reconnect() *)
| LReconnectEnter (k : nat)        (* one reconnect() call runs its locked prologue *)
| LReconnectFail (k : nat)         (* one attempt of the loop failed (refused, handshake EOF): sleep 1 s, next
                                      attempt with a context of its own (context.Background()) *)
| LReconnectDone (k : nat).        (* setupEncryptedConnection succeeded *)

Definition in_flight (p : call_pc) : bool :=
  match p with CReg | CPicked _ | CSent | CLeaving _ => true | _ => false end.

Section Step.
  Variable nconn : nat.           (* len(c.connections) *)
  Variable ids : nat -> N.        (* query id of call i *)

  Definition step (s : state) (l : label) : option state :=
    match l with
    | LRegister i =>
        match pc s i with
        | CInit => Some (set_pc (set_reg s ((ids i, i) :: remove_id (ids i) (reg s)))
                                (cupd (pc s) i CReg))
        | _ => None
        end
    | LPick i =>
        match pc s i with
        | CReg => Some (set_pc (set_next s (Nat.modulo (S (next s)) nconn))
                               (cupd (pc s) i (CPicked (next s))))
        | _ => None
        end
    | LSendOk i =>
        match pc s i with
        | CPicked k => if status s k            (* on a dead TCP connection the first write(s) still
                                                     succeed: the query is lost and the call times out *)
                       then Some (set_pc s (cupd (pc s) i CSent)) else None
        | _ => None
        end
    | LSendFail i =>
        match pc s i with
        | CPicked k =>
            if negb (status s k) then Some (set_pc s (cupd (pc s) i (CLeaving RSendErr)))
            else if broken s k
            then Some (set_pc (set_rq s (cupd (rq s) k (S (rq s k)))) (cupd (pc s) i (CLeaving RSendErr)))
            else None
        | _ => None
        end
    | LEmit k p =>
        if status s k && negb (broken s k)
        then let s1 := set_wire s (cupd (wire s) k (wire s k ++ [p])) in
             match p with
             | PAnswer id d => Some (set_emitted s1 (emitted s ++ [(id, d)]))
             | _ => Some s1
             end
        else None
    | LDeliver k =>
        match wire s k with
        | [] => None
        | p :: rest =>
            let s1 := set_since (set_wire s (cupd (wire s) k rest)) (cupd (since s) k 0) in
            match p with
            | PPong | PJunk => Some s1
            | PMalformed id => Some (set_reg s1 (remove_id id (reg s)))
            | PAnswer id d =>
                match lookup id (reg s) with
                | None => Some s1                      (* unknown or duplicate: dropped *)
                | Some i =>
                    match ch s i with
                    | Some _ => None                   (* full channel: the reader would block *)
                    | None => Some (set_delivered (set_ch (set_reg s1 (remove_id id (reg s)))
                                                          (cupd (ch s) i (Some d)))
                                                  (delivered s ++ [(i, d)]))
                    end
                end
            end
        end
    | LRecv i =>
        match pc s i, ch s i with
        | CSent, Some d => Some (set_pc (set_ch s (cupd (ch s) i None)) (cupd (pc s) i (CLeaving (ROk d))))
        | _, _ => None
        end
    | LTimeout i =>
        match pc s i with
        | CSent => Some (set_pc s (cupd (pc s) i (CLeaving RTimeout)))
        | _ => None
        end
    | LUnregister i =>
        match pc s i with
        | CLeaving r => Some (set_pc (set_reg s (remove_id (ids i) (reg s))) (cupd (pc s) i (CReturned r)))
        | _ => None
        end
    | LDrop k =>
        if status s k && negb (broken s k)
        then Some (set_wire (set_broken s (cupd (broken s) k true)) (cupd (wire s) k []))
        else None
    | LPingOk k =>
        if pinger s k && status s k then Some (set_psince s (cupd (psince s) k 0)) else None
    | LPingSkip k =>
        if pinger s k && negb (status s k) then Some (set_psince s (cupd (psince s) k 0)) else None
    | LPingFail k =>
        if pinger s k && (status s k && broken s k)
        then Some (set_psince (set_rq s (cupd (rq s) k (S (rq s k)))) (cupd (psince s) k 0)) else None
    | LTick k =>
        if negb (pinger s k) || Nat.ltb (psince s k) ping_ticks
        then Some (set_psince (set_since s (cupd (since s) k (S (since s k))))
                              (cupd (psince s) k (S (psince s k))))
        else None
    | LSilence k =>
        if status s k && Nat.leb silence_ticks (since s k)
        then Some (set_rq s (cupd (rq s) k (S (rq s k)))) else None
    | LReconnectEnter k =>
        match rq s k with
        | O => None
        | S n =>
            let s1 := set_rq s (cupd (rq s) k n) in
            if status s k
            then Some (set_wire (set_loops (set_broken (set_status s1 (cupd (status s) k false))
                                                       (cupd (broken s) k true))
                                           (cupd (loops s) k (S (loops s k))))
                                (cupd (wire s) k []))
            else Some s1                               (* status == Connecting: return *)
        end
    | LReconnectFail k =>
        match loops s k with
        | O => None
        | S _ => Some s        (* nothing is carried from one attempt to the next *)
        end
    | LReconnectDone k =>
        match loops s k with
        | O => None
        | S n => Some (set_since (set_loops (set_broken (set_status s (cupd (status s) k true))
                                                        (cupd (broken s) k false))
                                            (cupd (loops s) k n))
                                 (cupd (since s) k 0))     (* a new reader with a fresh timer *)
        end
    end.

  Inductive reachable (s0 : state) : state -> Prop :=
  | reach_init : reachable s0 s0
  | reach_step s l s' : reachable s0 s -> step s l = Some s' -> reachable s0 s'.

  Fixpoint exec (s : state) (ls : list label) : option state :=
    match ls with
    | [] => Some s
    | l :: t => match step s l with Some s' => exec s' t | None => None end
    end.
End Step.

(** a fresh client: every connection established, nothing registered *)
Definition init_state : state :=
  mkC (fun _ => CInit) [] (fun _ => None) 0 (fun _ => true) (fun _ => false)
      (fun _ => 0) (fun _ => 0) (fun _ => []) [] [] (fun _ => 0) (fun _ => true) (fun _ => 0).

(** connections built by the harness' dial hook (NewConnection without `go c.ping()`) *)
Definition init_state_without_pinger : state := set_pinger init_state (fun _ => false).

(** seconds since the reader of connection k last began a loop iteration, read
    off a trace: a tick adds one, every packet the reader receives (of any kind)
    and the start of a new reader reset it *)
Definition tick_upd (k : nat) (l : label) (acc : nat) : nat :=
  match l with
  | LTick k' => if Nat.eqb k' k then S acc else acc
  | LDeliver k' | LReconnectDone k' => if Nat.eqb k' k then 0 else acc
  | _ => acc
  end.

Fixpoint ticks_since (k : nat) (ls : list label) (acc : nat) : nat :=
  match ls with
  | [] => acc
  | l :: t => ticks_since k t (tick_upd k l acc)
  end.

(** Request: ctx, cancel := context.WithTimeout(ctx, c.timeout).  The deadline of a
    call is the earlier of the client timeout and the caller's own deadline (if the
    caller's context has one), in any unit of time counted from the call's start. *)
Definition effective_deadline (timeout : nat) (caller : option nat) : nat :=
  match caller with
  | None => timeout
  | Some c => Nat.min timeout c
  end.

(** encodeLength / decodeLength of liteclient/client.go: the length prefix of the
    query bytes in adnl.message.query and of the answer bytes in adnl.message.answer
    (one byte below 254, else 254 and three little-endian bytes) *)
Definition enc_len (n : N) : list N :=
  if (n <? 254)%N then [n]
  else [254; n mod 256; (n / 256) mod 256; (n / 65536) mod 256]%N.

Definition dec_len (b : list N) : option (N * list N) :=
  match b with
  | [] => None
  | h :: t =>
      if (h =? 255)%N then None
      else if (h <? 254)%N then Some (h, t)
      else match t with
           | b1 :: b2 :: b3 :: r => Some ((b1 + 256 * b2 + 65536 * b3)%N, r)
           | _ => None
           end
  end.
