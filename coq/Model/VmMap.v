(** C08: the stack → Go value mapping of tlb/stack.go VmStackValue.Unmarshal
    for integer stack entries (vm_stk_tinyint, vm_stk_int), with the panic
    condition of the slice expression it contains.  This is the step every
    get-method binding applies to third-party stack content after decoding. *)
From Coq Require Import List NArith ZArith Lia Bool.
From Tongo Require Import Lib.Res.
Import ListNotations.

Definition EMap : N := 60.

(* what VmStackValue.Unmarshal sees of its destination *)
Inductive dkind :=
| DInt | DUint            (* reflect.Int..Int64 / Uint..Uint64 *)
| DBool
| DBits256                (* *tlb.Bits256 *)
| DInt257                 (* *tlb.Int257 (convertible to big.Int) *)
| DBigInt                 (* *big.Int *)
| DPtrBits256 | DPtrInt257 | DPtrOther     (* **T: the inner pointer is allocated, val stays a pointer *)
| DOther.                 (* string, struct, ... *)

Inductive sint := STiny (z : Z) | SBig (z : Z).

Definition is_int64 (z : Z) : bool := ((- 2 ^ 63 <=? z) && (z <? 2 ^ 63))%Z.
(* len(b.Bytes()): the big-endian magnitude *)
Definition nbytes (z : Z) : N := ((N.size (Z.abs_N z) + 7) / 8)%N.

Definition map_int (v : sint) (d : dkind) : res unit :=
  match v with
  | STiny z =>
      match d with
      | DBigInt | DInt257 => Ok tt                       (* val.CanConvert(bigIntType) *)
      | DBool => Ok tt
      | DBits256 | DPtrBits256 => if (z =? 0)%Z then Ok tt else Err EMap     (* then toInt: not an int kind *)
      | DInt | DUint => Ok tt                            (* toInt: SetInt / SetUint(uint64(i)) *)
      | _ => Err EMap
      end
  | SBig z =>
      match d with
      | DInt | DUint => if is_int64 z then Ok tt else Err EMap
      | DBits256 | DPtrBits256 =>
          let n := nbytes z in
          if (32 <? n)%N then Err EMap                   (* "integer257 can't be mapped to 256bits" *)
          else if (32 <? n)%N then Panic PSlice          (* copy(i[32-len(bytes):], bytes) *)
          else Ok tt
      | DBool => Ok tt
      | DInt257 | DPtrInt257 => Ok tt
      | _ => Err EMap
      end
  end.

Theorem map_int_total : forall v d p, map_int v d <> Panic p.
Proof.
  intros v d p. destruct v as [z | z]; destruct d; cbn; try discriminate.
  all: try (destruct (z =? 0)%Z; discriminate).
  all: try (destruct (is_int64 z); discriminate).
  all: destruct (32 <? nbytes z)%N; discriminate.
Qed.

(* the int257 minimum has a 33-byte magnitude: it must be the error branch *)
Example map_min_int257 : map_int (SBig (- 2 ^ 256)) DBits256 = Err EMap.
Proof. vm_compute. reflexivity. Qed.
Example map_max_uint256 : map_int (SBig (2 ^ 256 - 1)) DBits256 = Ok tt.
Proof. vm_compute. reflexivity. Qed.
