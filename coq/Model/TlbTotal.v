(** C08, TL-B side: the reflection walker of tlb/decoder.go (the [dec] of
    Model/TlbCore.v) extended with what only matters on hostile input:
      - the cell type of every cell (ordinary / pruned branch / library / ...):
        a library cell cannot be decoded without a resolver (error), a pruned
        branch in a "^" / Ref[T] / "maybe^" position is skipped and leaves the
        zero value, in an EitherRef position its bits are read like data;
      - a step counter (one step per decode call).
    Values are not built: the observable is the outcome class and what is left
    unread of the cell.  On ordinary trees the walker is [dec] (Proofs/TlbTotalP.v). *)
From Coq Require Import List NArith ZArith Arith Bool.
From Tongo Require Import Lib.Bits Lib.Res Model.TlbCore.
Import ListNotations.

Inductive xtree := XT (kind : N) (b : bits) (r : list xtree).
Definition K_ORD : N := 0.
Definition K_PRUNED : N := 1.
Definition K_LIBRARY : N := 2.

Record xs := mkxs { xb : bits; xr : list xtree }.

Definition xtake_bits (n : nat) (s : xs) : res (bits * xs) :=
  if short n (xb s) then Err ENotEnoughBits
  else Ok (firstn n (xb s), mkxs (skipn n (xb s)) (xr s)).
Definition xtake_ref (s : xs) : res (xtree * xs) :=
  match xr s with
  | [] => Err ENotEnoughRefs
  | c :: t => Ok (c, mkxs (xb s) t)
  end.

(* starting to decode cell [c]: decode() begins with c.IsLibrary() (no
   resolver: error); [chk] = the position checks for a pruned branch *)
Definition enter (c : xtree) (chk : bool) : res (option xs) :=
  match c with
  | XT k b r =>
      if N.eqb k K_LIBRARY then Err ETlb
      else if chk && N.eqb k K_PRUNED then Ok None
      else Ok (Some (mkxs b r))
  end.

Fixpoint xunary (k : nat) (l : bits) : res bits :=
  match k with
  | O => Err ENotEnoughBits
  | S k' => match l with
            | [] => Err ENotEnoughBits
            | true :: t => xunary k' t
            | false :: t => Ok t
            end
  end.

Section Walk.
Variable env : list ty.

(* result: what is left of the current cell, steps *)
Fixpoint xdec (fuel : nat) (t : ty) (s : xs) (n : N) {struct fuel} : res (xs * N) :=
  let n := N.succ n in
  match fuel with
  | O => Err EFuel
  | S f =>
      match t with
      | TUint w | TBigUint w | TBigInt w | TBits w => do x <- xtake_bits w s; Ok (snd x, n)
      | TInt w => if (w =? 0)%nat then Err EZeroSize else do x <- xtake_bits w s; Ok (snd x, n)
      | TBool => do x <- xtake_bits 1 s; Ok (snd x, n)
      | TVarUInt k =>
          let w := N.to_nat (N.size (N.of_nat (k - 1))) in
          do x <- xtake_bits w s;
          do y <- xtake_bits (8 * N.to_nat (N_of_bits (fst x))) (snd x);
          Ok (snd y, n)
      | TUnary => do r <- xunary (S (length (xb s))) (xb s); Ok (mkxs r (xr s), n)
      | TMagic len val =>
          if short len (xb s) then
            if N.eqb val 0 then Ok (s, n) else Err ETlb
          else
            do x <- xtake_bits len s;
            if N.eqb (N_of_bits (fst x)) val then Ok (snd x, n) else Err ETlb
      | TMaybe t' =>
          do x <- xtake_bits 1 s;
          if nth 0 (fst x) false then xdec f t' (snd x) n else Ok (snd x, n)
      | TEither l r =>
          do x <- xtake_bits 1 s;
          if nth 0 (fst x) false then xdec f r (snd x) n else xdec f l (snd x) n
      | TEitherRef t' =>
          do x <- xtake_bits 1 s;
          if nth 0 (fst x) false then
            do cr <- xtake_ref (snd x);
            do e <- enter (fst cr) false;
            match e with
            | Some s2 => do y <- xdec f t' s2 n; Ok (snd cr, snd y)
            | None => Ok (snd cr, n)
            end
          else xdec f t' (snd x) n
      | TRef t' =>
          do cr <- xtake_ref s;
          do e <- enter (fst cr) true;
          match e with
          | Some s2 => do y <- xdec f t' s2 n; Ok (snd cr, snd y)
          | None => Ok (snd cr, n)
          end
      | TMaybeRef t' =>
          do x <- xtake_bits 1 s;
          if nth 0 (fst x) false then
            do cr <- xtake_ref (snd x);
            do e <- enter (fst cr) true;
            match e with
            | Some s2 => do y <- xdec f t' s2 n; Ok (snd cr, snd y)
            | None => Ok (snd cr, n)
            end
          else Ok (snd x, n)
      | TStruct fs =>
          (fix go (fs : list ty) (s : xs) (n : N) : res (xs * N) :=
             match fs with
             | [] => Ok (s, n)
             | t1 :: ft => do y <- xdec f t1 s n; go ft (fst y) (snd y)
             end) fs s n
      | TSum alts =>
          (fix go (alts : list (nat * N * ty)) : res (xs * N) :=
             match alts with
             | [] => Err ETlb
             | (len, val, t') :: rest =>
                 if short len (xb s) then go rest
                 else if N.eqb (N_of_bits (firstn len (xb s))) val then
                   xdec f t' (mkxs (skipn len (xb s)) (xr s)) n
                 else go rest
             end) alts
      | TAny => Ok (mkxs [] [], n)
      | TCellRef => do cr <- xtake_ref s; Ok (snd cr, n)
      | TAddr => do x <- addr_parse (xb s); Ok (mkxs (snd x) (xr s), n)
      | TNamed i => match nth_error env i with Some t' => xdec f t' s n | None => Err ETlb end
      end
  end.

(* tlb.Unmarshal(c, &x) *)
Definition xunmarshal (fuel : nat) (t : ty) (c : xtree) : res (xs * N) :=
  do e <- enter c false;
  match e with
  | Some s => xdec fuel t s 0
  | None => Err ETlb
  end.

(* static size of a descriptor unrolled to depth [fuel]: the step bound *)
Fixpoint usize (fuel : nat) (t : ty) : N :=
  match fuel with
  | O => 1
  | S f =>
      (1 + match t with
           | TMaybe t' | TEitherRef t' | TRef t' | TMaybeRef t' => usize f t'
           | TEither l r => usize f l + usize f r
           | TStruct fs => fold_right (fun t1 a => usize f t1 + a) 0 fs
           | TSum alts => fold_right (fun a1 a => usize f (snd a1) + a) 0 alts
           | TNamed i => match nth_error env i with Some t' => usize f t' | None => 0 end
           | _ => 0
           end)%N
  end.
End Walk.

(* an ordinary tree, and the embedding of the cell trees of Model/TlbCore.v *)
Fixpoint embed (c : ctree) : xtree :=
  match c with CT b r => XT K_ORD b (map embed r) end.
Definition embed_slc (s : slc) : xs := mkxs (sb s) (map embed (sr s)).
