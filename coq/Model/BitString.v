(** Model of boc/bitString.go.

    The byte buffer is represented by its bits ([buf], length = 8 * number of
    bytes); a big-endian load of k bytes at byte offset c is [N_of_bits] of the
    8k bits starting at bit 8c.  Everything else (range checks, cursor
    arithmetic, the three ReadUint paths with their shift/mask computation, the
    16-bit load of ReadByte, aligned fast paths of ReadBytes/ReadBits, the
    wrapped int64 arithmetic of WriteInt, WriteUnary's split at 63, the
    de Bruijn minBitsRequired) follows the Go code statement by statement.
    Every operation returns the new state together with the outcome, because
    the Go methods mutate the receiver even when they return an error. *)
From Coq Require Import List NArith ZArith Arith Lia Bool.
From Tongo Require Import Lib.Bits Lib.Res.
Import ListNotations.

Record bs := mkbs { buf : bits; cap : nat; len : nat; rcur : nat }.

Definition nbytes (n : nat) : nat := (n + 7) / 8.

(* NewBitString *)
Definition new_bs (n : nat) : bs := mkbs (zeros (8 * nbytes n)) n 0 0.

Definition avail_read (s : bs) : nat := len s - rcur s.
Definition avail_write (s : bs) : nat := cap s - len s.

(* On / Off + len++  (WriteBit).  checkRange: n >= cap -> overflow.
   Indexing buf[n/8] beyond the buffer panics. *)
Definition write_bit (v : bool) (s : bs) : bs * res unit :=
  if cap s <=? len s then (s, Err EOverflow)
  else match set_nth_opt (len s) v (buf s) with
       | None => (s, Panic PIndex)
       | Some b' => (mkbs b' (cap s) (S (len s)) (rcur s), Ok tt)
       end.

Fixpoint write_bits (l : bits) (s : bs) : bs * res unit :=
  match l with
  | [] => (s, Ok tt)
  | b :: t =>
      match write_bit b s with
      | (s', Ok _) => write_bits t s'
      | r => r
      end
  end.

(* WriteUint(val uint64, bitLen): bit i of val for i = bitLen-1 .. 0; Go shifts
   by >= 64 give 0, as does bits_of on val < 2^64 *)
Definition write_uint (v : N) (w : nat) (s : bs) : bs * res unit :=
  write_bits (bits_of w v) s.

Definition two64 : N := 18446744073709551616%N.
Definition two63 : Z := 9223372036854775808%Z.

(* uint64(x) for a Go int64 value x given as Z *)
Definition u64_of_Z (z : Z) : N := Z.to_N (z mod (Z.of_N two64)).

(* WriteInt(val int64, bitLen) for bitLen >= 1 (bitLen = 0 shifts by -1: panic
   when val < 0, otherwise writes one 0 bit) *)
Definition write_int (v : Z) (w : nat) (s : bs) : bs * res unit :=
  match w with
  | 1%nat =>
      if (v =? -1)%Z then write_bit true s
      else if (v =? 0)%Z then write_bit false s
      else (s, Ok tt)
  | O =>
      if (v <? 0)%Z then
        match write_bit true s with
        | (s', Ok _) => (s', Panic PShift)
        | r => r
        end
      else write_bit false s
  | S w' =>
      if (v <? 0)%Z then
        match write_bit true s with
        | (s', Ok _) =>
            (* uint64(1<<(bitLen-1) + val) in wrapped int64; 1<<k = 0 for k >= 64 *)
            let p := if (w' <? 64)%nat then (2 ^ Z.of_nat w')%Z else 0%Z in
            write_uint (u64_of_Z (p + v)) w' s'
        | r => r
        end
      else
        match write_bit false s with
        | (s', Ok _) => write_uint (u64_of_Z v) w' s'
        | r => r
        end
  end.

(* WriteBigUint(val >= 0, bitLen) *)
Definition write_big_uint (v : N) (w : nat) (s : bs) : bs * res unit :=
  if (w =? 0)%nat || (N.of_nat w <? N.size v)%N then (s, Err ETooSmall)
  else write_bits (bits_of w v) s.

(* WriteBigInt(val, bitLen); val.Int64() is the low 64 bits as int64 *)
Definition int64_low (z : Z) : Z :=
  let m := (Z.abs z mod Z.of_N two64)%Z in
  let m' := if (m <? two63)%Z then m else (m - Z.of_N two64)%Z in
  if (z <? 0)%Z then
    (* Go: Int64 of a negative big.Int is -(low 64 bits of |x|) wrapped *)
    let n := (- m)%Z in
    let r := (n mod Z.of_N two64)%Z in
    if (r <? two63)%Z then r else (r - Z.of_N two64)%Z
  else m'.

Definition write_big_int (v : Z) (w : nat) (s : bs) : bs * res unit :=
  if (w =? 1)%nat then
    if (int64_low v =? -1)%Z then write_bit true s
    else if (int64_low v =? 0)%Z then write_bit false s
    else (s, Err ETooSmall)
  else if (v <? 0)%Z then
    match write_bit true s with
    | (s', Ok _) =>
        let nb := (2 ^ Z.of_nat (w - 1) + v)%Z in
        (* nb may be negative when |v| > 2^(w-1): big.Int.Bit on a negative
           number is two's complement; BitLen is of |nb| *)
        if (nb <? 0)%Z then
          if (w - 1 =? 0)%nat || (N.of_nat (w - 1) <? N.size (Z.to_N (- nb)))%N
          then (s', Err ETooSmall)
          else write_bits (bits_of (w - 1) (Z.to_N (nb mod 2 ^ Z.of_nat (w - 1)))) s'
        else write_big_uint (Z.to_N nb) (w - 1) s'
    | r => r
    end
  else
    match write_bit false s with
    | (s', Ok _) => write_big_uint (Z.to_N v) (w - 1) s'
    | r => r
    end.

Fixpoint bytes_bits (l : list N) : bits :=
  match l with [] => [] | b :: t => bits_of 8 b ++ bytes_bits t end.

Definition write_bytes (l : list N) (s : bs) : bs * res unit :=
  write_bits (bytes_bits l) s.

(* WriteBitString: the first len bits of the argument *)
Definition write_bitstring (a : bs) (s : bs) : bs * res unit :=
  if short (len a) (buf a) then (s, Panic PIndex)   (* unreachable under Inv *)
  else write_bits (firstn (len a) (buf a)) s.

(* WriteUnary(n) *)
Definition write_unary (n : nat) (s : bs) : bs * res unit :=
  let first :=
    if (n <? 63)%nat then write_uint (2 ^ N.of_nat n - 1) n s
    else write_bits (ones n) s in
  match first with
  | (s', Ok _) => write_bit false s'
  | r => r
  end.

(** *** minBitsRequired with the de Bruijn table (the table is data translated
    from the source into Generated/Consts.v; here it is a parameter) *)
Definition smear (v : N) : N :=
  let v := N.lor v (N.shiftr v 1) in
  let v := N.lor v (N.shiftr v 2) in
  let v := N.lor v (N.shiftr v 4) in
  let v := N.lor v (N.shiftr v 8) in
  let v := N.lor v (N.shiftr v 16) in
  N.lor v (N.shiftr v 32).

Definition debruijn : N := 571347909858961602%N.   (* 0x07EDD5E59A4E28C2 *)

Definition min_bits_required (tab : list nat) (v : N) : nat :=
  if (v =? 0)%N then 0%nat
  else
    let s := smear v in
    let x := (s - N.shiftr s 1)%N in
    let idx := N.shiftr ((x * debruijn) mod two64) 58 in
    S (nth (N.to_nat idx) tab 0%nat).

Definition write_lim_uint (tab : list nat) (v n : N) (s : bs) : bs * res unit :=
  write_uint v (min_bits_required tab n) s.

(** *** reads *)
Definition get_bit (n : nat) (s : bs) : bool := nth n (buf s) false.

Definition read_bit (s : bs) : bs * res bool :=
  if avail_read s <? 1 then (s, Err ENotEnoughBits)
  else if short (S (rcur s)) (buf s) then (s, Panic PIndex)
  else (mkbs (buf s) (cap s) (len s) (S (rcur s)), Ok (get_bit (rcur s) s)).

Definition skip (n : nat) (s : bs) : bs * res unit :=
  if avail_read s <? n then (s, Err ENotEnoughBits)
  else (mkbs (buf s) (cap s) (len s) (rcur s + n), Ok tt).

(* copy(b[:k], buf[c:]) ; BigEndian load of k bytes: missing bytes are zero *)
Definition load_be (k c : nat) (s : bs) : N :=
  N_of_bits (firstn (8 * k) (skipn (8 * c) (buf s) ++ zeros (8 * k))).

Definition set_rcur (s : bs) (r : nat) : bs := mkbs (buf s) (cap s) (len s) r.

Definition read_uint (w : nat) (s : bs) : bs * res N :=
  if (64 <? w)%nat then (s, Err ETooManyBits)
  else if avail_read s <? w then (s, Err ENotEnoughBits)
  else if (rcur s mod 8 =? 0)%nat && (w mod 8 =? 0)%nat then
    (* aligned: copy(buf8[8-l:], s.buf[c:c+l]) *)
    let l := w / 8 in let c := rcur s / 8 in
    if short (8 * (c + l)) (buf s) then (s, Panic PSlice)
    else (set_rcur s (rcur s + w),
          Ok (N_of_bits (zeros (8 * (8 - l)) ++ firstn (8 * l) (skipn (8 * c) (buf s)))))
  else if (w <? 57)%nat then
    if short (8 * (rcur s / 8)) (buf s) then (s, Panic PSlice)
    else
      let u64 := load_be 8 (rcur s / 8) s in
      let sh := (64 - w - rcur s mod 8)%nat in
      (set_rcur s (rcur s + w),
       Ok (N.land (N.shiftr u64 (N.of_nat sh)) (2 ^ N.of_nat w - 1)))
  else
    (* bit loop: mustReadBit w times *)
    if short (rcur s + w) (buf s) then (s, Panic PIndex)
    else (set_rcur s (rcur s + w), Ok (N_of_bits (firstn w (skipn (rcur s) (buf s))))).

Definition pick_uint (w : nat) (s : bs) : bs * res N :=
  match read_uint w s with
  | (s', Ok v) => (set_rcur s' (rcur s' - w), Ok v)
  | (s', r) => (s', r)
  end.

(* int64(x) for x : uint64 *)
Definition i64_of_N (n : N) : Z :=
  let m := (Z.of_N n mod Z.of_N two64)%Z in
  if (m <? two63)%Z then m else (m - Z.of_N two64)%Z.

Definition read_int (w : nat) (s : bs) : bs * res Z :=
  if (64 <? w)%nat then (s, Err ETooManyBits)
  else if (w =? 0)%nat then (s, Err EZeroSize)
  else if avail_read s <? w then (s, Err ENotEnoughBits)
  else if short (S (rcur s)) (buf s) then (s, Panic PIndex)
  else
    let sign := get_bit (rcur s) s in
    let s1 := set_rcur s (S (rcur s)) in
    if (w =? 1)%nat then (s1, Ok (if sign then (-1)%Z else 0%Z))
    else
      match read_uint (w - 1) s1 with
      | (s2, Ok base) =>
          if sign then
            (* int64(base - 1<<(bitLen-1)) in uint64 arithmetic *)
            (s2, Ok (i64_of_N ((base + two64 - 2 ^ N.of_nat (w - 1)) mod two64)))
          else (s2, Ok (i64_of_N base))
      | (s2, Err e) => (s2, Err e)
      | (s2, Panic p) => (s2, Panic p)
      end.

Definition read_byte (s : bs) : bs * res N :=
  if avail_read s <? 8 then (s, Err ENotEnoughBits)
  else
    let c := rcur s / 8 in
    if (rcur s mod 8 =? 0)%nat then
      if short (8 * (c + 1)) (buf s) then (s, Panic PIndex)
      else (set_rcur s (rcur s + 8), Ok (N_of_bits (firstn 8 (skipn (8 * c) (buf s)))))
    else
      if short (8 * (c + 2)) (buf s) then (s, Panic PSlice)
      else
        let u16 := N_of_bits (firstn 16 (skipn (8 * c) (buf s))) in
        let sh := N.shiftr u16 (N.of_nat (8 - rcur s mod 8)) in
        (set_rcur s (rcur s + 8), Ok (sh mod 256)%N).

Fixpoint read_byte_loop (n : nat) (s : bs) (acc : list N) : bs * res (list N) :=
  match n with
  | O => (s, Ok (rev acc))
  | S n' =>
      match read_byte s with
      | (s', Ok b) => read_byte_loop n' s' (b :: acc)
      | (s', Err e) => (s', Err e)
      | (s', Panic p) => (s', Panic p)
      end
  end.

Fixpoint bytes_of_bits (n : nat) (l : bits) : list N :=
  match n with
  | O => []
  | S n' => N_of_bits (firstn 8 l) :: bytes_of_bits n' (skipn 8 l)
  end.

Definition read_bytes (n : nat) (s : bs) : bs * res (list N) :=
  if avail_read s <? n * 8 then (s, Err ENotEnoughBits)
  else if (rcur s mod 8 =? 0)%nat then
    if short (8 * (rcur s / 8 + n)) (buf s) then (s, Panic PSlice)
    else (set_rcur s (rcur s + n * 8), Ok (bytes_of_bits n (skipn (8 * (rcur s / 8)) (buf s))))
  else read_byte_loop n s [].

Definition read_big_uint (w : nat) (s : bs) : bs * res N :=
  if avail_read s <? w then (s, Err ENotEnoughBits)
  else if (w =? 0)%nat then (s, Ok 0%N)
  else
    let k := (w mod 8)%nat in
    let first := if (k =? 0)%nat then (s, Ok 0%N) else read_uint k s in
    match first with
    | (s1, Ok hi) =>
        match read_bytes (w / 8) s1 with
        | (s2, Ok bytes) =>
            (s2, Ok (hi * 2 ^ N.of_nat (8 * (w / 8)) + N_of_bits (bytes_bits bytes))%N)
        | (s2, Err e) => (s2, Err e)
        | (s2, Panic p) => (s2, Panic p)
        end
    | (s1, Err e) => (s1, Err e)
    | (s1, Panic p) => (s1, Panic p)
    end.

Definition read_big_int (w : nat) (s : bs) : bs * res Z :=
  if avail_read s <? w then (s, Err ENotEnoughBits)
  else if (w =? 0)%nat then (s, Ok 0%Z)
  else if short (S (rcur s)) (buf s) then (s, Panic PIndex)
  else
    let sign := get_bit (rcur s) s in
    let s1 := set_rcur s (S (rcur s)) in
    if (w =? 1)%nat then (s1, Ok (if sign then (-1)%Z else 0%Z))
    else
      match read_big_uint (w - 1) s1 with
      | (s2, Ok base) =>
          (s2, Ok (if sign then (Z.of_N base - 2 ^ Z.of_nat (w - 1))%Z else Z.of_N base))
      | (s2, Err e) => (s2, Err e)
      | (s2, Panic p) => (s2, Panic p)
      end.

(* ReadBits(n): returns the n bits as an ideal list (the Go result is a fresh
   BitString whose first n bits are these) *)
Definition read_bits (n : nat) (s : bs) : bs * res bits :=
  if avail_read s <? n then (s, Err ENotEnoughBits)
  else if (rcur s mod 8 =? 0)%nat then
    if short (8 * (rcur s / 8 + nbytes n)) (buf s) then (s, Panic PSlice)
    else (set_rcur s (rcur s + n), Ok (firstn n (skipn (8 * (rcur s / 8)) (buf s))))
  else
    if short (rcur s + n) (buf s) then (s, Panic PIndex)
    else (set_rcur s (rcur s + n), Ok (firstn n (skipn (rcur s) (buf s)))).

Fixpoint read_unary_loop (fuel : nat) (s : bs) (acc : nat) : bs * res nat :=
  match fuel with
  | O => (s, Err EFuel)
  | S f =>
      match read_bit s with
      | (s', Ok true) => read_unary_loop f s' (S acc)
      | (s', Ok false) => (s', Ok acc)
      | (s', Err e) => (s', Err e)
      | (s', Panic p) => (s', Panic p)
      end
  end.

(* fuel len+1 suffices: each iteration consumes one bit *)
Definition read_unary (s : bs) : bs * res nat := read_unary_loop (S (avail_read s)) s 0.

Definition read_lim_uint (tab : list nat) (n : N) (s : bs) : bs * res N :=
  read_uint (min_bits_required tab n) s.

Definition reset_counter (s : bs) : bs := set_rcur s 0.

(** *** abstraction to the ideal bit list *)
Definition abs (s : bs) : bits := firstn (len s) (buf s).
Definition Inv (s : bs) : Prop :=
  (len s <= cap s)%nat /\ (cap s <= length (buf s))%nat /\ (rcur s <= len s)%nat /\
  (length (buf s) mod 8 = 0)%nat.   (* the buffer is a whole number of bytes *)

(** *** Fift hex text form, over lists of hex-digit values 0..15 plus a flag
    for the trailing underscore (the character mapping is checked by the
    correspondence harness; suffixToBits is translated data) *)
Definition nibble (l : bits) : N := N_of_bits l.

Fixpoint nibbles (fuel : nat) (l : bits) : list N :=
  match fuel with
  | O => []
  | S f =>
      match l with
      | [] => []
      | _ => nibble (firstn 4 l) :: nibbles f (skipn 4 l)
      end
  end.

(* ToFiftHex: (digits, has_underscore) *)
Definition to_fift (l : bits) : list N * bool :=
  if (length l mod 4 =? 0)%nat then (nibbles (length l) l, false)
  else
    let pad := (4 - length l mod 4 - 1)%nat in
    (nibbles (S (length l)) (l ++ true :: zeros pad), true).

(* the completion-tag nibble decodes to the bits before the final 1 *)
Definition strip_tag (d : N) : option bits :=
  let b := bits_of 4 d in
  match b with
  | [x; y; z; true] => Some [x; y; z]
  | [x; y; true; false] => Some [x; y]
  | [x; true; false; false] => Some [x]
  | _ => None     (* 8_ and 0_ are not in suffixToBits *)
  end.

Fixpoint concat_nibbles (ds : list N) : bits :=
  match ds with [] => [] | d :: t => bits_of 4 d ++ concat_nibbles t end.

Definition from_fift (ds : list N) (underscore : bool) : option bits :=
  if underscore then
    match rev ds with
    | [] => None
    | last :: rest =>
        match strip_tag last with
        | Some tail => Some (concat_nibbles (rev rest) ++ tail)
        | None => None
        end
    end
  else Some (concat_nibbles ds).
