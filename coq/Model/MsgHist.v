(** C16, histories: one Go variable of type tlb.Transaction / tlb.Message that is
    used as the decoding target several times, with Hash / SourceBoc calls in
    between.  The variable is the record of what UnmarshalTLB writes and when:
    Transaction.UnmarshalTLB installs the SourceBoc closure first, the hash after
    hashing succeeded, the fields in place while decoding; Message.UnmarshalTLB
    writes the hash after hashing and the three fields only at the very end.
    [S] is whatever identifies the captured source cell (the cell itself in the
    theorems, an index into the case's sources in the harness).  Returned byte
    slices are values here: that the Go slices are independent copies is checked
    by the harness oracle only. *)
From Coq Require Import List NArith Bool.
From Tongo Require Import Lib.Bits Lib.Res Model.BocParse Model.CellHash Spec.ReprHash Proofs.CellHashP
  Model.MsgHash.
Import ListNotations.

Section Hist.
Variable S : Type.

(** *** tlb.Transaction *)
Record tvar := mktv {
  tv_hash : bytes;           (* tx.hash *)
  tv_src : option S;         (* cell captured by tx.lazySourceBoc; None: nil closure *)
  tv_val : option tx         (* the exported fields, when they are those of one successful decode *)
}.
Definition tvar_zero : tvar := mktv zero_hash None None.

(* decoder.Unmarshal(c, &tx) given: is c a library cell, the hasher's answer,
   the outcome of the decode *)
Definition tx_assign_res (lib : bool) (hr : res bytes) (dr : res tx) (s : S) (v : tvar) : tvar * bool :=
  if lib then (v, false) else
  match hr with
  | Ok h =>
      match dr with
      | Ok t => (mktv (tx_hash t) (Some s) (Some t), true)
      | _ => (mktv h (Some s) None, false)
      end
  | _ => (mktv (tv_hash v) (Some s) (tv_val v), false)
  end.

Definition tx_assign (o : oracle) (hr : res bytes) (hf : cell -> res bytes) (c : cell) (s : S) (v : tvar)
  : tvar * bool :=
  tx_assign_res (is_library_cell c) hr (decode_tx_gen o hr hf c) s v.

(* tx.Hash(), the cell tx.SourceBoc() serialises *)
Definition tx_obs_hash (v : tvar) : bytes := tv_hash v.
Definition tx_obs_source (v : tvar) : option S := tv_src v.

(** *** tlb.Message *)
Record mvar := mkmv {
  mv_hash : bytes;
  mv_val : option msg        (* Info/Init/Body of the last successful decode, with m_hash = mv_hash *)
}.
Definition mvar_zero : mvar := mkmv zero_hash None.

Definition set_hash (h : bytes) (m : msg) : msg :=
  mkmsg (m_info m) (m_init m) (m_body_ref m) (m_body m) h.

Definition msg_assign_res (lib : bool) (hr : res bytes)
           (pr : res (info * option (bool * state_init) * bool * (bits * list cell))) (v : mvar)
  : mvar * bool :=
  if lib then (v, false) else
  match hr with
  | Ok h =>
      match pr with
      | Ok (i, ini, isref, body) => (mkmv h (Some (mkmsg i ini isref body h)), true)
      | _ => (mkmv h (option_map (set_hash h) (mv_val v)), false)      (* hash replaced, fields kept *)
      end
  | _ => (v, false)
  end.

Definition msg_assign (o : oracle) (hr : res bytes) (c : cell) (v : mvar) : mvar * bool :=
  msg_assign_res (is_library_cell c) hr (parse_message o (open c)) v.

Variable H : bytes -> bytes.
(* m.Hash(normalize); the zero Message has SumType "" and returns its hash *)
Definition msg_obs_hash (normalize : bool) (v : mvar) : res bytes :=
  match mv_val v with
  | Some m => msg_hash H normalize m
  | None => Ok (mv_hash v)
  end.

(* the receiver after m.Hash(normalize) *)
Definition msg_after_hash (normalize : bool) (v : mvar) : mvar :=
  mkmv (mv_hash v) (option_map (after_hash normalize) (mv_val v)).

(* a sequence of m.Hash(n) calls on one Message value, each call atomic: the
   answers, threading the receiver through [after_hash].  Every interleaving of
   the calls of several goroutines is such a sequence. *)
Fixpoint run_hash_calls (calls : list bool) (m : msg) : list (res bytes) :=
  match calls with
  | [] => []
  | n :: t => msg_hash H n m :: run_hash_calls t (after_hash n m)
  end.

End Hist.
Arguments mktv {S}. Arguments tv_hash {S}. Arguments tv_src {S}. Arguments tv_val {S}.
Arguments tvar_zero {S}. Arguments tx_assign_res {S}. Arguments tx_assign {S}.
Arguments tx_obs_hash {S}. Arguments tx_obs_source {S}.
