(** Model of tlb/hashmap.go (Hashmap / HashmapE; HashmapAug* is decode-only and
    not modelled), transcribed function by function.

    Level of abstraction.  Bit strings and cells are the ideal objects that
    C06 proves boc.BitString refines: a BitString being read is the list of its
    unread bits, a cell being written is the list of bits written so far, and a
    write that would exceed 1023 bits / 4 references makes the whole Marshal
    return an error ([mk_cell]).  [#<= m] fields use [N.size m] bits (C06:
    minBitsRequired = N.size; the 64-bit limit of ReadUint cannot be reached
    because m is a Go int).  Errors are compared by class only, so the order in
    which two failing steps are tried is irrelevant.  Pruned-branch cells
    (mapInner returns nil on them) do not exist at this level: all cells are
    ordinary.

    Keys are handled the way the Go code handles them: MarshalTLB first turns
    every key into its BitString, sorts the pairs by key bits, and everything
    after that is bit-level.  The key types' [Equal]/[Compare] are parameters
    of [put]/[get]; the instances for UintN / BitsN ([bits_ltb]), IntN
    ([signed_ltb]) and AddressWithWorkchain ([addr_ltb]) are given below.

    The value codec is a parameter: [venc v] is the bits and the references
    that Marshal(c, value) appends to the leaf cell after the label, [vdec] is
    Unmarshal(c, &value) on the unread bits and the references of the leaf cell
    (what it leaves unread is ignored by mapInner, so only the value is
    returned). *)
From Coq Require Import List NArith ZArith Arith Lia Bool.
From Tongo Require Import Lib.Bits Lib.Res Spec.Dict.
Import ListNotations.

(** ** encodeLabel *)

(* the loop computing the common prefix of the first and the last key:
     bitLeft := first.ReadBit()
     for first.BitsAvailableForRead() > 0 {
         bitRight := last.ReadBit(); if bitLeft != bitRight {break}
         label.WriteBit(bitLeft); bitLeft = first.ReadBit() }
   note that the last bit of [first] is never compared *)
Fixpoint lcp_go (a b : bits) : res bits :=
  match a with
  | [] => Err ENotEnoughBits
  | x :: a' =>
      match a' with
      | [] => Ok []
      | _ :: _ =>
          match b with
          | [] => Err ENotEnoughBits
          | y :: b' =>
              if Bool.eqb x y then do r <- lcp_go a' b'; Ok (x :: r) else Ok []
          end
      end
  end.

(* the header + label bits written by encodeLabel: hml_short when the label is
   shorter than 8 bits, otherwise hml_long; hml_same is never produced *)
Definition enc_label_go (m : nat) (lbl : bits) : bits :=
  if (length lbl <? 8)%nat
  then false :: (ones (length lbl) ++ [false]) ++ lbl          (* WriteBit(0); WriteUnary; WriteBitString *)
  else true :: false :: bits_of (lim_width m) (N.of_nat (length lbl)) ++ lbl.

(** ** the sort in Hashmap.MarshalTLB
    slices.SortStableFunc(order, bytes.Compare(keys[a].Buffer(), keys[b].Buffer())):
    every key of one dictionary has FixedSize() bits and the unwritten bits of
    a fresh cell buffer are 0, so bytes.Compare is the lexicographic bit order
    [bits_cmp]; the sort is stable (an element is inserted in front of the
    first element that is not smaller, and earlier elements are inserted last). *)
Fixpoint binsert {V} (x : bits * V) (l : list (bits * V)) : list (bits * V) :=
  match l with
  | [] => [x]
  | y :: t => if bits_ltb (fst y) (fst x) then y :: binsert x t else x :: l
  end.

Fixpoint bsort {V} (l : list (bits * V)) : list (bits * V) :=
  match l with
  | [] => []
  | x :: t => binsert x (bsort t)
  end.

Section Codec.
Variable V : Type.
Variable venc : V -> bits * list cell.
Variable vdec : bits -> list cell -> option V.

(** ** encodeMap *)

(* the loop over keys[i]: ReadBits(len label); ReadBit; ReadRemainingBits *)
Fixpoint split_keys (sk : nat) (kvs : list (bits * V))
  : res (list (bits * V) * list (bits * V)) :=
  match kvs with
  | [] => Ok ([], [])
  | (k, v) :: t =>
      if short sk k then Err ENotEnoughBits
      else
        match skipn sk k with
        | [] => Err ENotEnoughBits
        | b :: k' =>
            do lr <- split_keys sk t;
            Ok (if b then (fst lr, (k', v) :: snd lr) else ((k', v) :: fst lr, snd lr))
        end
  end.

(* [fuel] bounds the recursion depth; more than [length kvs] is always enough
   because both halves of a split must be non-empty *)
Fixpoint encode_map (fuel : nat) (n : nat) (kvs : list (bits * V)) : res cell :=
  match fuel with
  | O => Err EFuel
  | S fuel' =>
      match kvs with
      | [] => Err EOther                                 (* "keys or values are empty" *)
      | [(k, v)] =>
          (* keyFirst == keyLast (same pointer): label = whole key; then the value *)
          mk_cell (enc_label_go n k ++ fst (venc v)) (snd (venc v))
      | (k0, v0) :: _ :: _ =>
          do lbl <- lcp_go k0 (fst (last kvs (k0, v0)));
          let n' := (n - length lbl - 1)%nat in
          do lr <- split_keys (length lbl) kvs;
          do lc <- encode_map fuel' n' (fst lr);
          do rc <- encode_map fuel' n' (snd lr);
          mk_cell (enc_label_go n lbl) [lc; rc]
      end
  end.

(* Hashmap.MarshalTLB into a fresh cell: nothing for an empty map; otherwise the
   (key bits, value) pairs are first put into ascending bit order (stable sort
   of an index permutation, bytes.Compare on the key buffers) and then handed
   to encodeMap, so the slice order never reaches the encoder *)
Definition encode (n : nat) (kvs : list (bits * V)) : res cell :=
  match kvs with
  | [] => Ok (Cell [] [])
  | _ => encode_map (S (length kvs)) n (bsort kvs)
  end.

(* HashmapE.MarshalTLB = Maybe ^Hashmap into a fresh cell *)
Definition encode_e (n : nat) (kvs : list (bits * V)) : res cell :=
  match kvs with
  | [] => mk_cell [false] []
  | _ => do c <- encode n kvs; mk_cell [true] [c]
  end.

(** ** loadLabel / loadLabelSize *)

Fixpoint read_unary (l : bits) : res (nat * bits) :=
  match l with
  | [] => Err ENotEnoughBits
  | false :: t => Ok (O, t)
  | true :: t => do r <- read_unary t; Ok (S (fst r), snd r)
  end.

(* ReadLimUint(m) *)
Definition read_lim (m : nat) (l : bits) : res (N * bits) :=
  let w := lim_width m in
  if short w l then Err ENotEnoughBits else Ok (N_of_bits (firstn w l), skipn w l).

(* loadLabel(size = m, c, key): [room] is key.BitsAvailableForWrite() (writing
   a label bit into a full key prefix fails).  Returns the label bits that were
   appended to the key and the unread rest of the cell. *)
Definition load_label (m room : nat) (c : bits) : res (bits * bits) :=
  match c with
  | [] => Err ENotEnoughBits
  | false :: c1 =>                                        (* hml_short$0 *)
      do r <- read_unary c1;
      let '(ln, c2) := r in
      if short ln c2 then Err ENotEnoughBits
      else if (room <? ln)%nat then Err EOverflow
      else Ok (firstn ln c2, skipn ln c2)
  | true :: [] => Err ENotEnoughBits
  | true :: false :: c2 =>                                (* hml_long$10 *)
      do r <- read_lim m c2;
      let '(lnN, c3) := r in
      if (N.of_nat room <? lnN)%N then Err EOverflow      (* also covers too few bits *)
      else
        let ln := N.to_nat lnN in
        if short ln c3 then Err ENotEnoughBits
        else Ok (firstn ln c3, skipn ln c3)
  | true :: true :: [] => Err ENotEnoughBits
  | true :: true :: b :: c3 =>                            (* hml_same$11 *)
      do r <- read_lim m c3;
      let '(lnN, c4) := r in
      if (N.of_nat room <? lnN)%N then Err EOverflow
      else Ok (repeat b (N.to_nat lnN), c4)
  end.

(* loadLabelSize(size = m, c): only the length *)
Definition load_label_size (m : nat) (c : bits) : res (N * bits) :=
  match c with
  | [] => Err ENotEnoughBits
  | false :: c1 => do r <- read_unary c1; Ok (N.of_nat (fst r), snd r)
  | true :: [] => Err ENotEnoughBits
  | true :: false :: c2 => read_lim m c2
  | true :: true :: [] => Err ENotEnoughBits
  | true :: true :: _ :: c3 => read_lim m c3
  end.

(** ** mapInner *)
Definition vdec_res (l : bits) (rs : list cell) : res V :=
  match vdec l rs with Some v => Ok v | None => Err EOther end.

Fixpoint map_inner (n left : nat) (c : cell) (prefix : bits) : res (list (bits * V)) :=
  match c with
  | Cell cb refs =>
      do lr <- load_label left (n - length prefix) cb;
      let '(lbl, rest) := lr in
      let prefix' := prefix ++ lbl in
      let left' := (left - (1 + length lbl))%nat in
      if (length prefix' <? n)%nat then
        match refs with
        | [] => Err ENotEnoughRefs
        | l :: refs' =>
            do la <- map_inner n left' l (prefix' ++ [false]);
            match refs' with
            | [] => Err ENotEnoughRefs
            | r :: _ =>
                do ra <- map_inner n left' r (prefix' ++ [true]);
                Ok (la ++ ra)
            end
        end
      else
        do v <- vdec_res rest refs;
        Ok [(firstn n prefix', v)]                        (* keyPrefix.ReadBits(keySize) *)
  end.

(* Hashmap.UnmarshalTLB *)
Definition decode (n : nat) (c : cell) : res (list (bits * V)) := map_inner n n c [].

(* HashmapE.UnmarshalTLB = Maybe ^Hashmap *)
Definition decode_e (n : nat) (c : cell) : res (list (bits * V)) :=
  match c with
  | Cell [] _ => Err ENotEnoughBits
  | Cell (false :: _) _ => Ok []
  | Cell (true :: _) [] => Err ENotEnoughRefs
  | Cell (true :: _) (r :: _) => decode n r
  end.

End Codec.

(** ** Put / Get on the parallel key and value slices *)
Section PutGet.
Variables K V : Type.
Variable keq : K -> K -> bool.      (* a.Equal(b) *)
Variable klt : K -> K -> bool.      (* a.Compare(b) < 0 *)

(* first loop of Put: overwrite the value of the first equal key *)
Fixpoint replace_val (k : K) (v : V) (m : list (K * V)) : option (list (K * V)) :=
  match m with
  | [] => None
  | (k', v') :: t =>
      if keq k' k then Some ((k', v) :: t)
      else match replace_val k v t with Some t' => Some ((k', v') :: t') | None => None end
  end.

(* second loop + slices.Insert: before the first key greater than k, else at the end *)
Fixpoint insert_at (k : K) (v : V) (m : list (K * V)) : list (K * V) :=
  match m with
  | [] => [(k, v)]
  | (k', v') :: t => if klt k k' then (k, v) :: m else (k', v') :: insert_at k v t
  end.

Definition put (k : K) (v : V) (m : list (K * V)) : list (K * V) :=
  match replace_val k v m with Some m' => m' | None => insert_at k v m end.

Fixpoint get (k : K) (m : list (K * V)) : option V :=
  match m with
  | [] => None
  | (k', v') :: t => if keq k' k then Some v' else get k t
  end.

Definition puts (l : list (K * V)) (m : list (K * V)) : list (K * V) :=
  fold_left (fun m kv => put (fst kv) (snd kv) m) l m.

End PutGet.

(** Compare of the key types, on the keys' bit representation.
    UintN: numeric = lexicographic on the N-bit big-endian numeral;
    BitsN: bytes.Compare = lexicographic; IntN: numeric on two's complement =
    lexicographic after flipping the sign bit. *)
Definition flip_first (a : bits) : bits :=
  match a with [] => [] | x :: t => negb x :: t end.
Definition signed_ltb (a b : bits) : bool := bits_ltb (flip_first a) (flip_first b).

(** ** the key codecs: value of the key type -> key bits, and Compare on values *)
Definition uint_key (w : nat) (x : N) : bits := bits_of w x.                 (* WriteUint(x, w) *)
Definition int_key (w : nat) (x : Z) : bits :=                               (* WriteInt(x, w)  *)
  bits_of w (Z.to_N (x mod 2 ^ Z.of_nat w)).
Definition bytes_key (a : list N) : bits := flat_map (bits_of 8) a.          (* WriteBytes(a)   *)

(* tlb.AddressWithWorkchain{Workchain int8; Address Bits256}:
   MarshalTLB = WriteInt(workchain, 32); WriteBytes(address[:])  (288 bits);
   Compare = uint32(workchain) first, then bytes.Compare(address) *)
Definition addr_key (k : Z * list N) : bits := int_key 32 (fst k) ++ bytes_key (snd k).

(* UnmarshalTLB: Workchain = int8(ReadInt(32)) (truncation!), Address = ReadBytes(32) *)
Fixpoint bytes_of_bits (fuel : nat) (l : bits) : list N :=
  match fuel with
  | O => []
  | S f => match l with [] => [] | _ => N_of_bits (firstn 8 l) :: bytes_of_bits f (skipn 8 l) end
  end.

Definition addr_unkey (k : bits) : Z * list N :=
  let u := (N_of_bits (firstn 32 k) mod 256)%N in
  (if (128 <=? u)%N then (Z.of_N u - 256)%Z else Z.of_N u, bytes_of_bits 32 (skipn 32 k)).

Fixpoint bytes_ltb (a b : list N) : bool :=
  match a, b with
  | [], [] => false
  | [], _ :: _ => true
  | _ :: _, [] => false
  | x :: a', y :: b' => if (x <? y)%N then true else if (y <? x)%N then false else bytes_ltb a' b'
  end.

Definition addr_ltb (x y : Z * list N) : bool :=
  let u := fun z : Z => (z mod 2 ^ 32)%Z in
  if (u (fst x) <? u (fst y))%Z then true
  else if (u (fst y) <? u (fst x))%Z then false
  else bytes_ltb (snd x) (snd y).

Arguments put {K V}. Arguments get {K V}. Arguments puts {K V}.
Arguments replace_val {K V}. Arguments insert_at {K V}.
Arguments encode_map {V}. Arguments encode {V}. Arguments encode_e {V}.
Arguments split_keys {V}. Arguments map_inner {V}. Arguments decode {V}.
Arguments decode_e {V}. Arguments vdec_res {V}.

(** a one-bit value codec, used to instantiate the theorems on concrete
    dictionaries (Examples and refutation witnesses) *)
Definition venc_bit (b : bool) : bits * list cell := ([b], []).
Definition vdec_bit (l : bits) (_ : list cell) : option bool :=
  match l with [] => None | b :: _ => Some b end.

(** tlb.Any: the value is the rest of the cell, bits and references *)
Definition venc_any (c : cell) : bits * list cell :=
  match c with Cell b rs => (b, rs) end.
Definition vdec_any (l : bits) (rs : list cell) : option cell := Some (Cell l rs).
