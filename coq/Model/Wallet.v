(** Model of the message side of package wallet (C14): wallet/wallet_v3.go,
    wallet_v4.go, wallet_v5.go, wallet_v5_beta.go, wallet_highload_v2.go
    (createSignedMsgBodyCell), wallets_common.go (signBodyCell), messages.go
    (payload codecs, decoders, VerifySignature, MessageV5VerifySignature,
    ExtractRawMessages), wallet.go (the building half of RawSendV2) and
    ton/block.go CreateExternalMessage + the encoding of that tlb.Message.

    Cells are the cell trees of Spec/ReprHash.v (any cell type); a cell built by
    the library is an ordinary cell with level mask 0 ([ocell]; boc.NewCell).
    The cell hash [chash] (Cell.Hash), Ed25519 [sign]/[verify] are parameters:
    the theorems never unfold them, the harness instantiates [chash] with the
    representation hash over the Gallina SHA-256 and the signature functions
    with oracle columns computed by Go.

    Only the highload dictionary goes through the dictionary model of C05
    (Model/Hashmap.v), whose cells are ordinary by construction: a highload
    message list or dictionary containing an exotic cell is answered with
    [Err EUnmodelled] (never produced for ordinary message cells). *)
From Coq Require Import List NArith ZArith Arith Bool.
From Tongo Require Import Lib.Bits Lib.Res Model.BocParse Model.CellHash Spec.ReprHash.
From Tongo Require Spec.Dict Model.Hashmap Model.TlbCore.
Import ListNotations.

Definition EUnmodelled : N := 77.   (* outside the modelled input class; never compared *)
Definition EWallet : N := 60.       (* an error returned by wallet code itself *)
Definition EBadSig : N := 61.       (* ErrBadSignature *)
Definition ETag : N := 62.          (* tlb: no constructor / magic matches *)

Inductive version :=
| V1R1 | V1R2 | V1R3 | V2R1 | V2R2 | V3R1 | V3R2 | V3R2Lockup | V4R1 | V4R2 | V5Beta | V5R1
| HLV1R1 | HLV1R2 | HLV2 | HLV2R1 | HLV2R2.

(** *** cells *)
Definition ocell (b : bits) (rs : list cell) : cell := Cell false 0 0 b rs.
Definition cdata (c : cell) : bits := match c with Cell _ _ _ d _ => d end.
Definition crefs (c : cell) : list cell := match c with Cell _ _ _ _ r => r end.

(* a cell written from scratch: a Write* beyond 1023 bits or an AddRef beyond 4
   references makes the whole Marshal fail *)
Definition mk (b : bits) (rs : list cell) : res cell :=
  if (1023 <? length b)%nat then Err EOverflow
  else if (4 <? length rs)%nat then Err ERefsOverflow
  else Ok (ocell b rs).

Definition take (n : nat) (l : bits) : res (bits * bits) :=
  if short n l then Err ENotEnoughBits else Ok (firstn n l, skipn n l).

Definition u8 (n : N) : bits := bits_of 8 n.
Definition u32 (n : N) : bits := bits_of 32 n.
Definition u64 (n : N) : bits := bits_of 64 n.
Definition two32 : Z := 4294967296%Z.
Definition unix32 (t : Z) : N := Z.to_N (t mod two32).     (* uint32(t.Unix()) *)
Definition bytes_to_bits (l : bytes) : bits := flat_map (bits_of 8) l.

(** conversion to / from the ordinary-only cells of the dictionary model *)
Fixpoint to_dict (c : cell) : option Dict.cell :=
  match c with
  | Cell special ty m d rs =>
      if special || negb (N.eqb ty 0) || negb (N.eqb m 0) then None else
      match (fix go (l : list cell) : option (list Dict.cell) :=
               match l with
               | [] => Some []
               | x :: t => match to_dict x, go t with
                           | Some y, Some ys => Some (y :: ys)
                           | _, _ => None
                           end
               end) rs with
      | Some rs' => Some (Dict.Cell d rs')
      | None => None
      end
  end.

Fixpoint of_dict (c : Dict.cell) : cell :=
  match c with
  | Dict.Cell b rs => ocell b ((fix go (l : list Dict.cell) : list cell :=
                                  match l with [] => [] | x :: t => of_dict x :: go t end) rs)
  end.

(** *** outgoing messages and the per-version payloads *)
Record rawmsg := mkraw { rm_msg : cell; rm_mode : N }.     (* RawMessage; Mode is a byte *)

Definition modes_bits (ms : list rawmsg) : bits := flat_map (fun m => u8 (rm_mode m)) ms.

(* PayloadV1toV4.MarshalTLB after the fields [pre] of the same cell *)
Definition payload_v1v4 (pre : bits) (ms : list rawmsg) : res cell :=
  if (4 <? length ms)%nat then Err EWallet
  else mk (pre ++ modes_bits ms) (map rm_msg ms).

Definition body_v3 (sub : N) (valid : Z) (seqno : N) (ms : list rawmsg) : res cell :=
  payload_v1v4 (u32 sub ++ u32 (unix32 valid) ++ u32 seqno) ms.
Definition body_v4 (sub : N) (valid : Z) (seqno : N) (ms : list rawmsg) : res cell :=
  payload_v1v4 (u32 sub ++ u32 (unix32 valid) ++ u32 seqno ++ zeros 8) ms.   (* Op int8 = 0 *)

(* W5Actions.MarshalTLB: the first action is the outermost cell *)
Definition action_magic : N := 0x0ec3c86d.
Fixpoint actions_cell (ms : list rawmsg) : res cell :=
  match ms with
  | [] => Ok (ocell [] [])
  | m :: t => do next <- actions_cell t;
              mk (u32 action_magic ++ u8 (rm_mode m)) [next; rm_msg m]
  end.

Definition op_signed_internal : N := 0x73696e74.
Definition op_signed_external : N := 0x7369676e.
Definition op_extension_action : N := 0x6578746e.

(* the bits and references that are signed, v5 beta: opcode, WalletV5ID
   (network id, workchain uint8, wallet version 0, sub-wallet id), valid_until,
   seqno, Op = false, ^actions *)
Definition v5beta_bits (msgtype net : N) (wc : Z) (sub : N) (valid : Z) (seqno : N) : bits :=
  u32 msgtype ++ u32 net ++ u8 (Z.to_N (wc mod 256)) ++ u8 0 ++ u32 sub ++
  u32 (unix32 valid) ++ u32 seqno ++ [false].
(* v5r1: opcode, wallet id, valid_until, seqno, Maybe ^actions = present,
   Maybe extended actions = absent *)
Definition v5r1_bits (msgtype wid : N) (valid : Z) (seqno : N) : bits :=
  u32 msgtype ++ u32 wid ++ u32 (unix32 valid) ++ u32 seqno ++ [true; false].

(* v5r1 extended actions (W5ExtendedAction): add_extension#02 addr,
   remove_extension#03 addr, set_signature_allowed#04 allowed.
   W5ExtendedActions.MarshalTLB writes the first action into the cell at hand and
   every further action into a new cell referenced from the previous one. *)
Inductive extaction :=
| XAdd (a : TlbCore.addrv) | XRemove (a : TlbCore.addrv) | XSetSig (allowed : bool).

Definition ext_action_bits (x : extaction) : res bits :=
  match x with
  | XAdd a => if TlbCore.addr_ok a then Ok (u8 2 ++ TlbCore.addr_bits a) else Err EWallet
  | XRemove a => if TlbCore.addr_ok a then Ok (u8 3 ++ TlbCore.addr_bits a) else Err EWallet
  | XSetSig b => Ok (u8 4 ++ [b])
  end.

Definition opt_list {A} (o : option A) : list A := match o with Some x => [x] | None => [] end.

(* the chain of cells holding the actions after the first *)
Fixpoint ext_tail (xs : list extaction) : res (option cell) :=
  match xs with
  | [] => Ok None
  | x :: t => do n <- ext_tail t;
              do xb <- ext_action_bits x;
              do c <- mk xb (opt_list n);
              Ok (Some c)
  end.

(* Maybe W5ExtendedActions inside the body cell: the bits after the actions bit
   and the extra references.  (A non-nil empty list writes the bit alone; the
   library cannot decode that.) *)
Definition v5r1x_parts (xs : option (list extaction)) : res (bits * list cell) :=
  match xs with
  | None => Ok ([false], [])
  | Some [] => Ok ([true], [])
  | Some (x :: t) => do xb <- ext_action_bits x; do n <- ext_tail t; Ok ([true] ++ xb, opt_list n)
  end.

(* PayloadHighload.MarshalTLB (after the repair: HashmapE, so that an empty list
   is hme_empty$0): keys 0..n-1 as uint16, value = the cell (mode ^message) as Any *)
Fixpoint hl_entries (i : nat) (ms : list rawmsg) : option (list (bits * Dict.cell)) :=
  match ms with
  | [] => Some []
  | m :: t => match to_dict (rm_msg m), hl_entries (S i) t with
              | Some d, Some r =>
                  Some ((bits_of 16 (N.of_nat i), Dict.Cell (u8 (rm_mode m)) [d]) :: r)
              | _, _ => None
              end
  end.
Definition hl_query (valid : Z) (rnd : N) : N := (unix32 valid * 4294967296 + rnd mod 4294967296)%N.
Definition body_hl (sub : N) (valid : Z) (rnd : N) (ms : list rawmsg) : res cell :=
  if (254 <? length ms)%nat then Err EWallet else
  let pre := u32 sub ++ u64 (hl_query valid rnd) in
  match hl_entries 0 ms with
  | None => Err EUnmodelled
  | Some [] => mk (pre ++ [false]) []
  | Some kvs => do root <- Hashmap.encode Hashmap.venc_any 16 kvs;
                mk (pre ++ [true]) [of_dict root]
  end.

(** *** the wallet object (what newWallet keeps; built in Model/WalletSend.v) *)
Record wallet := mkw {
  w_ver : version;
  w_pk : bits;          (* 256 bits *)
  w_wc : Z;             (* Go int *)
  w_sub : N;            (* uint32: v3, v4, highload, v5 beta *)
  w_net : N;            (* uint32(networkGlobalID): v5 beta *)
  w_wid : N             (* uint32: v5r1 wallet id *)
}.

(* Options: nil pointers are None.  Workchain is a Go int, SubWalletID a uint32,
   NetworkGlobalID an int32. *)
Record options := mkopt { o_wc : option Z; o_sub : option N; o_net : option Z }.

Definition default_subwallet : Z := 698983191%Z.
Definition mainnet_global_id : Z := (-239)%Z.
Definition to_u32 (z : Z) : N := Z.to_N (z mod two32).
Definition opt_or {A} (o : option A) (d : A) : A := match o with Some x => x | None => d end.

(* genContextID(uint32(workchain)): the 32 bits 1 | workchain:8 | 0:8 | 0:15 *)
Definition context_id (wc : Z) : N :=
  N_of_bits ([true] ++ u8 (Z.to_N (wc mod 256)) ++ zeros 8 ++ zeros 15).

(* newWallet *)
Definition new_wallet (pk : bits) (v : version) (o : options) : res wallet :=
  let wc := opt_or (o_wc o) 0%Z in
  let dsub := opt_or (o_sub o) (to_u32 (default_subwallet + wc)) in
  match v with
  | V1R1 | V1R2 | V1R3 | V2R1 | V2R2 => Ok (mkw v pk wc 0 0 0)
  | V3R1 | V3R2 | V4R1 | V4R2 | HLV2R2 => Ok (mkw v pk wc dsub 0 0)
  | V5Beta => Ok (mkw v pk wc (opt_or (o_sub o) 0%N)
                      (to_u32 (opt_or (o_net o) mainnet_global_id)) 0)
  | V5R1 => Ok (mkw v pk wc 0 0
                    (N.lxor (context_id wc) (to_u32 (opt_or (o_net o) mainnet_global_id))))
  | _ => Err EWallet
  end.

Definition max_messages (v : version) : nat :=
  match v with
  | V5Beta => 254 | V5R1 => 255 | HLV2R2 => 254 | _ => 4
  end.

Section Crypto.
Variable SK : Type.
Variable chash : cell -> res bytes.              (* Cell.Hash *)
Variable sign : SK -> bytes -> bits.             (* ed25519.Sign, as bits *)
Variable verify : bits -> bytes -> bits -> bool. (* ed25519.Verify pk msg sig *)

(* copy(bits512[:], sig) *)
Definition fit (n : nat) (l : bits) : bits := firstn n (l ++ zeros n).

(* signBodyCell: SignedMsgBody{Sign, Message: Any(body)} into a new cell *)
Definition sign_body (sk : SK) (body : cell) : res cell :=
  do h <- chash body;
  mk (fit 512 (sign sk h) ++ cdata body) (crefs body).

(* v5: signature written after the signed bits of the same cell *)
Definition sign_append (sk : SK) (b : bits) (rs : list cell) : res cell :=
  do c <- mk b rs;
  do h <- chash c;
  mk (b ++ sign sk h) rs.

(* the unsigned part (the cell whose hash is signed) *)
Definition unsigned_body (w : wallet) (ms : list rawmsg) (seqno : N) (valid : Z)
           (msgtype rnd : N) : res cell :=
  match w_ver w with
  | V3R1 | V3R2 => body_v3 (w_sub w) valid seqno ms
  | V4R1 | V4R2 => body_v4 (w_sub w) valid seqno ms
  | V5Beta => do a <- actions_cell ms;
              mk (v5beta_bits msgtype (w_net w) (w_wc w) (w_sub w) valid seqno) [a]
  | V5R1 => do a <- actions_cell ms; mk (v5r1_bits msgtype (w_wid w) valid seqno) [a]
  | HLV2R2 => body_hl (w_sub w) valid rnd ms
  | V1R1 | V1R2 | V1R3 | V2R1 | V2R2 => Panic PExplicit       (* panic("implement me") *)
  | _ => Err EWallet                                          (* newWallet refuses them *)
  end.

Definition sig_appended (v : version) : bool :=
  match v with V5Beta | V5R1 => true | _ => false end.

(* wallet.createSignedMsgBodyCell *)
Definition create_body (w : wallet) (sk : SK) (ms : list rawmsg) (seqno : N) (valid : Z)
           (msgtype rnd : N) : res cell :=
  do u <- unsigned_body w ms seqno valid msgtype rnd;
  if sig_appended (w_ver w) then sign_append sk (cdata u) (crefs u) else sign_body sk u.

(* walletV5R1.CreateSignedMsgBodyCell with extended actions (exported method) *)
Definition unsigned_v5r1x (w : wallet) (ms : list rawmsg) (xs : option (list extaction))
           (seqno : N) (valid : Z) (msgtype : N) : res cell :=
  do a <- actions_cell ms;
  do p <- v5r1x_parts xs;
  mk (u32 msgtype ++ u32 (w_wid w) ++ u32 (unix32 valid) ++ u32 seqno ++ [true] ++ fst p) (a :: snd p).

Definition create_body_v5r1x (w : wallet) (sk : SK) (ms : list rawmsg) (xs : option (list extaction))
           (seqno : N) (valid : Z) (msgtype : N) : res cell :=
  do u <- unsigned_v5r1x w ms xs seqno valid msgtype;
  sign_append sk (cdata u) (crefs u).

(** *** the Wallet object's clock and lifetime option.  applyOptions starts from
    MsgLifetime = DefaultMessageLifetime (3 minutes); WithMessageLifetime(d)
    replaces it; New stores it as msgDefaultLifetime.  Durations and the clock
    are in nanoseconds, expiry = (now + lifetime).Unix(). *)
Definition default_lifetime_ns : Z := 180000000000%Z.
Definition lifetime_of (o : option Z) : Z := opt_or o default_lifetime_ns.
Definition expiry (now_ns life_ns : Z) : Z := ((now_ns + life_ns) / 1000000000)%Z.

(* Wallet.CreateMessageBody(msgConfig, messages...): a zero ValidUntil means
   now + the wallet's configured lifetime; no count check (see marshal_refuses) *)
Definition api_create_message_body (w : wallet) (sk : SK) (life_ns now_ns : Z) (cfg_valid : option Z)
           (ms : list rawmsg) (seqno : N) (msgtype rnd : N) : res cell :=
  create_body w sk ms seqno
              (match cfg_valid with Some v => v | None => expiry now_ns life_ns end) msgtype rnd.

(** *** the external message: ext_in_msg_info$10 src:addr_none$00
    dest:addr_std$10 anycast:nothing$0 workchain:int8 address:bits256
    import_fee:Grams=0 init:(Maybe (Either StateInit ^StateInit)) body:(Either X ^X),
    init and body always by reference *)
Definition ext_bits (wc : Z) (addr : bits) (has_init : bool) : bits :=
  [true; false] ++ [false; false] ++ [true; false; false] ++ u8 (Z.to_N (wc mod 256)) ++ addr ++
  zeros 4 ++ (if has_init then [true; true] else [false]) ++ [true].
Definition ext_msg (wc : Z) (addr : bits) (init : option cell) (body : cell) : res cell :=
  mk (ext_bits wc addr (match init with Some _ => true | None => false end))
     (match init with Some i => [i; body] | None => [body] end).

(* RawSendV2 up to the payload handed to SendMessage: (message hash, message) *)
Definition raw_send_msg (w : wallet) (sk : SK) (wc : Z) (addr : bits) (seqno : N) (valid : Z)
           (ms : list rawmsg) (init : option cell) (rnd : N) : res (bytes * cell) :=
  if (max_messages (w_ver w) <? length ms)%nat then Err EWallet else
  do body <- create_body w sk ms seqno valid op_signed_external rnd;
  do e <- ext_msg wc addr init body;
  do h <- chash e;
  Ok (h, e).

(** *** decoding *)

(* HashmapE[K, V] in the middle of a cell: consumes one bit and, when set, one
   reference holding a dictionary whose every value (bits, references of the
   leaf after the label) is accepted by [vok], i.e. decodes as V.  A dictionary
   containing exotic cells is outside the model. *)
Definition dict_skip (n : nat) (vok : bits -> list Dict.cell -> bool) (l : bits) (refs : list cell)
  : res (bits * list cell) :=
  do b <- take 1 l;
  if nth 0 (fst b) false then
    match refs with
    | [] => Err ENotEnoughRefs
    | r :: rest =>
        match to_dict r with
        | None => Err EUnmodelled
        | Some d =>
            do kvs <- Hashmap.decode Hashmap.vdec_any n d;
            if forallb (fun kv => match snd kv with Dict.Cell b' r' => vok b' r' end) kvs
            then Ok (snd b, rest) else Err ENotEnoughBits
        end
    end
  else Ok (snd b, refs).

(* SimpleLib = public:Bool root:^Cell; VarUInteger 32 = len:(#< 32) value:(uint (len * 8)) *)
Definition simplelib_ok (b : bits) (r : list Dict.cell) : bool := negb (short 1 b) && negb (short 1 r).
Definition varuint32_ok (b : bits) (_ : list Dict.cell) : bool :=
  negb (short 5 b) && negb (short (5 + 8 * N.to_nat (N_of_bits (firstn 5 b))) b).

(* tlb.StateInit read from a cursor (bits, references): split_depth:(Maybe (## 5))
   special:(Maybe TickTock) code:(Maybe ^Cell) data:(Maybe ^Cell)
   library:(HashmapE 256 SimpleLib), SimpleLib = public:Bool root:^Cell.
   Returns what is left of the cursor. *)
Definition stateinit_dec (l : bits) (refs : list cell) : res (bits * list cell) :=
  do a <- take 1 l;
  do b <- (if nth 0 (fst a) false then do x <- take 5 (snd a); Ok (snd x) else Ok (snd a));
  do t <- take 1 b;
  do b2 <- (if nth 0 (fst t) false then do x <- take 2 (snd t); Ok (snd x) else Ok (snd t));
  do cd <- take 1 b2;
  do rs1 <- (if nth 0 (fst cd) false
             then match refs with [] => Err ENotEnoughRefs | _ :: r => Ok r end
             else Ok refs);
  do dt <- take 1 (snd cd);
  do rs2 <- (if nth 0 (fst dt) false
             then match rs1 with [] => Err ENotEnoughRefs | _ :: r => Ok r end
             else Ok rs1);
  dict_skip 256 simplelib_ok (snd dt) rs2.

(* a StateInit in its own cell (what is left over is ignored) *)
Definition stateinit_ok (c : cell) : res unit :=
  do _ <- stateinit_dec (cdata c) (crefs c); Ok tt.

(* Grams / VarUInteger 16: 4-bit byte length, then the bytes *)
Definition grams_dec (l : bits) : res (N * bits) :=
  do n <- take 4 l;
  do v <- take (8 * N.to_nat (N_of_bits (fst n))) (snd n);
  Ok (N_of_bits (fst v), snd v).

(* CommonMsgInfo *)
Inductive msginfo :=
| IInt (ihr_disabled bounce bounced : bool) (src dest : TlbCore.addrv) (grams : N)
       (ihr_fee fwd_fee created_lt created_at : N)          (* int_msg_info$0 *)
| IExtIn (src dest : TlbCore.addrv) (import_fee : N)          (* ext_in_msg_info$10 *)
| IExtOut (src dest : TlbCore.addrv) (created_lt created_at : N).   (* ext_out_msg_info$11 *)

Definition info_dec (l : bits) (refs : list cell) : res (msginfo * bits * list cell) :=
  do t <- take 1 l;
  if negb (nth 0 (fst t) false) then
    do f <- take 3 (snd t);
    do s <- TlbCore.addr_parse (snd f);
    do d <- TlbCore.addr_parse (snd s);
    do g <- grams_dec (snd d);
    do ec <- dict_skip 32 varuint32_ok (snd g) refs;     (* other:ExtraCurrencyCollection *)
    do ih <- grams_dec (fst ec);
    do fw <- grams_dec (snd ih);
    do lt <- take 64 (snd fw);
    do at_ <- take 32 (snd lt);
    Ok (IInt (nth 0 (fst f) false) (nth 1 (fst f) false) (nth 2 (fst f) false) (fst s) (fst d)
             (fst g) (fst ih) (fst fw) (N_of_bits (fst lt)) (N_of_bits (fst at_)), snd at_, snd ec)
  else
    do k <- take 1 (snd t);
    do s <- TlbCore.addr_parse (snd k);
    do d <- TlbCore.addr_parse (snd s);
    if negb (nth 0 (fst k) false) then
      do g <- grams_dec (snd d);
      Ok (IExtIn (fst s) (fst d) (fst g), snd g, refs)
    else
      do lt <- take 64 (snd d);
      do at_ <- take 32 (snd lt);
      Ok (IExtOut (fst s) (fst d) (N_of_bits (fst lt)) (N_of_bits (fst at_)), snd at_, refs).

(* the decoded tlb.Message: info, the StateInit as a cell (the referenced cell, or
   for an inline StateInit the bits and references it occupied), the body as the
   cell Any / Ref[Any] copy it into *)
Record extmsg := mkext { e_info : msginfo; e_init : option cell; e_body : cell }.

Definition drop_suffix {A} (whole rest : list A) : list A := firstn (length whole - length rest) whole.

(* tlb.Unmarshal(msg, &tlb.Message): every constructor of CommonMsgInfo, every
   MsgAddress form, init absent / inline / by reference (libraries included),
   body inline or by reference *)
Definition parse_ext (m : cell) : res extmsg :=
  do _ <- chash m;
  do i <- info_dec (cdata m) (crefs m);
  let '(info, l0, r0) := i in
  do ib <- take 1 l0;
  do ir <- (if nth 0 (fst ib) false then
              do e <- take 1 (snd ib);
              if nth 0 (fst e) false then
                match r0 with
                | [] => Err ENotEnoughRefs
                | si :: r => do _ <- stateinit_ok si; Ok (Some si, snd e, r)
                end
              else
                do x <- stateinit_dec (snd e) r0;
                Ok (Some (ocell (drop_suffix (snd e) (fst x)) (drop_suffix r0 (snd x))), fst x, snd x)
            else Ok (None, snd ib, r0));
  let '(init, rest, refs) := ir in
  do bb <- take 1 rest;
  if nth 0 (fst bb) false then
    match refs with
    | [] => Err ENotEnoughRefs
    | b :: _ => Ok (mkext info init (ocell (cdata b) (crefs b)))
    end
  else Ok (mkext info init (ocell (snd bb) refs)).

(* the info CreateExternalMessage writes *)
Definition int8_of (z : Z) : Z := ((z + 128) mod 256 - 128)%Z.
Definition ext_in_std (wc : Z) (addr : bits) : msginfo :=
  IExtIn TlbCore.ANone (TlbCore.AStd None (int8_of wc) addr) 0.

(* SignedMsgBody: Sign Bits512, Message Any *)
Definition split_signed (body : cell) : res (bits * cell) :=
  if short 512 (cdata body) then Err ENotEnoughBits
  else Ok (firstn 512 (cdata body), ocell (skipn 512 (cdata body)) (crefs body)).

(* ed25519.Verify panics on a key that is not 32 bytes *)
Definition verify_prim (pk : bits) (h : bytes) (sg : bits) : res unit :=
  if negb (Nat.eqb (length pk) 256) then Panic PExplicit
  else if verify pk h sg then Ok tt else Err EBadSig.

(* MessageV5VerifySignature cuts the last 512 bits and rebuilds the rest *)
Definition v5_split (body : cell) : res (bits * cell) :=
  let n := length (cdata body) in
  if (n <? 512)%nat then Err EWallet
  else do c <- mk (firstn (n - 512) (cdata body)) (crefs body);
       Ok (skipn (n - 512) (cdata body), c).

(* what a body is checked against: (signature, hash of the signed part) *)
Definition signed_hash (appended : bool) (body : cell) : res (bits * bytes) :=
  do x <- (if appended then v5_split body else split_signed body);
  do h <- chash (snd x);
  Ok (fst x, h).

(* SignedMsgBody.Verify after extractSignedMsgBody *)
Definition signed_verify (pk : bits) (body : cell) : res unit :=
  do x <- signed_hash false body; verify_prim pk (snd x) (fst x).

(* MessageV5VerifySignature *)
Definition v5_verify (pk : bits) (body : cell) : res unit :=
  do x <- signed_hash true body; verify_prim pk (snd x) (fst x).

(* which layout VerifySignature applies; None = version not supported *)
Definition verify_layout (v : version) : option bool :=
  match v with
  | V3R1 | V3R2 | V3R2Lockup | V4R1 | V4R2 | HLV2R2 => Some false
  | V5R1 => Some true
  | _ => None
  end.

(* VerifySignature *)
Definition verify_signature (v : version) (m : cell) (pk : bits) : res unit :=
  match verify_layout v with
  | Some appended =>
      do e <- parse_ext m;
      do x <- signed_hash appended (e_body e);
      verify_prim pk (snd x) (fst x)
  | None => Err EWallet
  end.

(* decoded body: wallet / sub-wallet id, expiry, seqno, one version-specific
   extra (v4: op, v5 beta: op bit, highload: low half of the query id) *)
Record decoded := mkdec { d_id : N; d_valid : N; d_seqno : N; d_extra : N; d_msgs : list rawmsg }.

(* PayloadV1toV4.UnmarshalTLB: one mode per reference *)
Fixpoint payload_dec (refs : list cell) (l : bits) : res (list rawmsg) :=
  match refs with
  | [] => Ok []
  | r :: t => do x <- take 8 l;
              do rest <- payload_dec t (snd x);
              Ok (mkraw r (N_of_bits (fst x)) :: rest)
  end.

Definition decode_v3 (body : cell) : res decoded :=
  do sp <- split_signed body;
  do a <- take 32 (cdata (snd sp));
  do b <- take 32 (snd a);
  do c <- take 32 (snd b);
  do ms <- payload_dec (crefs (snd sp)) (snd c);
  Ok (mkdec (N_of_bits (fst a)) (N_of_bits (fst b)) (N_of_bits (fst c)) 0 ms).

Definition decode_v4 (body : cell) : res decoded :=
  do sp <- split_signed body;
  do a <- take 32 (cdata (snd sp));
  do b <- take 32 (snd a);
  do c <- take 32 (snd b);
  do o <- take 8 (snd c);
  do ms <- payload_dec (crefs (snd sp)) (snd o);
  Ok (mkdec (N_of_bits (fst a)) (N_of_bits (fst b)) (N_of_bits (fst c)) (N_of_bits (fst o)) ms).

(* W5Actions.UnmarshalTLB: 0 bits = end, 40 bits = one action whose first
   reference is the rest of the list and whose second is the message *)
Fixpoint actions_dec (c : cell) : res (list rawmsg) :=
  match c with
  | Cell _ _ _ d rs =>
      if Nat.eqb (length d) 0 then Ok []
      else if Nat.eqb (length d) 40 then
        match rs with
        | [] => Err ENotEnoughRefs
        | next :: rs' =>
            if negb (N.eqb (N_of_bits (firstn 32 d)) action_magic) then Err ETag else
            match rs' with
            | [] => Err ENotEnoughRefs
            | msg :: _ => do rest <- actions_dec next;
                          Ok (mkraw msg (N_of_bits (skipn 32 d)) :: rest)
            end
        end
      else Err EWallet
  end.

Definition first_ref (rs : list cell) : res cell :=
  match rs with [] => Err ENotEnoughRefs | r :: _ => Ok r end.

(* MessageV5Beta: both constructors have the same layout *)
Definition decode_v5beta (body : cell) : res decoded :=
  do tg <- take 32 (cdata body);
  if negb (N.eqb (N_of_bits (fst tg)) op_signed_internal ||
           N.eqb (N_of_bits (fst tg)) op_signed_external) then Err ETag else
  do a <- take 80 (snd tg);
  do b <- take 32 (snd a);
  do c <- take 32 (snd b);
  do o <- take 1 (snd c);
  do _ <- take 512 (snd o);
  do r <- first_ref (crefs body);
  do ms <- actions_dec r;
  Ok (mkdec (N_of_bits (fst a)) (N_of_bits (fst b)) (N_of_bits (fst c)) (N_of_bits (fst o)) ms).

(* W5ExtendedActions.UnmarshalTLB: one action from the cell at hand, then the
   next reference of that cell (if any) holds the rest *)
Definition ext_one (l : bits) : res (extaction * bits) :=
  do t <- take 8 l;
  let tag := N_of_bits (fst t) in
  if N.eqb tag 2 then do a <- TlbCore.addr_parse (snd t); Ok (XAdd (fst a), snd a)
  else if N.eqb tag 3 then do a <- TlbCore.addr_parse (snd t); Ok (XRemove (fst a), snd a)
  else if N.eqb tag 4 then do b <- take 1 (snd t); Ok (XSetSig (nth 0 (fst b) false), snd b)
  else Err ETag.

Fixpoint ext_chain_dec (c : cell) : res (list extaction) :=
  match c with
  | Cell _ _ _ d rs =>
      do x <- ext_one d;
      match rs with
      | [] => Ok [fst x]
      | nxt :: _ => do t <- ext_chain_dec nxt; Ok (fst x :: t)
      end
  end.

(* inside the body cell: [refs] are the references not yet read; returns the
   unread bits of the body cell *)
Definition ext_dec_body (l : bits) (refs : list cell) : res (list extaction * bits) :=
  do x <- ext_one l;
  match refs with
  | [] => Ok ([fst x], snd x)
  | nxt :: _ => do t <- ext_chain_dec nxt; Ok (fst x :: t, snd x)
  end.

(* MessageV5: SignedInternal / SignedExternal / ExtensionAction; RawMessages()
   is empty for the last and when the actions are absent.  Also returns the
   extended actions. *)
Definition decode_v5r1x (body : cell) : res (decoded * option (list extaction)) :=
  do tg <- take 32 (cdata body);
  let t := N_of_bits (fst tg) in
  let tail (l : bits) (signed : bool) (mk_dec : list rawmsg -> decoded) :=
    do am <- take 1 l;
    do ms <- (if nth 0 (fst am) false then do r <- first_ref (crefs body); actions_dec r
              else Ok []);
    let refs' := if nth 0 (fst am) false then tl (crefs body) else crefs body in
    do em <- take 1 (snd am);
    do xr <- (if nth 0 (fst em) false then
                do x <- ext_dec_body (snd em) refs'; Ok (Some (fst x), snd x)
              else Ok (None, snd em));
    do _ <- (if signed then take 512 (snd xr) else Ok ([], []));
    Ok (mk_dec ms, fst xr) in
  if N.eqb t op_signed_internal || N.eqb t op_signed_external then
    do a <- take 32 (snd tg);
    do b <- take 32 (snd a);
    do c <- take 32 (snd b);
    tail (snd c) true (fun ms => mkdec (N_of_bits (fst a)) (N_of_bits (fst b)) (N_of_bits (fst c)) 0 ms)
  else if N.eqb t op_extension_action then
    do q <- take 64 (snd tg);
    tail (snd q) false (fun _ => mkdec 0 0 0 (N_of_bits (fst q)) [])
  else Err ETag.

Definition decode_v5r1 (body : cell) : res decoded :=
  do x <- decode_v5r1x body; Ok (fst x).

(* PayloadHighload.UnmarshalTLB: every value is mode:uint8 ^message *)
Fixpoint hl_values (kvs : list (bits * Dict.cell)) : res (list rawmsg) :=
  match kvs with
  | [] => Ok []
  | (_, Dict.Cell vb vrs) :: t =>
      do x <- take 8 vb;
      match vrs with
      | [] => Err ENotEnoughRefs
      | r :: _ => do rest <- hl_values t; Ok (mkraw (of_dict r) (N_of_bits (fst x)) :: rest)
      end
  end.

Definition decode_hl (body : cell) : res decoded :=
  do sp <- split_signed body;
  do a <- take 32 (cdata (snd sp));
  do q <- take 64 (snd a);
  do e <- take 1 (snd q);
  do ms <- (if nth 0 (fst e) false then
              do r <- first_ref (crefs (snd sp));
              match to_dict r with
              | None => Err EUnmodelled
              | Some d => do kvs <- Hashmap.decode Hashmap.vdec_any 16 d; hl_values kvs
              end
            else Ok []);
  let qv := N_of_bits (fst q) in
  Ok (mkdec (N_of_bits (fst a)) (qv / 4294967296) 0 (qv mod 4294967296) ms).

(* Decode<version>Message on the external message *)
Definition decode_msg (v : version) (m : cell) : res decoded :=
  match v with
  | V5Beta => do e <- parse_ext m; decode_v5beta (e_body e)
  | V5R1 => do e <- parse_ext m; decode_v5r1 (e_body e)
  | V4R1 | V4R2 => do e <- parse_ext m; decode_v4 (e_body e)
  | V3R1 | V3R2 | V3R2Lockup => do e <- parse_ext m; decode_v3 (e_body e)
  | HLV2R2 => do e <- parse_ext m; decode_hl (e_body e)
  | _ => Err EWallet
  end.

(* ExtractRawMessages *)
Definition extract_raw (v : version) (m : cell) : res (list rawmsg) :=
  do d <- decode_msg v m; Ok (d_msgs d).

End Crypto.
