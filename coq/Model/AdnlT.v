(** C11 — model of the ADNL-over-TCP *transport* of liteclient (client side):
    liteclient/adnl.go (params, Packet.marshal, ParsePacket, Address.hash),
    liteclient/encrypted_conn.go (newEncryptedConnection, handshake, send,
    handleIncomingPackets).  (Model/Adnl.v is the base32 ADNL *address* of C17.)

    Bytes are [N] (< 256).  Cryptography is abstract:
      H      : SHA-256 (Section variable; the harness instantiates it with the
               Gallina Spec.Sha256.sha256)
      cstate : state of a stream cipher (cipher.Stream of crypto/cipher.NewCTR)
      next   : produces the next keystream byte and the advanced state
      init   : key -> iv -> initial state (aes.NewCipher + cipher.NewCTR)
    A CTR stream is exactly a deterministic keystream generator, so nothing
    else about AES is needed.  The harness instantiates cstate with the list
    of keystream bytes computed by Go (oracle column).

    Reader model: an io.Reader over a TCP connection is the list of segments
    its successive Read calls will return ([] = EOF from now on); a Read never
    returns more than asked, the rest of the segment stays for the next Read. *)
From Coq Require Import List NArith Bool.
From Tongo Require Import Spec.AdnlSpec.
Import ListNotations.
Local Open Scope N_scope.

(* copy(dst[0:n], src) into a zeroed window of n bytes *)
Definition fit (n : nat) (l : list N) : list N := firstn n (l ++ repeat 0 n).

(* ParsePacket: length < 64 || length > 8<<20 *)
Definition min_packet_len : N := 64.
Definition max_packet_len : N := 8388608.

(* ---------- readers ---------- *)

Definition reader := list (list N).

Inductive rd_res :=
| RdOk (data : list N) (r : reader)
| RdEof          (* io.EOF: no byte could be read *)
| RdUnexp.       (* io.ErrUnexpectedEOF: some but not all *)

(* io.ReadFull(r, buf) with len(buf) = n.  [got]: a byte was already read. *)
Fixpoint read_full (n : N) (r : reader) (got : bool) : rd_res :=
  if n =? 0 then RdOk [] r else
  match r with
  | [] => if got then RdUnexp else RdEof
  | seg :: rest =>
      let '(a, segrest, m) := take n seg in
      if m =? 0 then
        RdOk a (match segrest with [] => rest | _ => segrest :: rest end)
      else
        match read_full m rest (got || negb (match a with [] => true | _ => false end)) with
        | RdOk b r' => RdOk (a ++ b) r'
        | e => e
        end
  end.

Section Transport.
  Variable H : list N -> list N.
  Variable cstate : Type.
  Variable next : cstate -> N * cstate.
  Variable init : list N -> list N -> cstate.

  (* cipher.Stream.XORKeyStream(dst, src) *)
  Fixpoint xor_stream (s : cstate) (data : list N) : list N * cstate :=
    match data with
    | [] => ([], s)
    | b :: t =>
        let '(k, s1) := next s in
        let '(o, s2) := xor_stream s1 t in
        (N.lxor b k :: o, s2)
    end.

  (* ---------- Packet ---------- *)

  (* Packet.hash *)
  Definition packet_hash (nonce payload : list N) : list N := H (nonce ++ payload).

  (* Packet.size: uint32(len(payload)+32+32), little endian *)
  Definition packet_size (payload : list N) : list N :=
    le32 ((len payload + 32 + 32) mod 4294967296).

  (* Packet.marshal; nonce is a [32]byte *)
  Definition marshal (nonce payload : list N) : list N :=
    packet_size payload ++ fit 32 nonce ++ payload ++ fit 32 (packet_hash nonce payload).

  Inductive perr := PEof | PUnexp | PLen | PSum | PFuel.

  Inductive pres :=
  | POk (nonce payload : list N) (r : reader) (s : cstate)
  | PErr (e : perr) (r : reader).

  (* ParsePacket(r, decryptor) *)
  Definition parse_packet (r : reader) (s : cstate) : pres :=
    match read_full 4 r false with
    | RdEof => PErr PEof []
    | RdUnexp => PErr PUnexp []
    | RdOk size r1 =>
        let '(dsize, s1) := xor_stream s size in
        let length := of_le32 dsize in
        if (length <? min_packet_len) || (max_packet_len <? length) then PErr PLen r1
        else
          match read_full length r1 false with
          | RdEof => PErr PEof []
          | RdUnexp => PErr PUnexp []
          | RdOk data r2 =>
              let '(d, s2) := xor_stream s1 data in
              let '(nonce, rest, _) := take 32 d in
              let '(payload, sum, _) := take (length - 32 - 32) rest in
              if bytes_eqb sum (packet_hash nonce payload)
              then POk nonce payload r2 s2
              else PErr PSum r2
          end
    end.

  (* ---------- encryptedConn ---------- *)

  (* send: encrypt the marshalled packet with the running tx stream *)
  Definition send_packet (s : cstate) (nonce payload : list N) : list N * cstate :=
    xor_stream s (marshal nonce payload).

  (* a sequence of Connection.Send calls: bytes written to the socket *)
  Fixpoint send_all (s : cstate) (msgs : list (list N * list N)) : list N * cstate :=
    match msgs with
    | [] => ([], s)
    | (nonce, payload) :: t =>
        let '(c, s1) := send_packet s nonce payload in
        let '(cs, s2) := send_all s1 t in
        (c ++ cs, s2)
    end.

  (* handleIncomingPackets: packets put on the channel until the first error *)
  Fixpoint recv_loop (fuel : nat) (r : reader) (s : cstate) : list (list N) * perr :=
    match fuel with
    | O => ([], PFuel)
    | S f =>
        match parse_packet r s with
        | POk _ payload r' s' =>
            let '(ps, e) := recv_loop f r' s' in (payload :: ps, e)
        | PErr e _ => ([], e)
        end
    end.

  Definition reader_len (r : reader) : nat := length (concat r).

  Definition recv_all (r : reader) (s : cstate) : list (list N) * perr :=
    recv_loop (S (reader_len r)) r s.

  (* ---------- params, Address.hash, handshake ---------- *)

  Definition rx_key (p : list N) := slice 0 32 p.
  Definition tx_key (p : list N) := slice 32 64 p.
  Definition rx_nonce (p : list N) := slice 64 80 p.
  Definition tx_nonce (p : list N) := slice 80 96 p.

  (* Address.hash *)
  Definition address_hash (pub : list N) : list N := H ([198; 180; 19; 72] ++ pub).

  (* newEncryptedConnection: the two running streams *)
  Definition client_tx0 (p : list N) : cstate := init (tx_key p) (tx_nonce p).
  Definition client_rx0 (p : list N) : cstate := init (rx_key p) (rx_nonce p).

  (* encryptedConn.handshake: AES key and CTR nonce protecting the parameters *)
  Definition hs_key (shared hp : list N) : list N := slice 0 16 shared ++ slice 16 32 hp.
  Definition hs_nonce (shared hp : list N) : list N := slice 0 4 hp ++ slice 20 32 shared.

  (* encryptedConn.handshake: the 256 bytes written first.
     [cpub], [shared] = x25519Keys.public / .shared *)
  Definition handshake_bytes (server_pub params cpub shared : list N) : list N :=
    let hp := H params in
    let data := fst (xor_stream (init (hs_key shared hp) (hs_nonce shared hp)) params) in
    fit 32 (address_hash server_pub) ++ fit 32 cpub ++ fit 32 hp ++ fit 160 data.

  (* the whole client: handshake written, one packet awaited (ParsePacket on
     the raw connection), then the receive loop; [msgs] sent meanwhile *)
  Record client_run := {
    cr_handshake : list N;
    cr_sent : list N;
    cr_connected : bool;
    cr_delivered : list (list N);
    cr_end : perr
  }.

  Definition client_session (server_pub params cpub shared : list N)
      (msgs : list (list N * list N)) (incoming : reader) : client_run :=
    let hs := handshake_bytes server_pub params cpub shared in
    match parse_packet incoming (client_rx0 params) with
    | POk _ _ r1 rx1 =>
        let '(sent, _) := send_all (client_tx0 params) msgs in
        let '(ps, e) := recv_all r1 rx1 in
        {| cr_handshake := hs; cr_sent := sent; cr_connected := true;
           cr_delivered := ps; cr_end := e |}
    | PErr e _ =>
        {| cr_handshake := hs; cr_sent := []; cr_connected := false;
           cr_delivered := []; cr_end := e |}
    end.
End Transport.

(** ---------- Connection.Send under c.mu: several senders, one connection ----------

    Connection.Send is called by any number of goroutines (Client requests,
    the ping loop).  Its body is   c.mu.Lock(); econn.send(b); c.mu.Unlock()
    where send = XORKeyStream with the running tx stream, then conn.Write.
    Labelled transition system: sender i performs, per packet, the steps
    Lock, Encrypt, Write, Unlock; a scheduler picks (sender, step) pairs, a
    step that is not enabled (blocked on the mutex, wrong phase) does not happen.
    [early_unlock = true] is the variant that releases the mutex after the
    status check, before encrypting and writing. *)
Section SenderLock.
  Variable H : list N -> list N.
  Variable cstate : Type.
  Variable next : cstate -> N * cstate.

  Definition msg := (list N * list N)%type.      (* nonce, payload *)

  Inductive phase :=
  | PLocked (m : msg)        (* holds c.mu, packet marshalled *)
  | PUnlocked (m : msg)      (* early_unlock only: mutex released, nothing sent yet *)
  | PEnc (c : list N)        (* bytes encrypted in place, not yet written *)
  | PWrote.                  (* written, still holding c.mu *)

  Inductive action := ALock | AEncrypt | AWrite | AUnlock.

  Record csys := {
    cs_queues : list (list msg);          (* packets each sender still has to send *)
    cs_active : list (nat * phase);       (* senders inside Send *)
    cs_owner : option nat;                (* holder of c.mu *)
    cs_tx : cstate;                       (* econn.cipher *)
    cs_wire : list N;                     (* bytes written to the socket *)
    cs_log : list (nat * msg)             (* order in which the mutex was acquired *)
  }.

  Fixpoint alookup (i : nat) (a : list (nat * phase)) : option phase :=
    match a with
    | [] => None
    | (j, p) :: t => if Nat.eqb i j then Some p else alookup i t
    end.

  Fixpoint aremove (i : nat) (a : list (nat * phase)) : list (nat * phase) :=
    match a with
    | [] => []
    | (j, p) :: t => if Nat.eqb i j then t else (j, p) :: aremove i t
    end.

  Definition aset (i : nat) (p : phase) (a : list (nat * phase)) : list (nat * phase) :=
    (i, p) :: aremove i a.

  Fixpoint qpop (i : nat) (qs : list (list msg)) : option (msg * list (list msg)) :=
    match qs, i with
    | [], _ => None
    | q :: t, O => match q with [] => None | m :: q' => Some (m, q' :: t) end
    | q :: t, S k => match qpop k t with Some (m, t') => Some (m, q :: t') | None => None end
    end.

  Definition cstep (early_unlock : bool) (i : nat) (a : action) (st : csys) : option csys :=
    match a with
    | ALock =>
        match cs_owner st, alookup i (cs_active st), qpop i (cs_queues st) with
        | None, None, Some (m, qs) =>
            Some {| cs_queues := qs; cs_active := aset i (PLocked m) (cs_active st);
                    cs_owner := Some i; cs_tx := cs_tx st; cs_wire := cs_wire st;
                    cs_log := cs_log st ++ [(i, m)] |}
        | _, _, _ => None
        end
    | AEncrypt =>
        let go m :=
          let '(c, tx) := send_packet H cstate next (cs_tx st) (fst m) (snd m) in
          Some {| cs_queues := cs_queues st; cs_active := aset i (PEnc c) (cs_active st);
                  cs_owner := cs_owner st; cs_tx := tx; cs_wire := cs_wire st;
                  cs_log := cs_log st |} in
        match alookup i (cs_active st) with
        | Some (PLocked m) => if early_unlock then None else go m
        | Some (PUnlocked m) => if early_unlock then go m else None
        | _ => None
        end
    | AWrite =>
        match alookup i (cs_active st) with
        | Some (PEnc c) =>
            Some {| cs_queues := cs_queues st;
                    cs_active := if early_unlock then aremove i (cs_active st)
                                 else aset i PWrote (cs_active st);
                    cs_owner := cs_owner st; cs_tx := cs_tx st; cs_wire := cs_wire st ++ c;
                    cs_log := cs_log st |}
        | _ => None
        end
    | AUnlock =>
        match alookup i (cs_active st) with
        | Some PWrote =>
            if early_unlock then None else
            Some {| cs_queues := cs_queues st; cs_active := aremove i (cs_active st);
                    cs_owner := None; cs_tx := cs_tx st; cs_wire := cs_wire st;
                    cs_log := cs_log st |}
        | Some (PLocked m) =>
            if early_unlock then
            Some {| cs_queues := cs_queues st; cs_active := aset i (PUnlocked m) (cs_active st);
                    cs_owner := None; cs_tx := cs_tx st; cs_wire := cs_wire st;
                    cs_log := cs_log st |}
            else None
        | _ => None
        end
    end.

  (* a schedule; steps that are not enabled are skipped; the executed
     encrypt / write events are recorded (true = encrypt) with their sizes *)
  Fixpoint crun (early_unlock : bool) (sched : list (nat * action)) (st : csys)
      (ev : list (bool * N)) : csys * list (bool * N) :=
    match sched with
    | [] => (st, ev)
    | (i, a) :: t =>
        match cstep early_unlock i a st with
        | Some st' =>
            let ev' := match a with
                       | AEncrypt => ev ++ [(true, match alookup i (cs_active st') with
                                                   | Some (PEnc c) => len c | _ => 0 end)]
                       | AWrite => ev ++ [(false, len (cs_wire st') - len (cs_wire st))]
                       | _ => ev
                       end in
            crun early_unlock t st' ev'
        | None => crun early_unlock t st ev
        end
    end.

  Definition cinit (tx0 : cstate) (queues : list (list msg)) : csys :=
    {| cs_queues := queues; cs_active := []; cs_owner := None; cs_tx := tx0;
       cs_wire := []; cs_log := [] |}.
End SenderLock.

Arguments cs_queues {cstate} c.
Arguments cs_active {cstate} c.
Arguments cs_owner {cstate} c.
Arguments cs_tx {cstate} c.
Arguments cs_wire {cstate} c.
Arguments cs_log {cstate} c.

(** ---------- Connection.reader / reconnect / Responses over time ----------

    Connection.reader selects between the next packet of the session and
    time.After(reconnectTimeout) created anew in every iteration; pongs
    (tcp.pong, 12 bytes) and auth nonces are consumed, everything else goes to
    c.resp, the ONE channel made by NewConnection and returned by Responses().
    A session is a list of arrivals (gap in ms since the reader returned to its
    select, packet) ending when the packet channel is closed (error / EOF of the
    transport), when nothing arrives for reconnectTimeout, or not at all.
    The two flags describe other designs: [single_timer] = one timer started
    with the reader and never re-armed; [chan_per_session] = c.resp made anew
    by every (re)handshake while the application keeps the channel it got. *)
Definition magic_tcp_pong : N := 3697933059.            (* 0xdc69fb03 *)
Definition magic_tcp_auth_nonce : N := 3814542006.      (* 0xe35d4ab6 *)
Definition reconnect_timeout_ms : N := 10000.

Definition magic_type (p : list N) : N :=
  match p with a :: b :: c :: d :: _ => of_le32 [a; b; c; d] | _ => 0 end.

(* packets Connection.reader consumes itself *)
Definition is_control (p : list N) : bool :=
  ((magic_type p =? magic_tcp_pong) && (len p =? 12)) || (magic_type p =? magic_tcp_auth_nonce).

Inductive arrival :=
| APacket (gap : N) (p : list N)
| AClosed (gap : N).          (* packetCh closed: handleIncomingPackets saw an error *)

Inductive session_end := SRunning | SClosed | STimeout.

(* one reader: packets put on c.resp, and how it ended; [elapsed] = ms since
   the reader started (only the single-timer design looks at it) *)
Fixpoint reader_run (single_timer : bool) (elapsed : N) (evs : list arrival)
    : list (list N) * session_end :=
  match evs with
  | [] => ([], SRunning)
  | AClosed gap :: _ =>
      if (if single_timer then reconnect_timeout_ms <=? elapsed + gap
          else reconnect_timeout_ms <=? gap) then ([], STimeout) else ([], SClosed)
  | APacket gap p :: t =>
      if (if single_timer then reconnect_timeout_ms <=? elapsed + gap
          else reconnect_timeout_ms <=? gap) then ([], STimeout)
      else
        let '(ps, e) := reader_run single_timer (elapsed + gap) t in
        (if is_control p then ps else p :: ps, e)
  end.

(* a Connection over its successive sessions: (channel, packet) deliveries;
   the channel of session k is 0 unless a channel is made per session *)
Fixpoint conn_run (single_timer chan_per_session : bool) (k : nat) (sessions : list (list arrival))
    : list (nat * list N) :=
  match sessions with
  | [] => []
  | evs :: t =>
      map (fun p => (if chan_per_session then k else 0%nat, p)) (fst (reader_run single_timer 0 evs))
      ++ conn_run single_timer chan_per_session (S k) t
  end.

(* what the application receives on the channel it took from Responses() once *)
Definition app_received (deliveries : list (nat * list N)) : list (list N) :=
  map snd (filter (fun d => Nat.eqb (fst d) 0) deliveries).

Definition data_packets (evs : list arrival) : list (list N) :=
  flat_map (fun a => match a with
                     | APacket _ p => if is_control p then [] else [p]
                     | AClosed _ => [] end) evs.
