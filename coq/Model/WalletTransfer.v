(** The internal message of a transfer (wallet.Message / wallet.SimpleTransfer ->
    ToInternal -> tlb.Marshal), as the encoding of a value of the TL-B
    descriptor of tlb.Message in the codec model of C03 (Model/TlbCore.v).
    [msg_ty] is the descriptor of tlb.Message written out; Properties/C14_gen.v
    checks that it IS the descriptor translated from today's tlb.Message. *)
From Coq Require Import List NArith ZArith Arith Bool.
From Tongo Require Import Lib.Bits Lib.Res Model.BocParse Model.CellHash Spec.ReprHash Model.TlbCore
  Model.TlbExt Model.Wallet.
Import ListNotations.

Definition stateinit_ty : ty :=
  TStruct [TMaybe (TUint 5); TMaybe (TStruct [TBool; TBool]); TMaybe TCellRef; TMaybe TCellRef; TMaybeRef TAny].
Definition currencies_ty : ty := TStruct [TVarUInt 16; TStruct [TMaybeRef TAny]].
Definition msginfo_ty : ty :=
  TSum [(1%nat, 0%N, TStruct [TBool; TBool; TBool; TAddr; TAddr; currencies_ty; TVarUInt 16; TVarUInt 16;
                              TUint 64; TUint 32]);
        (2%nat, 2%N, TStruct [TAddr; TAddr; TVarUInt 16]);
        (2%nat, 3%N, TStruct [TAddr; TAddr; TUint 64; TUint 32])].
Definition msg_ty : ty := TStruct [msginfo_ty; TMaybe (TEitherRef stateinit_ty); TEitherRef TAny].

(** a requested transfer: what wallet.Message carries (SimpleTransfer = no code /
    data, body = the comment cell or none, mode 3) *)
Record transfer := mktr {
  t_amount : N;                       (* Grams *)
  t_wc : Z;                           (* Address.Workchain (int32) *)
  t_addr : bits;                      (* Address.Address *)
  t_bounce : bool;
  t_body : option ctree;
  t_init : option (ctree * ctree);    (* Code and Data, both present *)
  t_mode : N
}.

(* Message.ToInternal: int_msg_info, ihr_disabled, not bounced, src addr_none,
   dest addr_std without anycast (workchain cut to int8), grams, no extra
   currencies, zero fees / lt / time; init by reference; body by reference when
   present, else an empty inline body *)
Definition transfer_value (t : transfer) : value :=
  VStruct [
    VSum 0 (VStruct [VBool true; VBool (t_bounce t); VBool false; VAddr ANone;
                     VAddr (AStd None (int8_of (t_wc t)) (t_addr t));
                     VStruct [VN (t_amount t); VStruct [VMaybe None]]; VN 0; VN 0; VN 0; VN 0]);
    match t_init t with
    | None => VMaybe None
    | Some (code, data) =>
        VMaybe (Some (VEither true (VStruct [VMaybe None; VMaybe None; VMaybe (Some (VCell code));
                                             VMaybe (Some (VCell data)); VMaybe None])))
    end;
    match t_body t with
    | None => VEither false (VAny [] [])
    | Some b => VEither true (VAny (ct_bits b) (ct_refs b))
    end].

Fixpoint cell_of_ct (c : ctree) : cell :=
  match c with
  | CT b rs => ocell b ((fix go (l : list ctree) : list cell :=
                           match l with [] => [] | x :: t => cell_of_ct x :: go t end) rs)
  end.

Fixpoint ct_of_cell (c : cell) : option ctree :=
  match c with
  | Cell special ty_ m d rs =>
      if special || negb (N.eqb ty_ 0) || negb (N.eqb m 0) then None else
      match (fix go (l : list cell) : option (list ctree) :=
               match l with
               | [] => Some []
               | x :: t => match ct_of_cell x, go t with
                           | Some y, Some ys => Some (y :: ys)
                           | _, _ => None
                           end
               end) rs with
      | Some rs' => Some (CT d rs')
      | None => None
      end
  end.

(* the cell handed to the wallet as RawMessage.Message *)
Definition internal_ct (t : transfer) : res ctree := encode [] msg_ty (transfer_value t).
Definition internal_msg (t : transfer) : res rawmsg :=
  do c <- internal_ct t; Ok (mkraw (cell_of_ct c) (t_mode t)).

(* reading a transfer back from a carried message *)
Definition transfer_of_value (v : value) (mode : N) : res transfer :=
  match v with
  | VStruct [VSum 0 (VStruct [VBool _; VBool bounce; VBool _; VAddr _; VAddr (AStd None wc addr);
                              VStruct [VN amount; _]; _; _; _; _]); iv; bv] =>
      do init <- match iv with
                 | VMaybe None => Ok None
                 | VMaybe (Some (VEither _ (VStruct [_; _; VMaybe (Some (VCell code)); VMaybe (Some (VCell data)); _]))) =>
                     Ok (Some (code, data))
                 | _ => Err EUnmodelled
                 end;
      do body <- match bv with
                 | VEither false (VAny [] []) => Ok None
                 | VEither _ (VAny b r) => Ok (Some (CT b r))
                 | _ => Err EUnmodelled
                 end;
      Ok (mktr amount wc addr bounce body init mode)
  | _ => Err EUnmodelled
  end.

Definition decode_transfer (m : rawmsg) : res transfer :=
  match ct_of_cell (rm_msg m) with
  | None => Err EUnmodelled
  | Some c => do x <- decode [] msg_ty c; transfer_of_value (fst x) (rm_mode m)
  end.

(* wallet.ContractDeploy{Workchain, Code, Data, Body, Amount}.ToInternal: a Message
   to (Workchain, hash of the StateInit cell of code and data) carrying that
   StateInit, bounceable, mode 3; code and data are required *)
Definition deploy_stateinit (code data : ctree) : ctree := CT [false; false; true; true; false] [code; data].
Definition deploy_transfer (chash : cell -> res bytes) (wc : Z) (code data : option ctree) (body : option ctree)
           (amount : N) : res transfer :=
  match code, data with
  | Some c, Some d =>
      do h <- chash (cell_of_ct (deploy_stateinit c d));
      Ok (mktr amount wc (bytes_to_bits h) true body (Some (c, d)) 3)
  | _, _ => Err EWallet
  end.

(* a list of transfers *)
Fixpoint internal_msgs (ts : list transfer) : res (list rawmsg) :=
  match ts with
  | [] => Ok []
  | t :: r => do m <- internal_msg t; do ms <- internal_msgs r; Ok (m :: ms)
  end.
Fixpoint decode_transfers (ms : list rawmsg) : res (list transfer) :=
  match ms with
  | [] => Ok []
  | m :: r => do t <- decode_transfer m; do ts <- decode_transfers r; Ok (t :: ts)
  end.

(* the body of a text comment: 32 zero bits, then the bytes as snake data *)
Definition comment_body (text : bytes) : ctree :=
  let (bs, rs) := snake_spec 32 (bytes_to_bits text) in CT (zeros 32 ++ bs) rs.
