(** C20 model, part 2: MarshalJSON / UnmarshalJSON of the chain value types.

    Every [print_*] is the byte string returned by the Go MarshalJSON method,
    every [parse_*] is the Go UnmarshalJSON method as a function of the byte
    string it is handed (any bytes: the methods are exported), and
    [json_unmarshal parse doc] is json.Unmarshal(doc, &x): the document is
    checked by the scanner first and the method sees the value's bytes.

    Anchors: tlb/integers.go (UintN, IntN, Uint128.., VarUIntegerN, BitsN),
    tlb/models.go (Grams, SignedCoins), tlb/primitives.go (Magic, Maybe, Any),
    tlb/messages.go (MsgAddress), boc/cell.go, boc/bitString.go, ton/bits.go,
    ton/account.go, tl/basic_types.go. *)
From Coq Require Import List NArith ZArith Bool.
From Tongo Require Import Lib.Bits Lib.Res Model.BitString Model.BitStringD Model.JsonText.
From Tongo Require Model.Address.
Import ListNotations.
Local Open Scope N_scope.

Fixpoint len_is {A} (n : nat) (l : list A) : bool :=
  match n, l with
  | O, [] => true
  | S n', _ :: t => len_is n' t
  | _, _ => false
  end.

(* json.Unmarshal(doc, &x) for a type with an UnmarshalJSON method *)
Definition json_unmarshal {A} (parse : str -> res A) (doc : str) : res A :=
  if json_valid doc then parse (json_item doc) else Err EJson.

(** * tlb.UintN / tlb.IntN, N = 1..64: a JSON number up to 56 bits, a quoted
      decimal string from 57 bits on *)
Definition quoted_width (w : N) : bool := 56 <? w.
Definition print_uint (w v : N) : str :=
  if quoted_width w then quote (print_N v) else print_N v.
Definition parse_uint_json (w : N) (p : str) : res N := parse_uint w (trim_quotes p).
Definition print_int (w : N) (v : Z) : str :=
  if quoted_width w then quote (print_Z v) else print_Z v.
Definition parse_int_json (w : N) (p : str) : res Z := parse_int w (trim_quotes p).

(** * big.Int based: Uint128/256/257, Int128/256/257, VarUInteger1..32 *)
Definition print_big (z : Z) : str := quote (print_Z z).
Definition parse_big_json (p : str) : res Z := parse_big (trim_quotes p).

(** * tlb.BitsN (N/8 bytes), verb %x *)
Definition print_bytes_hex (bs : list N) : str := quote (print_hex bs).
Definition parse_bytes_hex (n : nat) (p : str) : res (list N) :=
  match hex_decode (trim_quotes p) with
  | Some bs => if len_is n bs then Ok bs else Err EOther
  | None => Err EInvalidHex
  end.

(** * Grams (uint64) and SignedCoins (int64) *)
Definition print_grams (v : N) : str := quote (print_N v).
Definition parse_grams (p : str) : res N := parse_uint 64 (trim is_quote_sp_nl p).
Definition print_coins (v : Z) : str := quote (print_Z v).
Definition parse_coins (p : str) : res Z := parse_int 64 (trim is_quote_sp_nl p).
(* the method before the repair (F8): ParseUint, then the uint64 -> int64 cast *)
Definition parse_coins_before_fix (p : str) : res Z :=
  do v <- parse_uint 64 (trim is_quote_sp_nl p);
  Ok (if v <? 2 ^ 63 then Z.of_N v else (Z.of_N v - 2 ^ 64)%Z).

(** * Magic (uint32): 0x%x *)
Definition s_0x : str := [48; 120].
Definition print_magic (m : N) : str := quote (s_0x ++ print_hex_N m).
Definition parse_magic (p : str) : res N :=
  let s := trim_quotes p in
  do s <- (if has_prefix_b s_0x s then go_slice 2 (length s) s else Ok s);     (* str[2:] *)
  do v <- parse_uint_hex64 s; Ok (v mod 2 ^ 32).

(** * Maybe[T] *)
Definition s_null : str := [110; 117; 108; 108].
Definition print_maybe {A} (pr : A -> str) (m : option A) : str :=
  match m with Some v => pr v | None => s_null end.
Definition parse_maybe {A} (pa : str -> res A) (p : str) : res (option A) :=
  if str_eqb p s_null then Ok None else res_map Some (json_unmarshal pa p).

(** * boc.Cell / tlb.Any: hex of the BOC.  The cell <-> bytes step is the
      serialiser / parser of C01 / C07, a parameter here. *)
Section Cell.
  Context {cell : Type}.
  Variable ser : cell -> res (list N).              (* Cell.ToBoc *)
  Variable deser : list N -> res (list cell).       (* boc.DeserializeBoc *)
  Definition print_cell (c : cell) : res str := do bs <- ser c; Ok (quote (print_hex bs)).
  (* cells[0]: indexing an empty slice panics *)
  Definition go_index0 (cs : list cell) : res cell :=
    match cs with c :: _ => Ok c | [] => Panic PIndex end.
  (* if len(cells) != 1 { return error }; *c = *cells[0] *)
  Definition parse_cell (p : str) : res cell :=
    match hex_decode (trim_quotes p) with
    | None => Err EInvalidHex
    | Some bs => do cs <- deser bs; if len_is 1 cs then go_index0 cs else Err EOther
    end.
  (* a design that rejects only MORE than one root (kept for Proofs/C20History.v):
     a well-formed bag of cells with zero roots reaches cells[0] *)
  Definition parse_cell_gt1 (p : str) : res cell :=
    match hex_decode (trim_quotes p) with
    | None => Err EInvalidHex
    | Some bs => do cs <- deser bs; if short 2 cs then go_index0 cs else Err EOther
    end.
End Cell.

(** * boc.BitString: Fift hex *)
Definition fift_chars (l : bits) : str :=
  let '(ds, u) := to_fift l in map hex_upper ds ++ (if u then [ch_under] else []).

(* the completion tag <digit>_ : the digit's bits before its last 1
   (that the source's suffixToBits map is this function: C06_gen.v) *)
Definition ref_suffix (c : N) : option bits :=
  match hex_val c with Some d => strip_tag d | None => None end.

(* for _, x := range s { hexToInt(uint8(x)) }: runes, truncated to a byte *)
Fixpoint hex_digits (rs : list N) : option (list N) :=
  match rs with
  | [] => Some []
  | r :: t =>
      match hex_val (r mod 256), hex_digits t with
      | Some d, Some ds => Some (d :: ds)
      | _, _ => None
      end
  end.

Definition ends_under (s : str) : bool :=                (* strings.HasSuffix(s, _) *)
  match rev s with c :: _ => c =? ch_under | [] => false end.

(* boc.BitStringFromFiftHex *)
Definition from_fift_str (cs : str) : res bits :=
  if ends_under cs then
    match rev cs with
    | _ :: c :: body_rev =>                        (* len >= 2: tag digit c, then _ *)
        match ref_suffix c, hex_digits (runes (rev body_rev)) with
        | Some tail, Some ds => Ok (concat_nibbles ds ++ tail)
        | _, _ => Err EInvalidHex
        end
    | _ => Err EInvalidHex
    end
  else
    match hex_digits (runes cs) with
    | Some ds => Ok (concat_nibbles ds)
    | None => Err EInvalidHex
    end.

Definition print_bitstring (l : bits) : str := quote (fift_chars l).

(* BitString.MarshalJSON on the buffer state of C06 (capacity, length, buffer
   with arbitrary content past the length): ToFiftHex as the Go code computes
   it, with its Copy + Grow + completion tag ([Model.BitStringD.to_fift_bs]) *)
Definition print_bitstring_bs (s : bs) : res str :=
  do r <- to_fift_bs s;
  let '(ds, u) := r in
  Ok (quote (map hex_upper ds ++ (if u then [ch_under] else []))).
(* a bit string obtained the way the TL-B decoder obtains one: the source holds
   pre ++ l ++ tail, ReadBits(|pre|) is discarded, ReadBits(|l|) is the value.
   At a byte-aligned position ReadBits copies whole bytes, so the last byte of
   the result keeps the first bits of [tail] behind its length (stale bits). *)
Definition read_bs (pre l tail : bits) : res bs :=
  let src := fst (write_bits (pre ++ l ++ tail) (new_bs (length (pre ++ l ++ tail)))) in
  match read_bits_bs (length pre) src with
  | (s1, Ok _) =>
      match read_bits_bs (length l) s1 with
      | (_, Ok r) => Ok r
      | (_, Err e) => Err e
      | (_, Panic p) => Panic p
      end
  | (_, Err e) => Err e
  | (_, Panic p) => Panic p
  end.

(* bits behind the length through the exported On(n): write [l] into
   NewBitString(|l| + |tail|), then switch on the positions |l| + i for every 1
   of [tail] -- len is untouched (after the repair of ReadBits this, and writing
   into Buffer(), are the public ways to get junk behind the length) *)
Fixpoint set_ons (pos : nat) (tail : bits) (s : bs) : bs :=
  match tail with
  | [] => s
  | b :: t => set_ons (S pos) t (if b then fst (set_bit pos true s) else s)
  end.
Definition on_bs (l tail : bits) : bs :=
  set_ons (length l) tail (fst (write_bits l (new_bs (length l + length tail)))).

(* a design that pads by rounding the length up to a multiple of 4 instead of
   writing the zero bits (kept for Proofs/C20History.v): it shows whatever the
   buffer holds behind the length *)
Definition to_fift_bs_roundup (s : bs) : res (list N * bool) :=
  if (len s mod 4 =? 0)%nat then res_map (fun d => (d, false)) (hex_of_buf s)
  else
    let k := (4 - len s mod 4)%nat in
    match write_bit true (grow k (copy_bs s)) with
    | (_, Panic p) => Panic p
    | (t1, _) =>
        res_map (fun d => (d, true))
                (hex_of_buf (mkbs (buf t1) (cap t1) (len s + k) (rcur t1)))
    end.
Definition print_bitstring_bs_roundup (s : bs) : res str :=
  do r <- to_fift_bs_roundup s;
  let '(ds, u) := r in
  Ok (quote (map hex_upper ds ++ (if u then [ch_under] else []))).

(* a string of [l] written into a fresh buffer with [free] bits to spare *)
Definition written_bs (l : bits) (free : nat) : bs := fst (write_bits l (new_bs (length l + free))).
Definition parse_bitstring (p : str) : res bits := from_fift_str (trim_quotes p).

(** * tlb.MsgAddress *)
Definition anycast := option (N * N).              (* depth, rewrite prefix: uint32 each *)
Inductive msgaddr :=
| AddrNone
| AddrExtern (b : bits)
| AddrStd (any : anycast) (wc : Z) (addr : list N)             (* int8, 32 bytes *)
| AddrVar (any : anycast) (alen : N) (wc : Z) (b : bits).      (* Uint9, int32, bits *)

Definition s_anycast : str := [65; 110; 121; 99; 97; 115; 116; 40].      (* Anycast( *)
Definition print_anycast (a : anycast) : str :=
  match a with
  | None => []
  | Some (d, p) => ch_colon :: s_anycast ++ print_N d ++ 44 :: print_N p ++ [41]
  end.

Definition print_msgaddr (a : msgaddr) : str :=
  match a with
  | AddrNone => quote []
  | AddrExtern b => quote (fift_chars b)
  | AddrStd any wc addr => quote (print_Z wc ++ ch_colon :: print_hex addr ++ print_anycast any)
  | AddrVar any _ wc b => quote (print_Z wc ++ ch_colon :: fift_chars b ++ print_anycast any)
  end.

(* parts[2]: Anycast( depth , prefix ) *)
Definition parse_anycast (p2 : str) : res (N * N) :=
  if has_prefix_b s_anycast p2 && has_suffix_b [41] p2 then
    do inner <- go_slice 8 (length p2 - 1) p2;        (* parts[2][len("Anycast("):len(parts[2])-1] *)
    sscanf_d_d inner
  else Err ESyntax.

(* the text between the quotes, when it is not empty *)
Definition parse_addr_value (value : str) : res msgaddr :=
  match split_on ch_colon value with
  | [] => Err EOther
  | [_] => res_map AddrExtern (from_fift_str value)
  | p0 :: p1 :: more =>
      do any <- match more with
                | [] => Ok None
                | [p2] => res_map Some (parse_anycast p2)
                | _ => Err ESyntax
                end;
      let is_int8 := match parse_int 32 p0 with
                     | Ok n => (-128 <=? n)%Z && (n <=? 127)%Z
                     | _ => false
                     end in
      if len_is 64 p1 && is_int8 && negb (ends_under p1) then
        match hex_decode p1 with
        | None => Err EInvalidHex
        | Some a => do wc <- parse_int 8 p0; Ok (AddrStd any wc a)
        end
      else
        do b <- from_fift_str p1;
        do wc <- parse_int 32 p0;
        Ok (AddrVar any (N.of_nat (length b) mod 65536) wc b)
  end.

Definition parse_msgaddr (p : str) : res msgaddr :=
  match trim_quotes p with
  | [] => Ok AddrNone
  | value => parse_addr_value value
  end.

(** * ton.Bits256: %x out, fmt.Fscanf of a quoted %x in *)
Definition parse_ton_bits256 (p : str) : res (list N) :=
  let '(bs, closed) := fscanf_quoted_hex p in
  if len_is 32 bs then (if closed then Ok bs else Err ESyntax) else Err EOther.

(** * tl.Int256: json.Marshal(hex) / json.Unmarshal into a string, hex *)
Definition print_tl_int256 (bs : list N) : res str := json_marshal_string (print_hex bs).
Definition parse_tl_int256 (p : str) : res (list N) :=
  do s <- json_unmarshal_string p;
  match hex_decode s with
  | Some bs => if len_is 32 bs then Ok bs else Err EOther
  | None => Err EInvalidHex
  end.

(** * ton.AccountID: json.Marshal(ToRaw()) / json.Unmarshal + ParseAccountID
      (raw and user-friendly text forms: Model/Address.v, C17) *)
Definition print_account (wc : Z) (addr : list N) : res str :=
  json_marshal_string (Address.print_raw wc addr).
Definition parse_account_json (p : str) : res (Z * list N) :=
  do s <- json_unmarshal_string p; Address.parse_account s.
