(** C08, TL-B side, second layer: the reflection walker extended by the
    hand-written decoders of package tlb, each transcribed on cell trees with
    cell kinds (ordinary / pruned branch / library), with a step counter and an
    allocation counter:

      tlb/hashmap.go   Hashmap.mapInner, HashmapAug.mapInner, loadLabel
                       (HashmapE = Maybe[Ref[Hashmap]], HashmapAugE = {Maybe[Ref[HashmapAug]]; extra})
      tlb/stack.go     VmStack (getStackListItems), VmStackValue, VmStkTuple
                       (vmTupleInner / vmTupleRefInner), VmCellSlice, VmCont
      tlb/models.go    Grams, SnakeData, Bytes, FixedLengthText
      tlb/primitives.go, tlb/decoder.go   as in Model/TlbTotal.v

    Recursion that follows the DATA (dictionary forks, stack lists, tuples,
    snake chains) is structural recursion on the cell tree: it needs no fuel,
    so it cannot run out of it.  Fuel only bounds the nesting of the descriptor.

    Every decode() call starts with the library-cell check (no resolver is
    configured: error).  [c_alloc] charges, as upper estimates: per dictionary
    fork two copies of the key prefix, per leaf the value/key appends (3 x the
    static Go size of the value, passed in the descriptor), per stack level the
    copy of the tail (304 bytes per item) and the append, per snake level the
    copy of the accumulated bits. *)
From Coq Require Import List NArith ZArith Arith Bool.
From Tongo Require Import Lib.Bits Lib.Res Spec.Dict Model.Hashmap Model.TlbCore Model.TlbTotal.
Import ListNotations.

Record ct := mkct { c_steps : N; c_alloc : N }.
Definition tickc (st : ct) : ct := mkct (c_steps st + 1) (c_alloc st).
Definition chg (n : N) (st : ct) : ct := mkct (c_steps st) (c_alloc st + n).

(* what is left unread of the cell being decoded, with the kind of that cell *)
Record ys := mkys { yk : N; yb : bits; yr : list xtree }.
Definition cell_of (s : ys) : xtree := XT (yk s) (yb s) (yr s).
Definition slice_of (c : xtree) : ys := match c with XT k b r => mkys k b r end.

(* outcome and cost; the cost is kept on errors too (an ignored error still costs) *)
Definition yres (A : Type) := (res A * ct)%type.
Definition yret {A} (a : A) (st : ct) : yres A := (Ok a, st).
Definition yerr {A} (e : N) (st : ct) : yres A := (Err e, st).
Definition ybind {A B} (r : yres A) (k : A -> ct -> yres B) : yres B :=
  match r with
  | (Ok a, st) => k a st
  | (Err e, st) => (Err e, st)
  | (Panic p, st) => (Panic p, st)
  end.
Notation "'doy' ( x , st ) <- r ; k" := (ybind r (fun x st => k))
  (at level 200, x pattern, st name, r at level 100, k at level 200, right associativity).
(* a pure reader step *)
Definition ylift {A} (r : res A) (st : ct) : yres A :=
  match r with Ok a => (Ok a, st) | Err e => (Err e, st) | Panic p => (Panic p, st) end.

Definition ytake_bits (n : nat) (s : ys) : res (bits * ys) :=
  if short n (yb s) then Err ENotEnoughBits
  else Ok (firstn n (yb s), mkys (yk s) (skipn n (yb s)) (yr s)).
Definition ytake_ref (s : ys) : res (xtree * ys) :=
  match yr s with
  | [] => Err ENotEnoughRefs
  | c :: t => Ok (c, mkys (yk s) (yb s) t)
  end.
Definition kind_of (c : xtree) : N := match c with XT k _ _ => k end.
Definition is_lib (k : N) : bool := N.eqb k K_LIBRARY.
Definition is_pruned (k : N) : bool := N.eqb k K_PRUNED.

Definition VM_VALUE_SIZE : N := 304.     (* unsafe.Sizeof(tlb.VmStackValue{}) *)

(** * tlb/stack.go *)

(* VmCellSlice.UnmarshalTLB *)
Definition vm_cellslice (s : ys) : res ys :=
  do cr <- ytake_ref s;
  let '(cell, s1) := cr in
  do a <- ytake_bits 10 s1;
  do b <- ytake_bits 10 (snd a);
  let stB := N_of_bits (fst a) in let endB := N_of_bits (fst b) in
  if (endB <? stB)%N then Err ETlb else
  do c <- ytake_bits 3 (snd b);                        (* ReadLimUint(4) *)
  do d <- ytake_bits 3 (snd c);
  let stR := N_of_bits (fst c) in let endR := N_of_bits (fst d) in
  if (endR <? stR)%N then Err ETlb else
  match cell with
  | XT _ cb crefs =>
      if (N.of_nat (length cb) <? endB)%N then Err ETlb
      else if (N.of_nat (length crefs) <? endR)%N then Err ETlb
      else Ok (snd d)
  end.

(* VmStackValue (mode None) and vmTupleInner(n, c) (mode Some n), by structural
   recursion on the cell: every recursive call is on a reference of [c] *)
Fixpoint vmw (mode : option N) (c : xtree) (st : ct) {struct c} : yres ys :=
  match c with
  | XT k b refs =>
    let st := tickc st in
    let tuple_body (n : N) (b : bits) (refs : list xtree) (st : ct) : yres ys :=
      if N.eqb n 0 then yret (mkys k b refs) st else
      let m := N.pred n in
      (* head, err := vmTupleRefInner(n-1, c) *)
      let after_head (refs1 : list xtree) (st1 : ct) : yres ys :=
        (* c1, err := c.NextRef(); Unmarshal(c1, &vmStackValue) *)
        match refs1 with
        | [] => yerr ENotEnoughRefs st1
        | c2 :: r3 => doy (_, st2) <- vmw None c2 st1; yret (mkys k b r3) st2
        end in
      if N.eqb m 0 then after_head refs st
      else match refs with
           | [] => yerr ENotEnoughRefs st
           | c1 :: r1 =>
               if N.eqb m 1 then
                 (* err = Unmarshal(c1, &vmStackValue) (the error was ignored before
                    "fix: propagate the error of a tuple entry") *)
                 doy (_, st1) <- vmw None c1 st; after_head r1 st1
               else doy (_, st1) <- vmw (Some m) c1 st; after_head r1 st1
           end in
    match mode with
    | Some n => tuple_body n b refs st
    | None =>
      if is_lib k then yerr ETlb st else                 (* decode(): c.IsLibrary(), no resolver *)
      if short 8 b then yerr ETlb st else                (* no tag can match *)
      let tag := N_of_bits (firstn 8 b) in
      let s1 := mkys k (skipn 8 b) refs in
      if N.eqb tag 0 then yret s1 st                                             (* vm_stk_null#00 *)
      else if N.eqb tag 1 then doy (x, st) <- ylift (ytake_bits 64 s1) st; yret (snd x) st   (* tinyint *)
      else if N.eqb tag 2 then
        (* vm_stk_int$000000100000000 (15 bits), then vm_stk_nan#02ff *)
        if short 15 b then yerr ETlb st
        else if N.eqb (N_of_bits (firstn 7 (skipn 8 b))) 0 then
          doy (x, st) <- ylift (ytake_bits 257 (mkys k (skipn 15 b) refs)) st; yret (snd x) st
        else if short 16 b then yerr ETlb st
        else if N.eqb (N_of_bits (firstn 8 (skipn 8 b))) 255 then yret (mkys k (skipn 16 b) refs) st
        else yerr ETlb st
      else if N.eqb tag 3 || N.eqb tag 5 then            (* Ref[boc.Cell]: any cell *)
        doy (x, st) <- ylift (ytake_ref s1) st; yret (snd x) st
      else if N.eqb tag 4 then ylift (vm_cellslice s1) st
      else if N.eqb tag 6 then yerr ETlb st              (* VmCont: "not implemented" *)
      else if N.eqb tag 7 then
        if short 16 (skipn 8 b) then yerr ENotEnoughBits st
        else tuple_body (N_of_bits (firstn 16 (skipn 8 b))) (skipn 24 b) refs st
      else yerr ETlb st
    end
  end.

Definition vm_value (s : ys) (st : ct) : yres ys := vmw None (cell_of s) st.
(* VmStkTuple.UnmarshalTLB *)
Definition vm_tuple (s : ys) (st : ct) : yres ys :=
  doy (x, st) <- ylift (ytake_bits 16 s) st;
  vmw (Some (N_of_bits (fst x))) (cell_of (snd x)) st.

(* getStackListItems(c, depth): items decoded, what is left of c *)
Fixpoint vm_list (c : xtree) (depth : N) (st : ct) {struct c} : yres (N * ys) :=
  match c with
  | XT k b refs =>
    let st := tickc st in
    if N.eqb depth 0 then yret (0%N, mkys k b refs) st else
    match refs with
    | [] => yerr ENotEnoughRefs st
    | rest :: refs' =>
        doy (r, st) <- vm_list rest (N.pred depth) st;
        let n := fst r in
        let st := chg (VM_VALUE_SIZE * n) st in          (* res = append(res, rest...) *)
        doy (s2, st) <- vmw None (XT k b refs') st;      (* decoder.Unmarshal(c, &tos) *)
        yret (N.succ n, s2) (chg (2 * VM_VALUE_SIZE * N.succ n) st)   (* res = append(res, tos) *)
    end
  end.

(* VmStack.UnmarshalTLB *)
Definition vm_stack (s : ys) (st : ct) : yres ys :=
  doy (x, st) <- ylift (ytake_bits 24 s) st;
  let depth := N_of_bits (fst x) in
  if N.eqb depth 0 then yret (snd x) st
  else doy (r, st) <- vm_list (cell_of (snd x)) depth st; yret (snd r) st.

(** * tlb/models.go *)
Definition grams (s : ys) : res ys :=
  do x <- ytake_bits 4 s;                                (* ReadLimUint(15) *)
  let ln := N_of_bits (fst x) in
  if (8 <? ln)%N then Err ETlb else
  do y <- ytake_bits (8 * N.to_nat ln) (snd x); Ok (snd y).

(* SnakeData.UnmarshalTLB: number of bits collected, what is left of c *)
Fixpoint snake (c : xtree) (st : ct) {struct c} : yres (N * ys) :=
  match c with
  | XT k b refs =>
    let st := tickc st in
    if is_lib k then yerr ETlb st else
    let own := N.of_nat (length b) in
    match refs with
    | [] => yret (own, mkys k [] []) (chg (own / 8 + 64) st)
    | c1 :: r' =>
        doy (r, st) <- snake c1 st;
        yret ((own + fst r)%N, mkys k [] r') (chg ((own + fst r) / 8 + 64) st)   (* b.Append(sn) *)
    end
  end.

Definition fixed_text (s : ys) : res ys :=
  do x <- ytake_bits 8 s;
  do y <- ytake_bits (8 * N.to_nat (N_of_bits (fst x))) (snd x); Ok (snd y).

(* the bits a successful SnakeData decode has collected, as bytes *)
Fixpoint snake_bits (c : xtree) : bits :=
  match c with
  | XT _ b refs => b ++ match refs with [] => [] | c1 :: _ => snake_bits c1 end
  end.
Fixpoint bits_bytes (fuel : nat) (l : bits) : list N :=
  match fuel with
  | O => []
  | S f => match l with [] => [] | _ => N_of_bits (firstn 8 l) :: bits_bytes f (skipn 8 l) end
  end.

(* unicode/utf8.Valid: well-formed UTF-8 (no overlong forms, no surrogates, at most U+10FFFF) *)
Definition u8in (lo hi b : N) : bool := (lo <=? b)%N && (b <=? hi)%N.
Definition u8c (b : N) : bool := u8in 128 191 b.
Fixpoint utf8_valid (l : list N) : bool :=
  match l with
  | [] => true
  | b0 :: t =>
      if (b0 <? 128)%N then utf8_valid t
      else if u8in 194 223 b0 then
        match t with b1 :: t1 => u8c b1 && utf8_valid t1 | _ => false end
      else if u8in 224 239 b0 then
        match t with
        | b1 :: b2 :: t2 =>
            (if N.eqb b0 224 then u8in 160 191 b1 else if N.eqb b0 237 then u8in 128 159 b1 else u8c b1)
            && u8c b2 && utf8_valid t2
        | _ => false
        end
      else if u8in 240 244 b0 then
        match t with
        | b1 :: b2 :: b3 :: t3 =>
            (if N.eqb b0 240 then u8in 144 191 b1 else if N.eqb b0 244 then u8in 128 143 b1 else u8c b1)
            && u8c b2 && u8c b3 && utf8_valid t3
        | _ => false
        end
      else false
  end.

(** * tlb/bintree.go: decodeRecursiveBinTree — the leaf cells, left to right *)
Fixpoint bt_tree (c : xtree) (st : ct) {struct c} : yres (list ys) :=
  match c with
  | XT k b refs =>
    let st := tickc st in
    match b with
    | [] => yerr ENotEnoughBits st
    | false :: b' => yret [mkys k b' refs] st
    | true :: _ =>
        match refs with
        | [] => yerr ENotEnoughRefs st
        | l :: refs' =>
            doy (ll, st) <- bt_tree l st;
            match refs' with
            | [] => yerr ENotEnoughRefs st
            | r :: _ =>
                doy (lr, st) <- bt_tree r (chg (8 * N.of_nat (length ll)) st);   (* append(cellAr, rec...) *)
                yret (ll ++ lr) (chg (8 * N.of_nat (length lr)) st)
            end
        end
    end
  end.

(* for _, i := range dec { decoder.Unmarshal(i, &t) }: what is left of the last leaf *)
Fixpoint bt_leaves (V : ys -> ct -> yres ys) (ls : list ys) (last : ys) (st : ct) : yres ys :=
  match ls with
  | [] => yret last st
  | x :: t => doy (s', st) <- V x st; bt_leaves V t s' st
  end.

(** * tlb/hashmap.go *)
Section Dict.
  (* decoder.Unmarshal(c, &value) / (c, &extra) on what is left of the node *)
  Variable V : ys -> ct -> yres ys.
  Variable E : option (ys -> ct -> yres ys).
  Variable n : nat.          (* key size *)
  Variable vsz : N.          (* static Go size of a value + key + extra *)

  Definition fork_charge : N := 2 * (N.of_nat n / 8 + 48).
  Definition leaf_charge : N := 3 * vsz + N.of_nat n / 8 + 96.

  Definition with_extra (s : ys) (st : ct) : yres ys :=
    match E with Some e => e s st | None => yret s st end.

  (* mapInner: result = what is left of the node cell *)
  Fixpoint hm_tree (left : nat) (c : xtree) (plen : nat) (st : ct) {struct c} : yres ys :=
    match c with
    | XT k b refs =>
      let st := tickc st in
      if is_pruned k then yret (mkys k b refs) st else
      doy (lr, st) <- ylift (load_label left (n - plen) b) st;
      let '(lbl, rest) := lr in
      let plen' := (plen + length lbl)%nat in
      let left' := (left - (1 + length lbl))%nat in
      if (plen' <? n)%nat then
        match refs with
        | [] => yerr ENotEnoughRefs st
        | l :: refs' =>
            doy (_, st) <- hm_tree left' l (S plen') (chg fork_charge st);
            match refs' with
            | [] => yerr ENotEnoughRefs st
            | r :: refs'' =>
                doy (_, st) <- hm_tree left' r (S plen') st;
                with_extra (mkys k rest refs'') st
            end
        end
      else
        doy (s1, st) <- with_extra (mkys k rest refs) st;
        doy (s2, st) <- V s1 st;
        yret s2 (chg leaf_charge st)
    end.

  Definition hm_decode (s : ys) (st : ct) : yres ys := hm_tree n (cell_of s) 0 st.
End Dict.

(** * measures of the input: size in bytes (every cell counts at least 1) and height *)
Definition cell_w (b : bits) : N := 1 + N.of_nat (length b) / 8.
Fixpoint tsz (c : xtree) : N :=
  match c with XT _ b r => (cell_w b + fold_right (fun x a => tsz x + a) 0 r)%N end.
Fixpoint thg (c : xtree) : N :=
  match c with XT _ _ r => (1 + fold_right (fun x a => N.max (thg x) a) 0 r)%N end.

(** * descriptors *)
Inductive yty :=
| YUint (w : nat) | YInt (w : nat) | YBigUint (w : nat) | YBigInt (w : nat)
| YBool | YBits (n : nat) | YVarUInt (n : nat) | YUnary
| YMagic (len : nat) (val : N)
| YMaybe (t : yty) | YEither (l r : yty) | YEitherRef (t : yty) | YRef (t : yty) | YMaybeRef (t : yty)
| YStruct (fs : list yty)
| YSum (alts : list (nat * N * yty))
| YAny | YCellRef | YAddr
| YNamed (i : nat)
| YGrams | YSnake | YBytes | YFixedText
| YHashmap (n : nat) (vsz : N) (v : yty)
| YHashmapAug (n : nat) (vsz : N) (v e : yty)
| YVmStack | YVmValue | YVmTuple | YCellSlice
| YFail                             (* UnmarshalTLB that always returns an error (VmCont) *)
| YRawCell                          (* boc.Cell without a tag: decodeCell copies the cell, any kind *)
| YText                             (* Text: Bytes + utf8.Valid *)
| YBinTree (vsz : N) (v : yty)      (* BinTree[T] *)
| YHashed (t : yty)                 (* Message / Transaction: c.Hash() first (error if the cell cannot be
                                       hashed), c.ResetCounters(), then the fields.  Only generated for
                                       positions at the start of a cell, where the rewind is the identity. *)
| YRefRaw (t : yty)                 (* c1 := c.NextRef(); decoder.Unmarshal(c1, &x) inside a hand-written method:
                                       no pruned-branch shortcut, and no decode() (library check) on c itself *)
| YNoLib (t : yty)
| YPeek (off len : nat) (val : N) (t0 t1 : yty)
                                    (* a layout selected by a field that is read later: bits [off, off+len) of
                                       what is unread equal to [val] -> t1, otherwise t0 (BlockInfo: not_master,
                                       after_merge, vert_seqno_incr, flags.0; McStateExtra: flags = 1;
                                       McBlockExtra: key_block) *)
| YRefRawOpt (t : yty)              (* c1, err := c.NextRef(); a missing reference is skipped, otherwise as YRefRaw *)
| YOpenStruct (fs : list yty).      (* fields read from the current cell by a hand-written method that was
                                       called directly (no decode(): no library check on this cell) *)                 (* the content of a "^" / "maybe^" field: a library cell there is an error
                                       ("library cell as a ref is not implemented"), resolver or not *)

(* a reference position that checks for a pruned branch *)
Definition sub_slice (c : xtree) (chk : bool) : option ys :=
  if chk && is_pruned (kind_of c) then None else Some (slice_of c).

Section Walk.
Variable env : list yty.
(* whether boc.Cell.Hash() succeeds on a cell: an oracle column of the harness in
   the correspondence runs, an arbitrary predicate in the theorems *)
Variable hash_ok : xtree -> bool.

(* what decode() does after the library check, on the cell it ended up with;
   [D] = decode one level down *)
Definition ybody (D : yty -> ys -> ct -> yres ys) (t : yty) (s : ys) (st : ct) : yres ys :=
    let bitsn (w : nat) : yres ys := doy (x, st) <- ylift (ytake_bits w s) st; yret (snd x) st in
    let into (cr : xtree * ys) (chk : bool) (t' : yty) (st : ct) : yres ys :=
      match sub_slice (fst cr) chk with
      | Some s2 => doy (_, st) <- D t' s2 st; yret (snd cr) st
      | None => yret (snd cr) st
      end in
    match t with
    | YUint w | YBigUint w | YBigInt w | YBits w => bitsn w
    | YInt w => if (w =? 0)%nat then yerr EZeroSize st else bitsn w
    | YBool => bitsn 1
    | YVarUInt k =>
        let w := N.to_nat (N.size (N.of_nat (k - 1))) in
        doy (x, st) <- ylift (ytake_bits w s) st;
        doy (y, st) <- ylift (ytake_bits (8 * N.to_nat (N_of_bits (fst x))) (snd x)) st;
        yret (snd y) st
    | YUnary => doy (r, st) <- ylift (xunary (S (length (yb s))) (yb s)) st; yret (mkys (yk s) r (yr s)) st
    | YMagic len val =>
        if short len (yb s) then
          if N.eqb val 0 then yret s st else yerr ETlb st
        else
          doy (x, st) <- ylift (ytake_bits len s) st;
          if N.eqb (N_of_bits (fst x)) val then yret (snd x) st else yerr ETlb st
    | YMaybe t' =>
        doy (x, st) <- ylift (ytake_bits 1 s) st;
        if nth 0 (fst x) false then D t' (snd x) st else yret (snd x) st
    | YEither l r =>
        doy (x, st) <- ylift (ytake_bits 1 s) st;
        if nth 0 (fst x) false then D r (snd x) st else D l (snd x) st
    | YEitherRef t' =>
        doy (x, st) <- ylift (ytake_bits 1 s) st;
        if nth 0 (fst x) false then
          doy (cr, st) <- ylift (ytake_ref (snd x)) st; into cr false t' st
        else D t' (snd x) st
    | YRef t' => doy (cr, st) <- ylift (ytake_ref s) st; into cr true t' st
    | YMaybeRef t' =>
        doy (x, st) <- ylift (ytake_bits 1 s) st;
        if nth 0 (fst x) false then
          doy (cr, st) <- ylift (ytake_ref (snd x)) st; into cr true t' st
        else yret (snd x) st
    | YStruct fs =>
        (fix go (fs : list yty) (s : ys) (st : ct) : yres ys :=
           match fs with
           | [] => yret s st
           | t1 :: ft => doy (s1, st) <- D t1 s st; go ft s1 st
           end) fs s st
    | YSum alts =>
        (fix go (alts : list (nat * N * yty)) : yres ys :=
           match alts with
           | [] => yerr ETlb st
           | (len, val, t') :: rest =>
               if short len (yb s) then go rest
               else if N.eqb (N_of_bits (firstn len (yb s))) val then
                 D t' (mkys (yk s) (skipn len (yb s)) (yr s)) st
               else go rest
           end) alts
    | YAny => yret (mkys (yk s) [] []) st
    | YCellRef => doy (cr, st) <- ylift (ytake_ref s) st; yret (snd cr) st
    | YAddr => doy (x, st) <- ylift (addr_parse (yb s)) st; yret (mkys (yk s) (snd x) (yr s)) st
    | YNamed i => match nth_error env i with Some t' => D t' s st | None => yerr ETlb st end
    | YGrams => ylift (grams s) st
    | YSnake => doy (r, st) <- snake (cell_of s) st; yret (snd r) st
    | YBytes =>
        doy (r, st) <- snake (cell_of s) st;
        if N.eqb (fst r mod 8) 0 then yret (snd r) st else yerr ETlb st
    | YFixedText => ylift (fixed_text s) st
    | YHashmap n vsz v => hm_decode (D v) None n vsz s st
    | YHashmapAug n vsz v e => hm_decode (D v) (Some (D e)) n vsz s st
    | YVmStack => vm_stack s st
    | YVmValue => vm_value s st
    | YVmTuple => vm_tuple s st
    | YCellSlice => ylift (vm_cellslice s) st
    | YFail => yerr ETlb st
    | YRawCell => yret s st
    | YText =>
        doy (r, st) <- snake (cell_of s) st;
        if N.eqb (fst r mod 8) 0 then
          let st := chg (fst r / 8) st in                 (* Text(b): the string copy *)
          if utf8_valid (bits_bytes (length (snake_bits (cell_of s))) (snake_bits (cell_of s)))
          then yret (snd r) st else yerr ETlb st
        else yerr ETlb st
    | YBinTree vsz v =>
        doy (leaves, st) <- bt_tree (cell_of s) st;
        let st := chg (vsz * N.of_nat (length leaves)) st in     (* make([]T, 0, len(dec)) *)
        doy (last, st) <- bt_leaves (D v) leaves s st;
        match yb s with
        | true :: b' => yret (mkys (yk s) b' (skipn 2 (yr s))) st   (* a fork: one bit and two references of c *)
        | _ => yret last st                                          (* a leaf: c itself was decoded *)
        end
    | YHashed t' =>
        let st := chg (tsz (cell_of s)) st in           (* hashing walks the whole subtree *)
        if hash_ok (cell_of s) then D t' s st else yerr ETlb st
    | YRefRaw t' => doy (cr, st) <- ylift (ytake_ref s) st; into cr false t' st
    | YNoLib t' => D t' s st
    | YPeek off len val t0 t1 =>
        if short (off + len) (yb s) then yerr ENotEnoughBits st
        else if N.eqb (N_of_bits (firstn len (skipn off (yb s)))) val then D t1 s st else D t0 s st
    | YRefRawOpt t' =>
        match yr s with
        | [] => yret s st
        | _ => doy (cr, st) <- ylift (ytake_ref s) st; into cr false t' st
        end
    | YOpenStruct fs =>
        (fix go (fs : list yty) (s : ys) (st : ct) : yres ys :=
           match fs with
           | [] => yret s st
           | t1 :: ft => doy (s1, st) <- D t1 s st; go ft s1 st
           end) fs s st
    end.

(* the library check of decode(): a *boc.Cell or *Any target keeps the library
   cell; anything else is resolved ONCE through the configured resolver (hash of
   the cell first), decoded in the cell the resolver returned — whatever kind
   that is — and the library cell itself is left unread.  [resolve c = None]:
   no resolver, or the resolver returned an error. *)
Variable resolve : xtree -> option xtree.

Fixpoint ydec (fuel : nat) (t : yty) (s : ys) (st : ct) {struct fuel} : yres ys :=
  let st := tickc st in
  match fuel with
  | O => yerr EFuel st
  | S f =>
    if is_lib (yk s) && negb (match t with YRawCell | YAny | YOpenStruct _ | YRefRaw _ | YRefRawOpt _ => true | _ => false end) then
      if (match t with YNoLib _ => true | _ => false end) then yerr ETlb st else
      if negb (hash_ok (cell_of s)) then yerr ETlb st else
      match resolve (cell_of s) with
      | None => yerr ETlb st
      | Some c' => doy (_, st) <- ybody (ydec f) t (slice_of c') st; yret s st
      end
    else ybody (ydec f) t s st
  end.

(* tlb.Unmarshal(c, &x) *)
Definition yunmarshal (fuel : nat) (t : yty) (c : xtree) : yres ys :=
  ydec fuel t (slice_of c) (mkct 0 0).
End Walk.

Definition no_resolver : xtree -> option xtree := fun _ => None.

