(** C17 model, part 5: JSON form of a TL-B address (tlb/messages.go:
    MsgAddress.MarshalJSON / UnmarshalJSON) — the form an account id takes
    when a message or transaction holding id.ToMsgAddress() is served as JSON.

    UnmarshalJSON works on the raw bytes of the JSON value (no unescaping):
    strings.Trim of quotes, strings.Split on ':', then
      (empty)                    addr_none
      one part                   addr_extern  (Fift hex)
      <int8 wc>:<64 hex>         addr_std     (second part not ending in '_')
      <int32 wc>:<Fift hex>      addr_var
    optionally followed by :Anycast(<depth>,<rewrite_pfx>).
    Not modelled (the correspondence stream avoids them, the model refuses):
    white space inside Anycast(...) (fmt.Sscanf skips it) and non-ASCII
    characters in a Fift-hex part (the code truncates runes to bytes). *)
From Coq Require Import List NArith ZArith Bool.
From Tongo Require Import Lib.Bits Lib.Res Model.Address Model.Adnl Model.AddressTlb.
From Tongo Require Model.BitString.
Import ListNotations.
Local Open Scope N_scope.

(** * printing *)
Definition anycast_open : list N := [65; 110; 121; 99; 97; 115; 116; 40].     (* "Anycast(" *)

(* fmt.Sprintf(":Anycast(%d,%d)", depth, rewrite_pfx) *)
Definition anycast_suffix (a : option (N * N)) : list N :=
  match a with
  | None => []
  | Some (d, p) => 58 :: anycast_open ++ dec_N d ++ 44 :: dec_N p ++ [41]
  end.

Definition hex_upper (d : N) : N := if d <? 10 then 48 + d else 55 + d.

(* BitString.ToFiftHex *)
Definition fift_print (l : bits) : list N :=
  let '(ds, u) := BitString.to_fift l in map hex_upper ds ++ (if u then [95] else []).

Definition ma_json_body (m : msgaddr) : list N :=
  match m with
  | MANone => []
  | MAExtern e => fift_print e
  | MAStd any wc addr => dec_Z wc ++ 58 :: flat_map hex_byte addr ++ anycast_suffix any
  | MAVar any _ wc a => dec_Z wc ++ 58 :: fift_print a ++ anycast_suffix any
  end.

Definition ma_json_print (m : msgaddr) : list N := 34 :: ma_json_body m ++ [34].

(** * parsing *)
Fixpoint drop_quotes (cs : list N) : list N :=
  match cs with
  | c :: t => if c =? 34 then drop_quotes t else cs
  | [] => []
  end.
(* strings.Trim(s, quote) *)
Definition trim_quotes (cs : list N) : list N := rev (drop_quotes (rev (drop_quotes cs))).

(* strings.Split(s, ":") *)
Fixpoint split_colons (cs : list N) : list (list N) :=
  match cs with
  | [] => [[]]
  | c :: t =>
      if c =? 58 then [] :: split_colons t
      else match split_colons t with
           | h :: r => (c :: h) :: r
           | [] => [[c]]
           end
  end.

Fixpoint hex_digits_of (cs : list N) : option (list N) :=
  match cs with
  | [] => Some []
  | c :: t =>
      match hex_val c, hex_digits_of t with
      | Some d, Some ds => Some (d :: ds)
      | _, _ => None
      end
  end.

(* boc.BitStringFromFiftHex *)
Definition fift_parse (cs : list N) : option bits :=
  match rev cs with
  | 95 :: rest =>
      match hex_digits_of (rev rest) with
      | Some ds => BitString.from_fift ds true
      | None => None
      end
  | _ =>
      match hex_digits_of cs with
      | Some ds => BitString.from_fift ds false
      | None => None
      end
  end.

Definition ends_underscore (cs : list N) : bool :=
  match rev cs with c :: _ => c =? 95 | [] => false end.

(* fmt scanning of %d into a uint32: the longest run of decimal digits, which
   must be non-empty and denote a value below 2^32 *)
Definition is_numch (c : N) : bool := (48 <=? c) && (c <=? 57).
Fixpoint span_num (cs : list N) : list N * list N :=
  match cs with
  | c :: t => if is_numch c then let '(a, b) := span_num t in (c :: a, b) else ([], cs)
  | [] => ([], [])
  end.
Definition scan_u32 (cs : list N) : option (N * list N) :=
  let '(a, r) := span_num cs in
  match a with
  | [] => None
  | _ => match dec_value 0 a with
         | Some v => if v <? 2 ^ 32 then Some (v, r) else None
         | None => None
         end
  end.

Fixpoint strip_prefix (pre cs : list N) : option (list N) :=
  match pre, cs with
  | [], _ => Some cs
  | p :: pre', c :: cs' => if p =? c then strip_prefix pre' cs' else None
  | _, [] => None
  end.

(* parts[2] = "Anycast(" inner ")" and Sscanf(inner, "%d,%d", &depth, &prefix);
   input after the second number is ignored by Sscanf *)
Definition parse_anycast (part : list N) : res (N * N) :=
  match strip_prefix anycast_open part with
  | None => Err EOther
  | Some r =>
      match rev r with
      | 41 :: ri =>
          match scan_u32 (rev ri) with
          | Some (d, 44 :: r2) =>
              match scan_u32 r2 with
              | Some (p, _) => Ok (d, p)
              | None => Err EOther
              end
          | _ => Err EOther
          end
      | _ => Err EOther
      end
  end.

Definition is_int8 (z : Z) : bool := ((-128 <=? z) && (z <=? 127))%Z.

(* [int8p] is the test "the workchain fits addr_std" (is_int8 in the code) *)
Definition ma_json_parse_with (int8p : Z -> bool) (cs : list N) : res msgaddr :=
  let v := trim_quotes cs in
  match v with
  | [] => Ok MANone
  | _ =>
      match split_colons v with
      | [_] =>
          match fift_parse v with Some b => Ok (MAExtern b) | None => Err EOther end
      | p0 :: p1 :: rest =>
          do any <- match rest with
                    | [] => Ok None
                    | [p2] => do a <- parse_anycast p2; Ok (Some a)
                    | _ => Err EOther
                    end;
          let num := parse_int 32 p0 in
          let is8 := match num with Some z => int8p z | None => false end in
          if len_is 64 p1 && is8 && negb (ends_underscore p1) then
            match hex_decode p1, num with
            | Some a, Some wc => Ok (MAStd any wc a)
            | _, _ => Err EOther
            end
          else
            match fift_parse p1, num with
            | Some b, Some wc => Ok (MAVar any (N.of_nat (length b) mod 65536) wc b)
            | _, _ => Err EOther
            end
      | [] => Err EOther
      end
  end.

Definition ma_json_parse : list N -> res msgaddr := ma_json_parse_with is_int8.

(* AccountID -> ToMsgAddress -> json.Marshal ; json -> MsgAddress -> AccountIDFromTlb *)
Definition account_to_ma_json (wc : Z) (addr : list N) : list N :=
  ma_json_print (to_msg_address wc addr).
Definition account_from_ma_json (cs : list N) : res (option (Z * list N)) :=
  do m <- ma_json_parse cs; account_from_tlb m.
