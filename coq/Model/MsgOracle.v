(** C16: the decoders that Model/MsgHash.v takes as an [oracle], transcribed:
    tlb/hashmap.go Hashmap.mapInner (acceptance only; loadLabel is C05's
    Model/Hashmap.v [load_label]) with the value decoders of the three
    dictionaries a message / transaction contains, and TransactionDescr with its
    phases (tlb/transactions.go).  [real_oracle hf] is what tongo does when no
    library resolver is configured; with it every decode function of
    Model/MsgHash.v is a function of the cell tree (and the hasher) only. *)
From Coq Require Import List NArith ZArith Arith Bool.
From Tongo Require Import Lib.Bits Lib.Res Model.BocParse Model.CellHash Spec.ReprHash Proofs.CellHashP
  Model.MsgHash.
From Tongo Require Model.Hashmap.
Import ListNotations.

(** *** Hashmap.mapInner: does it accept this root?  [V] decodes the value from
    what is left of a leaf cell (decoder.Unmarshal(c, &value)) *)
Section Dict.
Variable V : slc -> res unit.
Variable n : nat.                      (* key size *)

Fixpoint dict_tree (left : nat) (c : cell) (plen : nat) {struct c} : res unit :=
  match c with
  | Cell sp ty m b refs =>
      if is_pruned sp ty then Ok tt else
      do lr <- Hashmap.load_label left (n - plen) b;
      let '(lbl, rest) := lr in
      let plen' := (plen + length lbl)%nat in
      let left' := (left - (1 + length lbl))%nat in
      if (plen' <? n)%nat then
        match refs with
        | [] => Err ENotEnoughRefs
        | l :: refs' =>
            do _ <- dict_tree left' l (S plen');
            match refs' with
            | [] => Err ENotEnoughRefs
            | r :: _ => dict_tree left' r (S plen')
            end
        end
      else
        (* decode() on the leaf cell: a library cell needs a resolver *)
        if sp && N.eqb ty T_LIBRARY then Err ETlbMsg else V (mks rest refs)
  end.

Definition dict_accepts (root : cell) : bool := is_ok (dict_tree n root 0).
End Dict.

(* VarUInteger32: 5-bit length, that many bytes *)
Definition val_var32 (s : slc) : res unit :=
  do l <- rd_uint 5 s; do _ <- rd (8 * N.to_nat (fst l)) (snd l); Ok tt.
(* SimpleLib: public:Bool root:^Cell (any referenced cell is kept as it is) *)
Definition val_simple_lib (s : slc) : res unit :=
  do b <- rd_bit s; do _ <- next_ref (snd b); Ok tt.
(* Ref[Message] *)
Definition val_ref_message (o : oracle) (hf : cell -> res bytes) (s : slc) : res unit :=
  do r <- next_ref s;
  if is_pruned_cell (fst r) then Ok tt else
  do _ <- decode_message_gen o (hf (fst r)) (fst r); Ok tt.

(** *** TransactionDescr *)
Definition parse_maybe (P : slc -> res slc) (s : slc) : res slc :=
  do b <- rd_bit s; if fst b then P (snd b) else Ok (snd b).
Definition skip (n : nat) (s : slc) : res slc := do x <- rd n s; Ok (snd x).
Definition skip_grams (s : slc) : res slc := do x <- parse_grams s; Ok (snd x).
(* VarUInteger k: ReadLimUint(k-1) then that many bytes *)
Definition skip_var (lenbits : nat) (s : slc) : res slc :=
  do l <- rd_uint lenbits s; skip (8 * N.to_nat (fst l)) (snd l).
(* Ref[T] / `tlb:"^"`: a pruned branch is skipped, a library cell is an error *)
Definition in_ref (P : slc -> res slc) (s : slc) : res slc :=
  do r <- next_ref s;
  if is_pruned_cell (fst r) then Ok (snd r)
  else if is_library_cell (fst r) then Err ETlbMsg
  else do _ <- P (open (fst r)); Ok (snd r).

(* acst_unchanged$0 | acst_frozen$10 | acst_deleted$11 *)
Definition acst (s : slc) : res slc :=
  do b <- rd_bit s; if fst b then skip 1 (snd b) else Ok (snd b).
Definition storage_ph (s : slc) : res slc :=
  do s <- skip_grams s; do s <- parse_maybe skip_grams s; acst s.
Definition credit_ph (o : oracle) (s : slc) : res slc :=
  do s <- parse_maybe skip_grams s; do s <- skip_grams s;
  do d <- parse_dict o 0 s; Ok (snd d).
Definition compute_vm (s : slc) : res slc :=
  do s <- skip_var 3 s; do s <- skip_var 3 s; do s <- parse_maybe (skip_var 2) s;
  do s <- skip 8 s; do s <- skip 32 s; do s <- parse_maybe (skip 32) s; do s <- skip 32 s;
  do s <- skip 256 s; skip 256 s.
Definition compute_ph (s : slc) : res slc :=
  do b <- rd_bit s;
  if fst b then
    do s <- skip 3 (snd b); do s <- skip_grams s; in_ref compute_vm s
  else
    do t <- rd_uint 2 (snd b);
    if N.eqb (fst t) 3 then
      do x <- rd_bit (snd t); if fst x then Err ETlbMsg else Ok (snd x)
    else Ok (snd t).
Definition action_ph (s : slc) : res slc :=
  do s <- skip 3 s; do s <- acst s; do s <- parse_maybe skip_grams s; do s <- parse_maybe skip_grams s;
  do s <- skip 32 s; do s <- parse_maybe (skip 32) s; do s <- skip 64 s; do s <- skip 256 s;
  do s <- skip_var 3 s; skip_var 3 s.
Definition maybe_action (s : slc) : res slc := parse_maybe (in_ref action_ph) s.
Definition storage_used (s : slc) : res slc := do s <- skip_var 3 s; skip_var 3 s.
(* tr_phase_bounce_negfunds$00 | nofunds$01 | ok$1, tried in this order; a tag
   longer than what is left does not match *)
Definition bounce_ph (s : slc) : res slc :=
  match sb s with
  | false :: false :: t => Ok (mks t (sr s))
  | false :: true :: t => do s <- storage_used (mks t (sr s)); skip_grams s
  | true :: t => do s <- storage_used (mks t (sr s)); do s <- skip_grams s; skip_grams s
  | _ => Err ETlbMsg
  end.
Definition split_info (s : slc) : res slc := skip (6 + 6 + 256 + 256) s.
(* PrepareTransaction Any `tlb:"^"` *)
Definition any_ref (s : slc) : res slc := in_ref (fun x => Ok x) s.

(* trans_ord$0000 | trans_storage$0001 | trans_tick_tock$001 | trans_split_prepare$0100 |
   trans_split_install$0101 | trans_merge_prepare$0110 | trans_merge_install$0111 *)
Definition parse_descr (o : oracle) (s : slc) : res slc :=
  let rs := sr s in
  match sb s with
  | false :: false :: false :: false :: t =>
      do s <- skip 1 (mks t rs); do s <- parse_maybe storage_ph s; do s <- parse_maybe (credit_ph o) s;
      do s <- compute_ph s; do s <- maybe_action s; do s <- skip 1 s; do s <- parse_maybe bounce_ph s; skip 1 s
  | false :: false :: false :: true :: t => storage_ph (mks t rs)
  | false :: false :: true :: t =>
      do s <- skip 1 (mks t rs); do s <- storage_ph s; do s <- compute_ph s; do s <- maybe_action s; skip 2 s
  | false :: true :: false :: false :: t =>
      do s <- split_info (mks t rs); do s <- parse_maybe storage_ph s; do s <- compute_ph s;
      do s <- maybe_action s; skip 2 s
  | false :: true :: false :: true :: t =>
      do s <- split_info (mks t rs); do s <- any_ref s; skip 1 s
  | false :: true :: true :: false :: t =>
      do s <- split_info (mks t rs); do s <- storage_ph s; skip 1 s
  | false :: true :: true :: true :: t =>
      do s <- split_info (mks t rs); do s <- any_ref s; do s <- parse_maybe storage_ph s;
      do s <- parse_maybe (credit_ph o) s; do s <- compute_ph s; do s <- maybe_action s; skip 2 s
  | _ => Err ETlbMsg
  end.

(** *** tongo's decoders as the oracle *)
(* inside messages only the extra-currency and library dictionaries occur *)
Definition msg_oracle : oracle :=
  mkoracle (fun kind root =>
              match kind with
              | O => dict_accepts val_var32 32 root
              | S O => dict_accepts val_simple_lib 256 root
              | _ => false
              end)
           (fun _ => false).

Definition real_oracle (hf : cell -> res bytes) : oracle :=
  mkoracle (fun kind root =>
              match kind with
              | O => dict_accepts val_var32 32 root
              | S O => dict_accepts val_simple_lib 256 root
              | _ => dict_accepts (val_ref_message msg_oracle hf) 15 root
              end)
           (fun c => is_ok (parse_descr msg_oracle (open c))).

(** *** with a library resolver (Decoder.WithLibraryResolver), root position:
    decode() hashes the library cell (a fresh Hash256, not the hasher), asks the
    resolver and continues with the cell it returns, without looking at that
    cell's type again; the record is decoded from, and reports the hash of, the
    RESOLVED cell.  (Library cells in nested decoder positions are resolved the
    same way by the real code; only the root is transcribed.) *)
Definition decode_message_resolving (H : bytes -> bytes) (resolve : bytes -> res cell) (o : oracle) (c : cell)
  : res msg :=
  if is_library_cell c then
    do h <- hash_cell H c; do c' <- resolve h; decode_message_body o (hash_cell H c') c'
  else decode_message H o c.

Section Real.
Variable H : bytes -> bytes.
(* tlb.Unmarshal(c, &msg) / (c, &tx), and with a caching hasher [hr] *)
Definition tongo_decode_message (c : cell) : res msg := decode_message H (real_oracle (hash_cell H)) c.
Definition tongo_decode_tx (c : cell) : res tx := decode_tx H (real_oracle (hash_cell H)) c.
End Real.
