(** Model of the reference half of boc/cell.go: the 4 reference slots and the
    reference cursor (AddRef, NewRef, NextRef, ResetCounters, RefsSize,
    RefsAvailableForRead, Refs, CopyRemaining).

    Cells are Go pointers: NextRef returns the child and resets the CHILD's
    counters, the same child can hang under several parents (or twice under
    one).  The model therefore keeps a heap (list of cells, a cell is named by
    its index) and the operations transform the heap.

    [crefs] is the used prefix of the Go array [4]*Cell (AddRef fills the first
    nil slot and nothing ever clears a slot, so the non-nil slots are a prefix);
    [ref_slot] is the array access c.refs[i]: a slot after the used ones is nil,
    an index >= 4 is out of range and panics. *)
From Coq Require Import List NArith Arith Bool.
From Tongo Require Import Lib.Bits Lib.Res Model.BitString Model.BitStringD.
Import ListNotations.

Record ccell := mkcc { cbits : bs; crefs : list nat; crc : nat }.
Definition heap := list ccell.

(* NewCell: 1023 bits of capacity, no refs *)
Definition new_cell : ccell := mkcc (new_bs 1023) [] 0.

Definition hget (h : heap) (i : nat) : ccell := nth i h new_cell.
Definition hset (h : heap) (i : nat) (c : ccell) : heap := set_nth i c h.

Definition reset_counters (c : ccell) : ccell :=
  mkcc (reset_counter (cbits c)) (crefs c) 0.

Definition refs_size (c : ccell) : nat := length (crefs c).
(* RefsAvailableForRead = RefsSize() - refCursor (Go int; never negative
   because the cursor only moves over non-nil slots) *)
Definition refs_avail (c : ccell) : nat := (refs_size c - crc c)%nat.

(* AddRef: first nil slot, ErrCellRefsOverflow when all 4 are used *)
Definition add_ref (j : nat) (c : ccell) : ccell * res unit :=
  if (4 <=? length (crefs c))%nat then (c, Err ERefsOverflow)
  else (mkcc (cbits c) (crefs c ++ [j]) (crc c), Ok tt).

(* c.refs[i] on the [4]*Cell array *)
Definition ref_slot (c : ccell) (i : nat) : res (option nat) :=
  if (i <? 4)%nat then Ok (nth_error (crefs c) i) else Panic PIndex.

(* NextRef, parameterised by the guard in front of the array access
   (the code: refCursor > 3) *)
Definition next_ref_g (guard : nat -> bool) (h : heap) (i : nat) : heap * res nat :=
  let c := hget h i in
  if guard (crc c) then (h, Err ENotEnoughRefs)
  else match ref_slot c (crc c) with
       | Panic p => (h, Panic p)
       | Err e => (h, Err e)
       | Ok None => (h, Err ENotEnoughRefs)
       | Ok (Some r) =>
           (* c.refCursor++ ; ref.ResetCounters() *)
           let h1 := hset h i (mkcc (cbits c) (crefs c) (S (crc c))) in
           (hset h1 r (reset_counters (hget h1 r)), Ok r)
       end.

Definition next_ref : heap -> nat -> heap * res nat := next_ref_g (fun rc => (3 <? rc)%nat).

(* the loop of CopyRemaining: n times NextRef; an error there is panic(err) *)
Fixpoint next_refs_g (nx : heap -> nat -> heap * res nat) (n : nat) (h : heap) (i : nat)
    (acc : list nat) : heap * res (list nat) :=
  match n with
  | O => (h, Ok (rev acc))
  | S n' =>
      match nx h i with
      | (h', Ok r) => next_refs_g nx n' h' i (r :: acc)
      | (h', Err _) => (h', Panic PExplicit)
      | (h', Panic p) => (h', Panic p)
      end
  end.

(* CopyRemaining: a NEW cell (index = old heap length) holding the unread bits
   (NewCellWithBits(ReadRemainingBits()), capacity = their number) and the
   unread references; both cursors of the source are put back *)
Definition copy_remaining_g (nx : heap -> nat -> heap * res nat) (h : heap) (i : nat)
    : heap * res nat :=
  let c := hget h i in
  let rem := snd (read_remaining_bs (cbits c)) in
  match next_refs_g nx (refs_avail c) h i [] with
  | (h1, Ok rs) =>
      if (4 <? length rs)%nat then (h1, Panic PExplicit)   (* c2.AddRef overflow: panic(err) *)
      else
        let c1 := hget h1 i in
        let h2 := hset h1 i (mkcc (cbits c1) (crefs c1) (crc c)) in
        (h2 ++ [mkcc rem rs 0], Ok (length h2))
  | (h1, Err e) => (h1, Err e)
  | (h1, Panic p) => (h1, Panic p)
  end.

Definition copy_remaining := copy_remaining_g next_ref.

(* NewRef: n := NewCell(); return n, c.AddRef(n) — the new cell exists even
   when AddRef fails *)
Definition new_ref (h : heap) (i : nat) : heap * nat * res unit :=
  let j := length h in
  let h1 := h ++ [new_cell] in
  let '(c', r) := add_ref j (hget h1 i) in
  (hset h1 i c', j, r).
